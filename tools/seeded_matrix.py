#!/venv/bin/python
"""Run the registered checks against every kept seeded change (/verif/seeded/<id>/patch.diff).

For each seeded change: copy /repo's analysed scopes (src, plugins) to a scratch directory
outside /repo and /verif, apply the patch there, run `./check <PID> --root <scratch> --no-selftest`
for the property the change breaks (and, with --all, every registered check), record which rule
reported it, and remove the scratch copy.  /repo itself is never touched.

usage: tools/seeded_matrix.py [--all] [--only C18-1 ...] [--tier quick|thorough]
Writes /verif/seeded/MATRIX.md and prints one line per seeded change.
"""
import argparse
import concurrent.futures as cf
import json
import os
import re
import shutil
import subprocess
import sys
import tempfile

HERE = os.path.dirname(os.path.dirname(os.path.abspath(__file__)))
sys.path.insert(0, HERE)
REPO = "/repo"
SEEDED = os.path.join(HERE, "seeded")


def registered():
    from sa.registry import CLAIMED

    return sorted(CLAIMED)


def run_one(sid: str, pids, tier: str):
    d = os.path.join(SEEDED, sid)
    scratch = tempfile.mkdtemp(prefix=f"verif-seeded-{sid}-")
    try:
        for scope in ("src", "plugins"):
            shutil.copytree(os.path.join(REPO, scope), os.path.join(scratch, scope), ignore=shutil.ignore_patterns("__pycache__", "*.pyc"))
        r = subprocess.run(["git", "apply", "--unsafe-paths", f"--directory={scratch}", os.path.join(d, "patch.diff")], cwd="/", capture_output=True, text=True)
        if r.returncode != 0:
            # fall back to patch(1)
            r = subprocess.run(["patch", "-p1", "-d", scratch, "-i", os.path.join(d, "patch.diff")], capture_output=True, text=True)
            if r.returncode != 0:
                return sid, {"_apply": "FAILED: " + (r.stderr or r.stdout)[-300:]}
        out = {}
        for pid in pids:
            p = subprocess.run([os.path.join(HERE, "check"), pid, "--tier", tier, "--root", scratch, "--no-selftest"], cwd=HERE, capture_output=True, text=True, env={**os.environ, "VERIF_EVIDENCE_DIR": os.path.join(scratch, "_ev")})
            txt = p.stdout + p.stderr
            viol = [l for l in txt.splitlines() if l.startswith("VIOLATION")]
            first = [l.strip() for l in txt.splitlines() if re.search(r": \[R\w+\] ", l) and "KNOWN" not in l]
            rules = sorted(set(re.findall(r": \[(R\w+)\] ", "\n".join(first))))
            first = first[:3]
            out[pid] = {"rc": p.returncode, "violation": bool(viol), "rules": rules, "first": [f[:300] for f in first]}
        return sid, out
    finally:
        shutil.rmtree(scratch, ignore_errors=True)


def main():
    ap = argparse.ArgumentParser()
    ap.add_argument("--all", action="store_true")
    ap.add_argument("--only", nargs="*")
    ap.add_argument("--tier", default="quick")
    ap.add_argument("--jobs", type=int, default=8)
    a = ap.parse_args()
    reg = registered()
    sids = sorted(x for x in os.listdir(SEEDED) if os.path.isfile(os.path.join(SEEDED, x, "patch.diff")))
    if a.only:
        sids = [s for s in sids if s in a.only]
    jobs = []
    with cf.ThreadPoolExecutor(a.jobs) as ex:
        for sid in sids:
            meta = json.load(open(os.path.join(SEEDED, sid, "meta.json")))
            own = meta["property"]
            pids = reg if a.all else [p for p in [own] + list(meta.get("also_check", [])) if p in reg]
            jobs.append(ex.submit(run_one, sid, pids, a.tier))
        results = dict(j.result() for j in jobs)
    lines = ["# Seeded changes vs. registered checks", "", f"tier={a.tier}; each change applied to a scratch copy of /repo's src+plugins; `./check <PID> --root <scratch> --no-selftest`.", "", "| seeded | property | own check | reported by (rc=1) | first report |", "|---|---|---|---|---|"]
    ok = True
    for sid in sids:
        meta = json.load(open(os.path.join(SEEDED, sid, "meta.json")))
        own = meta["property"]
        res = results[sid]
        if "_apply" in res:
            print(sid, res["_apply"])
            lines.append(f"| {sid} | {own} | patch no longer applies | | |")
            continue
        caught = [p for p, r in res.items() if r["rc"] == 1]
        broken = [p for p, r in res.items() if r["rc"] not in (0, 1)]
        own_r = res.get(own)
        own_s = "not registered" if own_r is None else {0: "MISSED", 1: "caught", 2: "ANALYSIS-ERROR"}.get(own_r["rc"], str(own_r["rc"]))
        if own_s not in ("caught",):
            ok = False
        first = (own_r or {}).get("first") or []
        print(f"{sid}: own={own_s} caught_by={caught} analysis_error={broken} {first[:1]}")
        lines.append(f"| {sid} | {own} | {own_s} | {', '.join(caught)} | {(first[0] if first else '').replace('|', '/')[:160]} |")
    if not a.only:
        with open(os.path.join(SEEDED, "MATRIX.md"), "w") as fh:
            fh.write("\n".join(lines) + "\n")
    return 0 if ok else 1


if __name__ == "__main__":
    sys.exit(main())
