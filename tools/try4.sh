#!/bin/bash
# usage: tools/try3.sh <PID> [sibling checks...]  -- tries /tmp/seed-out4/<PID>/change{5,6}.diff against the checks
pid="$1"; shift
for i in 7 8; do
  f=/tmp/seed-out4/$pid/change$i.diff
  [ -f "$f" ] || continue
  echo "== $pid-$i"
  /verif/tools/try_patch.sh "$f" "$pid" "$@" 2>&1 | grep -v "^KNOWN\|^$" | grep "VIOLATION\|\[R\|obligations=\|ANALYSIS" | cut -c1-260 | head -8
done
