#!/usr/bin/env python3
"""Regenerate /verif/MANIFEST.json from sa/registry.py (run from /verif)."""
import json
import os
import sys

HERE = os.path.dirname(os.path.dirname(os.path.abspath(__file__)))
sys.path.insert(0, HERE)
from sa import registry  # noqa: E402

props = [json.loads(l) for l in open(os.path.join(HERE, "properties.jsonl"))]
ids = [p["id"] for p in props]

checks = []
for pid in ids:
    if pid not in registry.CLAIMED:
        continue
    c = registry.CLAIMED[pid]
    checks.append(
        {
            "property_id": pid,
            "quick_cmd": f"./check {pid} --tier quick",
            "thorough_cmd": f"./check {pid} --tier thorough",
            "evidence_file": f"/verif/evidence/{pid}.json",
            "replay_cmd_template": f"./check {pid} --replay {{path}}",
            "engine": "sa",
            "level_claimed": {
                "category": "other",
                "text": c["text"] + ((" Also decided (added after independently seeded changes, DESIGN.md 9.10-9.12): " + registry.LATER_RULES[pid]) if pid in registry.LATER_RULES else ""),
                "design_ref": c.get("design_ref", "DESIGN.md §3"),
            },
            "level_note": c["note"],
            "technique": c["technique"],
        }
    )

na = []
for pid in ids:
    if pid in registry.CLAIMED:
        continue
    reason = registry.NOT_APPLICABLE.get(pid)
    if reason is None:
        reason = "not claimed yet: checker not built in this revision (see DESIGN.md §3 for the planned rules)"
    na.append({"property_id": pid, "reason": reason})

manifest = {
    "version": 1,
    "setup_cmd": "/venv/bin/python -c \"import ast, sys; sys.path.insert(0, '/verif'); import sa.index, sa.cfg, sa.report\"",
    "hooks": {
        "guard": "SQLFLUFF_VERIF",
        "enable": "none needed: the checkers read /repo's source (ast, grammar object graph) and take --root; no instrumentation is compiled into sqlfluff",
        "baseline_off_cmd": "cd /repo && /venv/bin/python -m pytest -ra -q -p no:cacheprovider --timeout=900 --continue-on-collection-errors",
        "source_commits": [],
        "add_only": True,
    },
    "engines": [
        {
            "name": "sa",
            "path": "/verif/sa",
            "serves_properties": [c["property_id"] for c in checks],
            "kind_free_text": "repository-specific static analysis in Python: ast source model, statement CFG with dominance and reaching "
            "definitions, kind (qualifier) inference, call graph / exception flow, dialect grammar-graph analyses, regex ASTs",
        }
    ],
    "checks": checks,
    "notes": "All checks are static: they inspect /repo's current source on every run and never lex, parse, lint or fix SQL. "
    "known_findings.json lists genuine defects recorded rather than repaired, and fixed: entries for those repaired by fix: commits.",
    "not_applicable": na,
}
with open(os.path.join(HERE, "MANIFEST.json"), "w") as fh:
    json.dump(manifest, fh, indent=1)
    fh.write("\n")
print(f"MANIFEST.json: {len(checks)} checks, {len(na)} not claimed")
