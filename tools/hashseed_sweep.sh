#!/bin/bash
# usage: tools/hashseed_sweep.sh [seeds...]   (default 1 2 3 4 5)
# Runs every registered quick check under different hash seeds against /repo, writing evidence to a scratch
# directory, and prints any check whose exit status or finding count differs from the pinned-seed run.
cd "$(dirname "$0")/.." || exit 2
seeds="${*:-1 2 3 4 5}"
pids=$(/venv/bin/python -c "import json; print(' '.join(c['property_id'] for c in json.load(open('MANIFEST.json'))['checks']))")
ev=$(mktemp -d /tmp/verif-sweep-XXXXXX)
bad=0
for p in $pids; do
  base=$(VERIF_EVIDENCE_DIR=$ev ./check $p --tier quick 2>&1 | grep -E "obligations=" | sed 's/ wall=.*//')
  for s in $seeds; do
    out=$(VERIF_HASHSEED=$s VERIF_EVIDENCE_DIR=$ev ./check $p --tier quick 2>&1 | grep -E "obligations=" | sed 's/ wall=.*//')
    if [ "$out" != "$base" ]; then echo "ORDER-DEPENDENT $p seed=$s: '$out' vs '$base'"; bad=1; fi
  done
  echo "$p: $base"
done
rm -rf "$ev"
exit $bad
