#!/bin/bash
# usage: [JOBS=n] tools/run_all.sh [quick|thorough]   -- every registered check against /repo; evidence to a scratch dir
# JOBS (default 1) runs that many checks side by side; the lines come out in completion order.
cd "$(dirname "$0")/.." || exit 2
tier="${1:-quick}"
jobs="${JOBS:-1}"
pids=$(/venv/bin/python -c "import json; print(' '.join(c['property_id'] for c in json.load(open('MANIFEST.json'))['checks']))")
ev=$(mktemp -d /tmp/verif-runall-XXXXXX)
one() {
  p="$1"; tier="$2"; ev="$3"
  out=$(VERIF_EVIDENCE_DIR=$ev/$p ./check $p --tier $tier 2>&1); rc=$?
  line="$p rc=$rc $(echo "$out" | grep -E 'self-test [A-Z0-9]+:' | head -1) $(echo "$out" | grep -E 'seeded [A-Z0-9]+:' | head -1) $(echo "$out" | grep -E 'obligations=' | tail -1)"
  if [ $rc -ne 0 ]; then
    line="$line"$'\n'"$(echo "$out" | grep -E "MISSED|ANALYSIS-ERROR|VIOLATION|Traceback" | head -8)"
    touch "$ev/FAILED"
  fi
  echo "$line"
}
export -f one
echo $pids | tr ' ' '\n' | xargs -P "$jobs" -I{} bash -c "one {} $tier $ev"
bad=0; [ -e "$ev/FAILED" ] && bad=1
rm -rf "$ev"
exit $bad
