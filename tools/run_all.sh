#!/bin/bash
# usage: tools/run_all.sh [quick|thorough]   -- every registered check against /repo; evidence to a scratch dir
cd "$(dirname "$0")/.." || exit 2
tier="${1:-quick}"
pids=$(/venv/bin/python -c "import json; print(' '.join(c['property_id'] for c in json.load(open('MANIFEST.json'))['checks']))")
ev=$(mktemp -d /tmp/verif-runall-XXXXXX)
bad=0
for p in $pids; do
  out=$(VERIF_EVIDENCE_DIR=$ev ./check $p --tier $tier 2>&1); rc=$?
  echo "$p rc=$rc $(echo "$out" | grep -E 'self-test [A-Z0-9]+:' | head -1) $(echo "$out" | grep -E 'obligations=' | tail -1)"
  if [ $rc -ne 0 ]; then bad=1; echo "$out" | grep -E "MISSED|ANALYSIS-ERROR|VIOLATION|Traceback" | head -8; fi
done
rm -rf "$ev"
exit $bad
