#!/bin/bash
# usage: tools/try_seeded.sh <patch.diff> <PID> [PID...]   -- apply to /repo, run quick checks, revert
set -u
diff="$1"; shift
if [ -n "$(git -C /repo status --porcelain)" ]; then echo "/repo not clean"; exit 3; fi
git -C /repo apply "$diff" || { echo "patch does not apply"; exit 3; }
for pid in "$@"; do
  out=$(cd /verif && VERIF_EVIDENCE_DIR=$(mktemp -d /tmp/verif-try-XXXXXX) ./check "$pid" 2>&1 | grep -v "WARNING conda")
  rc=$?
  echo "$out" | grep -E "^VIOLATION|\[R[0-9]|ANALYSIS-ERROR|obligations=" | cut -c1-400
done
git -C /repo checkout -- .
rm -rf /tmp/verif-try-*
git -C /repo status --porcelain | head -3
