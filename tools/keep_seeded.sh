#!/bin/bash
# usage: tools/keep_seeded.sh <PID> <i> <outdir> <worktree> "<caught-by text>"
# Verifies demo (FAIL on mutant, PASS on /repo) and stores under /verif/seeded/<PID>-<i>/
set -u
pid="$1"; i="$2"; out="$3"; wt="$4"; caught="$5"
d="/verif/seeded/${pid}-${i}"
( cd "$wt" && git checkout -q -- . && git apply "$out/change$i.diff" ) || { echo "apply failed"; exit 1; }
/venv/bin/python "$out/demo$i.py" "$wt" > /tmp/keep_mut.log 2>&1; rc_m=$?
( cd "$wt" && git checkout -q -- . )
/venv/bin/python "$out/demo$i.py" /repo > /tmp/keep_repo.log 2>&1; rc_r=$?
echo "demo on mutant rc=$rc_m (want 1); on /repo rc=$rc_r (want 0)"
if [ "$rc_m" != "1" ] || [ "$rc_r" != "0" ]; then echo "NOT KEPT"; tail -3 /tmp/keep_mut.log /tmp/keep_repo.log; exit 1; fi
mkdir -p "$d"
cp "$out/change$i.diff" "$d/patch.diff"; cp "$out/demo$i.py" "$d/demo.py"
/venv/bin/python - "$out/meta$i.json" "$d/meta.json" "$caught" "$rc_m" "$rc_r" <<'PY'
import json,sys
src,dst,caught,rm,rr=sys.argv[1:6]
m=json.load(open(src))
m["confirmed_by_me"]={"demo_on_mutant_exit":int(rm),"demo_on_repo_exit":int(rr),"ran":"git apply patch.diff in a scratch worktree; python demo.py <worktree> (FAIL) ; python demo.py /repo (PASS)"}
m["caught_by"]=caught
json.dump(m,open(dst,"w"),indent=1)
PY
echo "kept $d"
