#!/bin/bash
# usage: tools/try_patch.sh <patch.diff> <PID> [PID...]
# Applies the patch to a scratch copy of /repo's src+plugins (never to /repo), runs the quick checks, removes the copy.
set -u
diff="$(realpath "$1")"; shift
s=$(mktemp -d /tmp/verif-try-XXXXXX)
cp -r /repo/src /repo/plugins "$s"/ && find "$s" -name __pycache__ -prune -exec rm -rf {} + 
( cd "$s" && patch -p1 -s < "$diff" ) || { echo "patch does not apply"; rm -rf "$s"; exit 3; }
for pid in "$@"; do
  out=$(cd /verif && VERIF_EVIDENCE_DIR="$s/_ev" ./check "$pid" --root "$s" --no-selftest 2>&1 | grep -v "WARNING conda")
  echo "$out" | grep -E "^VIOLATION|: \[R[0-9]|ANALYSIS-ERROR|obligations=" | cut -c1-420
done
rm -rf "$s"
