"""Shared machinery for the fix/exit gates (C18, C19, C22).

Atoms recognised in branch conditions (propositional variables):

* ``FEU``            – "fixing unparsable files is explicitly enabled": the value
                       derives from a parameter called ``fix_even_unparsable``
                       (public keyword of ``lint_paths`` / the CLI helpers) or from
                       ``<config>.get("fix_even_unparsable")``.
* ``ZU:<root>``      – the *unfiltered* TMP/PRS error count of object <root> is zero.
* ``ZF:<root>``      – the *suppression-filtered* TMP/PRS error count is zero.
* ``ZFIX:<root>``    – the count of fixable violations of <root> is zero.
* ``DISC:<root>``    – event: the discard step ran on <root>.
"""

from __future__ import annotations

import ast
from typing import Dict, List, Optional, Tuple

from .cfg import cfg_of, origins
from .counts import Counts, FIL, UNF, root_name, zero_test
from .index import FuncNode, Repo, call_name, calls_in, last_attr, norm, walk_local, enclosing_function, enclosing_class
from .pathcond import And, Formula, Not, Or, PathFacts, Var

DISCARD = "discard_fixes_for_lint_errors_in_files_with_tmp_or_prs_errors"
FEU_KEY = "fix_even_unparsable"


def is_feu_expr(func: ast.AST, e: ast.expr, at) -> bool:
    cfg = cfg_of(func)

    def leaf_ok(x: ast.AST, kind: str) -> bool:
        if kind == "param":
            return getattr(x, "arg", None) == FEU_KEY
        if isinstance(x, ast.Call) and last_attr(x) == "get" and x.args and isinstance(x.args[0], ast.Constant) and x.args[0].value == FEU_KEY:
            return True
        return False

    if isinstance(e, ast.Name):
        os_ = origins(cfg, e, at)
        return bool(os_) and all(leaf_ok(o.expr, o.kind) and not o.path for o in os_)
    return leaf_ok(e, "expr")


class GateAtoms:
    """atom() callback for PathFacts in one function."""

    def __init__(self, counts: Counts, func: ast.AST):
        self.counts = counts
        self.func = func
        self.seen: List[Tuple[str, str, int]] = []

    def __call__(self, e: ast.expr, stmt) -> Optional[str]:
        if is_feu_expr(self.func, e, stmt):
            return "FEU"
        zt = zero_test(e)
        q, asserts_zero = (zt if zt else (e, False))
        if isinstance(q, ast.Call) and last_attr(q) == "bool" and q.args:
            q = q.args[0]
        ci = self.counts.classify(self.func, q, stmt)
        if ci is None:
            ci = self._serialised_fixable(q, stmt)
        if ci is None or ci.kind not in (UNF, FIL) or ci.fixable == "?":
            return None
        root = ci.root or "?"
        if ci.fixable is True:
            name = f"ZFIX:{root}"
        elif ci.fixable is False:
            name = f"ZUNFIXABLE:{root}"
        elif ci.is_tmp_prs():
            # "unfiltered" = neither noqa/ignore nor the warning level hides an error from the count
            name = f"Z{'U' if ci.kind == UNF and not ci.warn_filtered else 'F'}:{root}"
        elif ci.types is not None and "SQLTemplaterError" in ci.types and len(ci.types) == 1:
            name = f"ZTMP{'U' if ci.kind == UNF and not ci.warn_filtered else 'F'}:{root}"
        else:
            return None
        self.seen.append((name, ci.via, getattr(e, "lineno", 0)))
        return name if asserts_zero else "!" + name

    def _serialised_fixable(self, q: ast.expr, stmt):
        """``sum(bool(v.get("fixes", [])) for rec in X.as_records() for v in rec["violations"])``"""
        from .counts import CountInfo

        cfg = cfg_of(self.func)
        val = q
        at = stmt
        if isinstance(q, ast.Name):
            os_ = origins(cfg, q, stmt)
            if len(os_) != 1 or os_[0].kind != "expr" or os_[0].path:
                return None
            val, at = os_[0].expr, os_[0].stmt
        if not (isinstance(val, ast.Call) and last_attr(val) == "sum" and val.args and isinstance(val.args[0], ast.GeneratorExp)):
            return None
        gen = val.args[0]
        if '.get("fixes"' not in norm(gen.elt).replace("'", '"'):
            return None
        it = gen.generators[0].iter
        root = None
        if isinstance(it, ast.Name):
            for o in origins(cfg, it, at):
                if isinstance(o.expr, ast.Call) and last_attr(o.expr) == "as_records":
                    root = root_name(o.expr)
        elif isinstance(it, ast.Call) and last_attr(it) == "as_records":
            root = root_name(it)
        if root is None:
            return None
        return CountInfo(FIL, None, True, False, self.counts._canon_root(cfg, root, at), via="serialised records: " + norm(val)[:80])


def discard_summaries(repo: Repo, counts: Counts) -> Dict[str, Tuple[ast.AST, int, Optional[int]]]:
    """Functions that, on every normal exit, have either seen FEU true or run the
    discard step on one of their parameters: name -> (func, param index of the
    result object, param index of the FEU flag or None)."""
    out: Dict[str, Tuple[ast.AST, int, Optional[int]]] = {}
    for m in repo.iter_modules("src/sqlfluff/"):
        for q, f in m.functions():
            src_has = any(last_attr(c) == DISCARD for c in calls_in(f))
            if not src_has or enclosing_class(f) is not None and enclosing_class(f).name in ("LintedDir", "LintingResult"):
                continue
            params = [a.arg for a in f.args.args]
            cfg = cfg_of(f)

            def events(stmt, _f=f):
                evs = []
                if isinstance(stmt, ast.stmt):
                    from .cfg import own_exprs

                    for ex in own_exprs(stmt):
                        for c in ast.walk(ex):
                            if isinstance(c, ast.Call) and last_attr(c) == DISCARD and isinstance(c.func, ast.Attribute):
                                r = root_name(c.func.value)
                                if r:
                                    evs.append(Var(f"DISC:{r}"))
                return evs

            pf = PathFacts(cfg, GateAtoms(counts, f), events)
            for i, p in enumerate(params):
                ok, _ = pf.holds_at(cfg.exit, Or(Var("FEU"), Var(f"DISC:{p}")))
                if ok and any(True for _ in cfg.pred[cfg.exit]):
                    feu_idx = params.index(FEU_KEY) if FEU_KEY in params else None
                    out[f.name] = (f, i, feu_idx)
    return out


def make_events(func: ast.AST, counts: Counts, summaries):
    """events() callback: direct discard calls and calls to summarised helpers."""
    from .cfg import own_exprs

    def events(stmt):
        evs: List[Formula] = []
        if not isinstance(stmt, ast.stmt):
            return evs
        for ex in own_exprs(stmt):
            for c in ast.walk(ex):
                if not isinstance(c, ast.Call):
                    continue
                if last_attr(c) == DISCARD and isinstance(c.func, ast.Attribute):
                    r = root_name(c.func.value)
                    if r:
                        evs.append(Var(f"DISC:{counts._canon_root(cfg_of(func), r, stmt)}"))
                elif last_attr(c) in summaries and isinstance(c.func, ast.Name):
                    hf, ri, fi = summaries[last_attr(c)]
                    params = [a.arg for a in hf.args.args]
                    arg_r = _arg(c, ri, params)
                    arg_f = _arg(c, fi, params) if fi is not None else None
                    r = root_name(arg_r) if arg_r is not None else None
                    if r is None:
                        continue
                    d = Var(f"DISC:{counts._canon_root(cfg_of(func), r, stmt)}")
                    if arg_f is None:
                        evs.append(d)
                    elif is_feu_expr(func, arg_f, stmt):
                        evs.append(Or(Var("FEU"), d))
                    elif isinstance(arg_f, ast.Constant) and arg_f.value is False:
                        evs.append(d)
                    # any other flag value: the helper may skip the discard -> no fact
        return evs

    return events


def _arg(c: ast.Call, idx: int, params: List[str]) -> Optional[ast.expr]:
    if idx < len(c.args):
        return c.args[idx]
    for k in c.keywords:
        if k.arg == params[idx]:
            return k.value
    return None


def callers_of(repo: Repo, func: ast.AST) -> List[Tuple[ast.AST, ast.Call]]:
    """Call sites of a module-level function or method, by name (and identity for
    plain-name calls)."""
    out = []
    name = func.name
    for m in repo.iter_modules("src/sqlfluff/"):
        for q, f in m.functions():
            for c in calls_in(f):
                if last_attr(c) != name:
                    continue
                if isinstance(c.func, ast.Name):
                    r = repo.resolve_name(m, name)
                    if r is None or r[1] is not func:
                        continue
                out.append((f, c))
    return out
