"""Whole-program call graph from source (DESIGN.md 2.4), without running mypy.

Callee resolution, in order of precision:

1. plain-name calls: resolved through the module's own definitions and imports
   (re-exports followed); a class name resolves to its ``__init__``.
2. attribute calls with a receiver whose class can be inferred locally:
   ``self`` / ``cls`` (enclosing class), a parameter or local with a class
   annotation, a local assigned from ``ClassName(...)`` or from a call whose
   return annotation names a class, ``self.attr`` / ``x.attr`` with an annotated
   field.  Targets: the method found along the MRO of that class **plus every
   override in its subclasses** (class-hierarchy expansion).
3. otherwise: every method of that name defined in a class of the analysed
   scope (sound over-approximation; reported as ``unresolved`` in evidence).

Edges record whether the call sits inside ``try`` blocks (for exception flow),
and the constant keyword/positional arguments of the call (for flag-aware
reachability).
"""

from __future__ import annotations

import ast
from typing import Dict, Iterable, List, Optional, Set, Tuple

from .index import FuncNode, Module, Repo, call_name, enclosing_class, enclosing_function, last_attr, norm, walk_local


import io as _io
import re as _re

BUILTIN_METHOD_NAMES = frozenset(
    n
    for t in (list, dict, str, set, frozenset, tuple, bytes, _io.TextIOBase, _re.Pattern, _re.Match)
    for n in dir(t)
    if not n.startswith("__")
)


EXTERNAL = ("external", None)
_BUILTIN_TYPE_NAMES = frozenset(
    ["str", "int", "float", "bool", "bytes", "list", "dict", "set", "frozenset", "tuple", "object", "slice", "range", "type",
     "Exception", "BaseException", "Iterator", "Iterable", "Sequence", "Mapping", "Callable", "Any"]
)


class FuncInfo:
    __slots__ = ("fq", "node", "module", "cls", "relpath")

    def __init__(self, fq: str, node: ast.AST, module: Module, cls: Optional[ast.ClassDef]):
        self.fq = fq
        self.node = node
        self.module = module
        self.cls = cls
        self.relpath = module.relpath

    def __repr__(self):
        return f"<{self.fq}>"


class Edge:
    __slots__ = ("caller", "call", "targets", "resolved", "how")

    def __init__(self, caller: FuncInfo, call: ast.Call, targets: List[FuncInfo], resolved: bool, how: str):
        self.caller = caller
        self.call = call
        self.targets = targets
        self.resolved = resolved
        self.how = how


def _strip_annotation(a: Optional[ast.expr]) -> Optional[str]:
    """Class name inside an annotation: Optional[X], "X", X | None, type[X] ..."""
    if a is None:
        return None
    if isinstance(a, ast.Constant) and isinstance(a.value, str):
        try:
            a = ast.parse(a.value, mode="eval").body
        except SyntaxError:
            return None
    if isinstance(a, ast.Subscript):
        base = norm(a.value)
        if base in ("Optional", "typing.Optional", "type", "Type", "Final", "ClassVar"):
            return _strip_annotation(a.slice)
        return None
    if isinstance(a, ast.BinOp) and isinstance(a.op, ast.BitOr):
        l, r = _strip_annotation(a.left), _strip_annotation(a.right)
        return l or r
    if isinstance(a, ast.Constant) and a.value is None:
        return None
    if isinstance(a, (ast.Name, ast.Attribute)):
        return norm(a)
    return None


class CallGraph:
    def __init__(self, repo: Repo, prefixes: Iterable[str] = ("src/sqlfluff/", "plugins/")):
        self.repo = repo
        self.prefixes = tuple(prefixes)
        self.funcs: Dict[str, FuncInfo] = {}
        self.by_node: Dict[int, FuncInfo] = {}
        self.methods_by_name: Dict[str, List[FuncInfo]] = {}
        self.class_of: Dict[int, Tuple[Module, ast.ClassDef]] = {}
        for m in repo.modules.values():
            if not m.relpath.startswith(self.prefixes):
                continue
            for q, f in m.functions():
                c = enclosing_class(f)
                fi = FuncInfo(f"{m.dotted}.{q}", f, m, c)
                self.funcs[fi.fq] = fi
                self.by_node[id(f)] = fi
                if c is not None and enclosing_function(f) is None:
                    self.methods_by_name.setdefault(f.name, []).append(fi)
            for q, c in m.classes():
                self.class_of[id(c)] = (m, c)
        self._subs: Dict[int, List[Tuple[Module, ast.ClassDef]]] = {}
        self._build_subclass_index()
        self.edges_from: Dict[str, List[Edge]] = {}
        self.edges_to: Dict[str, List[Edge]] = {}
        self.n_calls = self.n_resolved = self.n_external = 0
        self._field_types: Dict[int, Dict[str, str]] = {}
        for fi in list(self.funcs.values()):
            self._edges_of(fi)

    # -- class hierarchy ---------------------------------------------------
    def _build_subclass_index(self) -> None:
        for mid, (m, c) in self.class_of.items():
            for bm, bc in self.repo.mro(m, c)[1:]:
                self._subs.setdefault(id(bc), []).append((m, c))

    def subclasses(self, c: ast.ClassDef) -> List[Tuple[Module, ast.ClassDef]]:
        return self._subs.get(id(c), [])

    def method_targets(self, m: Module, c: ast.ClassDef, name: str) -> List[FuncInfo]:
        out: List[FuncInfo] = []
        r = self.repo.lookup_method(m, c, name)
        if r is not None and id(r[1]) in self.by_node:
            out.append(self.by_node[id(r[1])])
        for sm, sc in self.subclasses(c):
            for item in sc.body:
                if isinstance(item, FuncNode) and item.name == name and id(item) in self.by_node:
                    fi = self.by_node[id(item)]
                    if fi not in out:
                        out.append(fi)
        return out

    # -- local type inference -------------------------------------------------
    def _resolve_class(self, m: Module, name: Optional[str]):
        """(module, ClassDef) for an in-tree class, EXTERNAL for a name imported
        from outside the analysed packages, None when unknown."""
        if not name:
            return None
        r = self.repo.resolve_name(m, name)
        if r and isinstance(r[1], ast.ClassDef):
            return r[0], r[1]
        head = name.split(".")[0]
        fqn = m.imports.get(head)
        if r is None and fqn is not None and not fqn.startswith(("sqlfluff", "sqlfluff_")):
            return EXTERNAL
        if r is None and head in _BUILTIN_TYPE_NAMES:
            return EXTERNAL
        return None

    def field_types(self, m: Module, c: ast.ClassDef) -> Dict[str, str]:
        """attr -> annotated class name, from class-level annotations and __init__."""
        key = id(c)
        if key in self._field_types:
            return self._field_types[key]
        out: Dict[str, str] = {}
        for mm, cc in reversed(self.repo.mro(m, c)):
            for item in cc.body:
                if isinstance(item, ast.AnnAssign) and isinstance(item.target, ast.Name):
                    t = _strip_annotation(item.annotation)
                    if t:
                        out[item.target.id] = (mm, t)
                if isinstance(item, FuncNode) and item.name == "__init__":
                    ann = {a.arg: _strip_annotation(a.annotation) for a in item.args.args + item.args.kwonlyargs}
                    for n in ast.walk(item):
                        tgt = val = annot = None
                        if isinstance(n, ast.AnnAssign):
                            tgt, val, annot = n.target, n.value, n.annotation
                        elif isinstance(n, ast.Assign) and len(n.targets) == 1:
                            tgt, val = n.targets[0], n.value
                        if isinstance(tgt, ast.Attribute) and isinstance(tgt.value, ast.Name) and tgt.value.id == "self":
                            t = _strip_annotation(annot) if annot is not None else None
                            if t is None and isinstance(val, ast.Name) and ann.get(val.id):
                                t = ann[val.id]
                            if t is None and isinstance(val, ast.Call) and isinstance(val.func, ast.Name):
                                t = val.func.id
                            if t:
                                out[tgt.attr] = (mm, t)
        self._field_types[key] = out
        return out

    def infer_class(self, fi: FuncInfo, e: ast.expr, depth: int = 0) -> Optional[Tuple[Module, ast.ClassDef]]:
        m = fi.module
        if depth > 4:
            return None
        if isinstance(e, ast.Name):
            f = fi.node
            if e.id in ("self", "cls") and fi.cls is not None:
                # nested functions inside methods keep the class
                return m, fi.cls
            # parameter annotation (also of enclosing functions for closures)
            fn = f
            while fn is not None:
                if isinstance(fn, FuncNode):
                    for a in fn.args.posonlyargs + fn.args.args + fn.args.kwonlyargs:
                        if a.arg == e.id:
                            if a.arg in ("self", "cls"):
                                ec = enclosing_class(fn)
                                return (m, ec) if ec is not None else None
                            return self._resolve_class(m, _strip_annotation(a.annotation))
                    # local assignment
                    cands: List[Tuple[Module, ast.ClassDef]] = []
                    for n in walk_local(fn):
                        val = annot = None
                        if isinstance(n, ast.AnnAssign) and isinstance(n.target, ast.Name) and n.target.id == e.id:
                            annot, val = n.annotation, n.value
                        elif isinstance(n, ast.Assign) and any(isinstance(t, ast.Name) and t.id == e.id for t in n.targets):
                            val = n.value
                        elif isinstance(n, (ast.With,)):
                            for it in n.items:
                                if isinstance(it.optional_vars, ast.Name) and it.optional_vars.id == e.id:
                                    val = it.context_expr
                        if annot is not None:
                            r = self._resolve_class(m, _strip_annotation(annot))
                            if r:
                                cands.append(r)
                        elif val is not None:
                            r = self.infer_class(fi, val, depth + 1) if not (isinstance(val, ast.Name) and val.id == e.id) else None
                            if r:
                                cands.append(r)
                    if cands:
                        first = cands[0]
                        if all(c[1] is first[1] for c in cands):
                            return first
                        return None
                fn = enclosing_function(fn)
            # a class used as a value (classmethod call on the class itself), or an
            # imported external module / class
            r = self._resolve_class(m, e.id)
            return r
        if isinstance(e, ast.Call):
            # constructor or function with return annotation
            if isinstance(e.func, (ast.Name, ast.Attribute)):
                r = self.repo.resolve_name(m, norm(e.func)) if isinstance(e.func, ast.Name) or isinstance(e.func.value, ast.Name) else None
                if r and isinstance(r[1], ast.ClassDef):
                    return r[0], r[1]
                if r is None:
                    head = norm(e.func).split(".")[0]
                    fqn = m.imports.get(head)
                    if fqn is not None and not fqn.startswith(("sqlfluff", "sqlfluff_")):
                        return EXTERNAL
                    if isinstance(e.func, ast.Name) and e.func.id in _BUILTIN_TYPE_NAMES | {"open", "sorted", "reversed", "enumerate", "zip", "map", "filter", "iter", "len", "getattr"}:
                        return EXTERNAL
                if r and isinstance(r[1], FuncNode):
                    return self._resolve_class(r[0], _strip_annotation(r[1].returns))
                if isinstance(e.func, ast.Attribute):
                    rc = self.infer_class(fi, e.func.value, depth + 1)
                    if rc is EXTERNAL:
                        return EXTERNAL
                    if rc:
                        mt = self.repo.lookup_method(rc[0], rc[1], e.func.attr)
                        if mt:
                            ret = _strip_annotation(mt[1].returns)
                            if ret in ("Self",):
                                return rc
                            return self._resolve_class(mt[0], ret)
            return None
        if isinstance(e, (ast.Constant, ast.JoinedStr, ast.List, ast.Dict, ast.Set, ast.Tuple, ast.ListComp, ast.DictComp, ast.SetComp, ast.GeneratorExp)):
            return EXTERNAL
        if isinstance(e, ast.Attribute):
            rc = self.infer_class(fi, e.value, depth + 1)
            if rc is EXTERNAL:
                return EXTERNAL
            if rc:
                ft = self.field_types(rc[0], rc[1]).get(e.attr)
                if ft:
                    return self._resolve_class(ft[0], ft[1])
                # property with return annotation
                mt = self.repo.lookup_method(rc[0], rc[1], e.attr)
                if mt and any(norm(d) in ("property", "cached_property", "functools.cached_property") for d in mt[1].decorator_list):
                    return self._resolve_class(mt[0], _strip_annotation(mt[1].returns))
            return None
        return None

    def _one_hierarchy(self, tg: List[FuncInfo]) -> bool:
        roots = None
        for fi in tg:
            if fi.cls is None:
                return False
            anc = {id(c) for _, c in self.repo.mro(fi.module, fi.cls)}
            roots = anc if roots is None else (roots & anc)
            if not roots:
                return False
        return True

    # -- edges --------------------------------------------------------------------
    def resolve_call(self, fi: FuncInfo, c: ast.Call) -> Tuple[List[FuncInfo], bool, str]:
        m = fi.module
        f = c.func
        if isinstance(f, ast.Name):
            r = self.repo.resolve_name(m, f.id)
            if r is None:
                # local nested function?
                fn = fi.node
                for n in ast.walk(fn):
                    if isinstance(n, FuncNode) and n.name == f.id and id(n) in self.by_node:
                        return [self.by_node[id(n)]], True, "nested"
                return [], True, "external"
            if isinstance(r[1], ast.ClassDef):
                tg = self.method_targets(r[0], r[1], "__init__")
                post = self.method_targets(r[0], r[1], "__post_init__")
                return tg + post, True, "constructor"
            if isinstance(r[1], FuncNode) and id(r[1]) in self.by_node:
                return [self.by_node[id(r[1])]], True, "name"
            return [], True, "external"
        if isinstance(f, ast.Attribute):
            name = f.attr
            # module attribute: pkg.func(...)
            if isinstance(f.value, (ast.Name, ast.Attribute)):
                r = self.repo.resolve_name(m, norm(f)) if isinstance(f.value, ast.Name) and f.value.id in m.imports and f.value.id not in ("self", "cls") else None
                if r is not None:
                    if isinstance(r[1], FuncNode) and id(r[1]) in self.by_node:
                        return [self.by_node[id(r[1])]], True, "module-attr"
                    if isinstance(r[1], ast.ClassDef):
                        return self.method_targets(r[0], r[1], "__init__"), True, "constructor"
                if isinstance(f.value, ast.Name) and f.value.id in m.imports and r is None:
                    fqn = m.imports[f.value.id]
                    if not fqn.startswith("sqlfluff"):
                        return [], True, "external"
            # super().m()
            if isinstance(f.value, ast.Call) and isinstance(f.value.func, ast.Name) and f.value.func.id == "super" and fi.cls is not None:
                for bm, bc in self.repo.mro(m, fi.cls)[1:]:
                    for item in bc.body:
                        if isinstance(item, FuncNode) and item.name == name and id(item) in self.by_node:
                            return [self.by_node[id(item)]], True, "super"
                return [], True, "external"
            rc = self.infer_class(fi, f.value)
            if rc is EXTERNAL:
                return [], True, "external-typed"
            if rc is not None:
                tg = self.method_targets(rc[0], rc[1], name)
                if tg:
                    return tg, True, "typed"
                # attribute holding a callable / external base class method
                return [], True, "typed-external"
            if name in BUILTIN_METHOD_NAMES:
                # receiver of unknown type and a method name of a builtin container /
                # string / file: assumed to be the builtin (never an in-tree method);
                # counted separately in the statistics.
                return [], True, "external-builtin-name"
            tg = self.methods_by_name.get(name, [])
            # keep a by-name edge only when all candidates belong to one class
            # hierarchy (siblings implementing one interface); unrelated classes
            # that merely share a method name would create chains that no
            # execution follows.
            if len(tg) > 1 and not self._one_hierarchy(tg):
                return [], False, "by-name-ambiguous"
            return list(tg), False, "by-name"
        return [], False, "dynamic"

    def _edges_of(self, fi: FuncInfo) -> None:
        out: List[Edge] = []
        for n in walk_local(fi.node):
            if not isinstance(n, ast.Call):
                continue
            self.n_calls += 1
            tg, resolved, how = self.resolve_call(fi, n)
            if resolved:
                self.n_resolved += 1
            if how.startswith("external") or how == "typed-external":
                self.n_external += 1
            e = Edge(fi, n, tg, resolved, how)
            out.append(e)
            for t in tg:
                self.edges_to.setdefault(t.fq, []).append(e)
            # functools.partial(f, ...) and callbacks passed by name: treat as a call of f
            for a in list(n.args) + [k.value for k in n.keywords]:
                if isinstance(a, (ast.Name, ast.Attribute)) and (last_attr(n) in ("partial", "map", "imap", "imap_unordered", "_map", "submit", "apply_async") or True):
                    tg2: List[FuncInfo] = []
                    if isinstance(a, ast.Name):
                        r = self.repo.resolve_name(fi.module, a.id)
                        if r and isinstance(r[1], FuncNode) and id(r[1]) in self.by_node:
                            tg2 = [self.by_node[id(r[1])]]
                    elif isinstance(a, ast.Attribute) and isinstance(a.ctx, ast.Load):
                        rc = self.infer_class(fi, a.value)
                        if rc is not None and rc is not EXTERNAL:
                            tg2 = [t for t in self.method_targets(rc[0], rc[1], a.attr)]
                    if tg2:
                        e2 = Edge(fi, n, tg2, True, "callback")
                        out.append(e2)
                        for t in tg2:
                            self.edges_to.setdefault(t.fq, []).append(e2)
        # nested function definitions are reachable from their parent
        for n in walk_local(fi.node):
            if isinstance(n, FuncNode) and id(n) in self.by_node and n is not fi.node:
                pass
        self.edges_from[fi.fq] = out

    # -- queries ---------------------------------------------------------------------
    def info(self, node: ast.AST) -> Optional[FuncInfo]:
        return self.by_node.get(id(node))

    def fn(self, relpath: str, qualname: str) -> FuncInfo:
        node = self.repo.fn(relpath, qualname)
        return self.by_node[id(node)]

    def reachable_from(self, roots: Iterable[FuncInfo], edge_filter=None) -> Dict[str, Optional[Edge]]:
        """fq -> edge by which it was first reached (None for roots)."""
        seen: Dict[str, Optional[Edge]] = {}
        stack = []
        for r in roots:
            seen[r.fq] = None
            stack.append(r)
        while stack:
            fi = stack.pop()
            for e in self.edges_from.get(fi.fq, []):
                if edge_filter is not None and not edge_filter(e):
                    continue
                for t in e.targets:
                    if t.fq not in seen:
                        seen[t.fq] = e
                        stack.append(t)
            # nested defs
            for n in walk_local(fi.node):
                if isinstance(n, FuncNode) and id(n) in self.by_node:
                    t = self.by_node[id(n)]
                    if t.fq not in seen:
                        seen[t.fq] = None
                        stack.append(t)
        return seen

    def chain_to(self, seen: Dict[str, Optional[Edge]], fq: str) -> List[str]:
        out = [fq]
        cur = fq
        guard = 0
        while seen.get(cur) is not None and guard < 60:
            e = seen[cur]
            cur = e.caller.fq
            out.append(cur)
            guard += 1
        return list(reversed(out))

    def stats(self) -> Dict[str, object]:
        return {
            "functions": len(self.funcs),
            "calls": self.n_calls,
            "resolved": self.n_resolved,
            "external": self.n_external,
            "resolved_ratio": round(self.n_resolved / max(1, self.n_calls), 4),
        }
