"""Self-test of the checkers on seeded variants (DESIGN.md 2.11).

A rules module may define ``VARIANTS``: a list of :class:`Variant`.  Each is a
single edit of one source file (exact text replacement that must match exactly
once in today's file).  The analysed program is the tree at the check's root
with that file substituted (``Repo(overlay=...)``; nothing is written under
/repo or /verif).  For checks that need real files (grammar front-end), the
variant is materialised in a scratch copy under a temp dir that is removed
afterwards.

The self-test asserts that the named rule fires on the variant and — when
``construct`` is given — that the report names that construct.  A variant whose
anchor text no longer exists is *stale* (the source moved on): reported in the
evidence, not an error.  A variant that compiles but is not detected is an
ANALYSIS-ERROR (the checker lost its teeth), never a violation.
"""

from __future__ import annotations

import importlib
import os
from typing import List, Optional

from .index import AnalysisError, Repo
from .report import Check


class Variant:
    def __init__(self, name: str, file: str, old: str, new: str, rule: str, construct: Optional[str] = None, why: str = "", count: int = 1):
        self.name = name
        self.file = file
        self.old = old
        self.new = new
        self.rule = rule
        self.construct = construct
        self.why = why
        self.count = count


def apply_variant(root: str, v: Variant) -> Optional[str]:
    path = os.path.join(root, v.file)
    if not os.path.exists(path):
        return None
    with open(path, encoding="utf-8") as fh:
        text = fh.read()
    if text.count(v.old) != v.count:
        return None
    new = text.replace(v.old, v.new)
    try:
        compile(new, v.file, "exec")
    except SyntaxError as e:
        raise AnalysisError(f"self-test variant {v.name} does not compile: {e}")
    return new


QUIET = "QUIET"  # rule name of a behaviour-preserving variant: the check must stay silent on it


def run_variant(pid: str, root: str, v: Variant, tier: str = "quick", baseline=None):
    """Returns (status, findings) with status in detected/missed/stale.

    A variant whose rule is ``QUIET`` is a behaviour-preserving edit (renamed local, split
    assignment, extracted helper ...): it is 'detected' (= passes) when the run reports
    nothing beyond the findings of the unchanged tree (``baseline`` = their keys), and
    'missed' (= a false alarm of the checker) otherwise, including on an analysis error."""
    new = apply_variant(root, v)
    if new is None:
        return "stale", []
    mod = importlib.import_module(f"sa.rules.{pid.lower()}")
    needs_files = getattr(mod, "SELFTEST_NEEDS_FILES", False)
    scratch = None
    try:
        if needs_files:
            import shutil
            import tempfile

            scratch = tempfile.mkdtemp(prefix="verif-selftest-")
            for scope in Repo.SCOPES:
                shutil.copytree(
                    os.path.join(root, scope), os.path.join(scratch, scope),
                    ignore=shutil.ignore_patterns("__pycache__", "*.pyc"),
                )
            with open(os.path.join(scratch, v.file), "w", encoding="utf-8") as fh:
                fh.write(new)
            repo = Repo(scratch)
        else:
            repo = Repo(root, overlay={v.file: new})
        chk = Check(pid, repo, tier)
        chk.in_selftest = True
        try:
            mod.run(chk)
        except AnalysisError as e:
            # a variant that removes an anchor is "detected" as analysis error only
            # if the variant says so
            if v.rule == QUIET:
                return "missed", [f"false alarm (analysis error) on a behaviour-preserving edit: {e}"]
            if v.rule == "ANALYSIS-ERROR":
                return "detected", [str(e)]
            return "missed", [f"analysis error instead of finding: {e}"]
        if v.rule == QUIET:
            if baseline is None:
                base = Check(pid, Repo(root), tier)
                base.in_selftest = True
                mod.run(base)
                baseline = {f.key for f in base.findings}
            extra = [f for f in chk.findings if f.key not in baseline]
            return ("missed" if extra else "detected"), [f.to_dict() for f in extra]
        hits = [f for f in chk.findings if f.rule == v.rule and (v.construct is None or v.construct in f.construct or v.construct in f.detail)]
        return ("detected" if hits else "missed"), [f.to_dict() for f in chk.findings]
    finally:
        if scratch:
            import shutil

            shutil.rmtree(scratch, ignore_errors=True)


def _job(args):
    pid, root, idx, baseline = args
    mod = importlib.import_module(f"sa.rules.{pid.lower()}")
    v = mod.VARIANTS[idx]
    status, findings = run_variant(pid, root, v, baseline=baseline)
    return idx, status, [f if isinstance(f, str) else f"{f['rule']} {f['construct']} :: {f['detail']}" for f in findings][:6]


def run_for(pid: str, chk: Check, jobs: int = 16) -> None:
    mod = importlib.import_module(f"sa.rules.{pid.lower()}")
    variants: List[Variant] = getattr(mod, "VARIANTS", [])
    if not variants:
        return
    root = chk.repo.root
    results = []
    baseline = {f.key for f in chk.findings}
    needs_files = getattr(mod, "SELFTEST_NEEDS_FILES", False)
    if len(variants) > 3 or needs_files:
        import multiprocessing as mp

        ctx = mp.get_context("fork")
        with ctx.Pool(min(jobs, len(variants))) as pool:
            results = pool.map(_job, [(pid, root, i, baseline) for i in range(len(variants))])
    else:
        results = [_job((pid, root, i, baseline)) for i in range(len(variants))]
    detected = stale = 0
    missed = []
    for idx, status, findings in results:
        v = variants[idx]
        if status == "detected":
            detected += 1
        elif status == "stale":
            stale += 1
        else:
            missed.append((v, findings))
    chk.extra["selftest"] = {
        "variants": len(variants),
        "detected": detected,
        "stale": stale,
        "missed": [v.name for v, _ in missed],
        "names": [f"{v.name} -> {v.rule}" for v in variants],
        "quiet_variants": sum(1 for v in variants if v.rule == QUIET),
    }
    nq = sum(1 for v in variants if v.rule == QUIET)
    chk.note(f"self-test: {detected}/{len(variants)} seeded variants behaved as expected ({len(variants) - nq} breaking edits reported, {nq} behaviour-preserving edits left quiet), {stale} stale.")
    print(f"self-test {pid}: {detected}/{len(variants)} detected, {stale} stale, {len(missed)} missed")
    # A stale variant on a tree that already violates the property is expected
    # (the edited line may be the one that changed); only complain about misses
    # when the tree itself is clean of new findings.
    if missed:
        for v, findings in missed:
            print(f"  self-test MISSED variant {v.name} (expected {v.rule}); findings seen: {findings}")
        raise AnalysisError(f"self-test: {len(missed)} seeded variant(s) not detected: {[v.name for v, _ in missed]}")


def _seeded_job(args):
    pid, root, sid = args
    import json
    import shutil
    import subprocess
    import tempfile

    here = os.path.dirname(os.path.dirname(os.path.abspath(__file__)))
    d = os.path.join(here, "seeded", sid)
    scratch = tempfile.mkdtemp(prefix=f"verif-seededreg-{sid}-")
    try:
        for scope in Repo.SCOPES:
            shutil.copytree(os.path.join(root, scope), os.path.join(scratch, scope), ignore=shutil.ignore_patterns("__pycache__", "*.pyc"))
        r = subprocess.run(["patch", "-p1", "-s", "-d", scratch, "-i", os.path.join(d, "patch.diff")], capture_output=True, text=True)
        if r.returncode != 0:
            return sid, "stale", [(r.stdout + r.stderr)[-200:]]
        mod = importlib.import_module(f"sa.rules.{pid.lower()}")
        base = Check(pid, Repo(root), "quick")
        base.in_selftest = True
        mod.run(base)
        baseline = {f.key for f in base.findings}
        chk = Check(pid, Repo(scratch), "quick")
        chk.in_selftest = True
        try:
            mod.run(chk)
        except AnalysisError as e:
            return sid, "missed", [f"analysis error instead of a finding: {e}"]
        new = [f for f in chk.findings if f.key not in baseline]
        return sid, ("detected" if new else "missed"), [f"{f.rule} {f.construct} :: {f.detail}" for f in new][:3]
    finally:
        shutil.rmtree(scratch, ignore_errors=True)


def run_seeded_for(pid: str, chk: Check, jobs: int = 8) -> None:
    """Thorough tier: every kept seeded change (/verif/seeded/<id>/, written by independent authors) that
    this check is recorded to catch (meta.json: expect[pid] == "caught") is applied to a scratch copy of
    the analysed tree and must still be reported.  A change that is no longer detected means the checker
    lost its teeth: ANALYSIS-ERROR, never a violation.  A patch that no longer applies is 'stale' (noted)."""
    import json

    here = os.path.dirname(os.path.dirname(os.path.abspath(__file__)))
    sdir = os.path.join(here, "seeded")
    if not os.path.isdir(sdir):
        return
    todo = []
    for sid in sorted(os.listdir(sdir)):
        mp = os.path.join(sdir, sid, "meta.json")
        if not os.path.isfile(mp) or not os.path.isfile(os.path.join(sdir, sid, "patch.diff")):
            continue
        try:
            meta = json.load(open(mp))
        except Exception:
            continue
        if (meta.get("expect") or {}).get(pid) == "caught":
            todo.append(sid)
    if not todo:
        return
    import multiprocessing as mp_

    ctx = mp_.get_context("fork")
    with ctx.Pool(min(jobs, len(todo))) as pool:
        results = pool.map(_seeded_job, [(pid, chk.repo.root, sid) for sid in todo])
    missed = [(sid, info) for sid, st, info in results if st == "missed"]
    stale = [sid for sid, st, info in results if st == "stale"]
    chk.extra["seeded_changes"] = {
        "expected_to_be_caught": todo,
        "detected": [sid for sid, st, _ in results if st == "detected"],
        "stale": stale,
        "missed": [sid for sid, _ in missed],
    }
    chk.note(f"seeded changes by independent authors: {len(todo) - len(missed) - len(stale)}/{len(todo)} still reported, {len(stale)} stale.")
    print(f"seeded {pid}: {len(todo) - len(missed) - len(stale)}/{len(todo)} reported, {len(stale)} stale, {len(missed)} missed")
    if missed:
        for sid, info in missed:
            print(f"  seeded change {sid} is no longer reported by {pid}: {info}")
        raise AnalysisError(f"seeded change(s) no longer detected: {[sid for sid, _ in missed]}")


def main() -> int:
    """python -m sa.selftest <PID> [--root DIR]: run variants and list results."""
    import argparse
    import sys

    ap = argparse.ArgumentParser()
    ap.add_argument("pid")
    ap.add_argument("--root", default="/repo")
    ap.add_argument("--only", default=None)
    a = ap.parse_args()
    pid = a.pid.upper()
    mod = importlib.import_module(f"sa.rules.{pid.lower()}")
    bad = 0
    for i, v in enumerate(getattr(mod, "VARIANTS", [])):
        if a.only and a.only not in v.name:
            continue
        status, findings = run_variant(pid, a.root, v)
        print(f"{pid} {v.name:45s} expect {v.rule:6s} -> {status}")
        if status != "detected":
            bad += status == "missed"
            for f in findings[:8]:
                print("      ", f if isinstance(f, str) else f"{f['rule']} {f['construct']} :: {f['detail']}")
    return 1 if bad else 0


if __name__ == "__main__":
    import sys

    sys.exit(main())
