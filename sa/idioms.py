"""Small helpers that make idiom recognition independent of how a test or a value is spelled.

Used by rule modules so that behaviour-preserving refactors of the analysed code (a test hoisted
into a boolean local, a value accumulated with ``x = x + y`` instead of ``x += y``, a value passed
through one more local) are seen as the same facts.  Everything here only *adds* recognised
spellings of the same fact; nothing weakens what a rule requires.
"""

from __future__ import annotations

import ast
from typing import List, Optional, Tuple

from .cfg import CFG, Branch, atoms, names_in, origins

_TESTLIKE = (ast.BoolOp, ast.UnaryOp, ast.Compare, ast.Call, ast.Attribute)


def atoms_at(cfg: CFG, test: ast.expr, polarity: bool, at, _depth: int = 0) -> List[Tuple[ast.expr, bool]]:
    """``cfg.atoms`` of a test evaluated at statement ``at``, looking through boolean locals.

    For ``t = a and b`` ... ``if t:`` the atoms are those of ``a and b``.  Only when the single
    definition of ``t`` reaches the test and no name its expression reads is re-bound in
    between (same reaching definitions at both statements), so the facts still speak about the
    same values."""
    out: List[Tuple[ast.expr, bool]] = []
    rd = cfg.reaching()
    for e, pol in atoms(test, polarity):
        if isinstance(e, ast.Name) and _depth < 4:
            os_ = origins(cfg, e, at)
            if len(os_) == 1 and os_[0].kind == "expr" and not os_[0].path and os_[0].stmt is not None and isinstance(os_[0].expr, _TESTLIKE):
                o = os_[0]
                if all(rd.defs_at(o.stmt, n) == rd.defs_at(at, n) for n in names_in(o.expr)):
                    out += atoms_at(cfg, o.expr, pol, o.stmt, _depth + 1)
                    continue
        out.append((e, pol))
    return out


def branch_atoms(cfg: CFG, br) -> List[Tuple[ast.expr, bool]]:
    """Atoms known on a ``Branch`` edge of an ``if``/``while`` (through boolean locals)."""
    if not isinstance(br, Branch) or not isinstance(br.stmt, (ast.If, ast.While)):
        return []
    return atoms_at(cfg, br.stmt.test, br.polarity, br.stmt)


def conditions_at(cfg: CFG, stmt) -> List[Tuple[ast.expr, bool]]:
    """``cfg.conditions(stmt)`` with boolean locals looked through."""
    out: List[Tuple[ast.expr, bool]] = []
    for g in cfg.guards(stmt):
        out += branch_atoms(cfg, g)
    return out


class Contribution:
    """One leaf of an accumulated value: ``expr`` is what was added, ``stmt`` the statement that
    added it to the accumulated value (``x += e`` / ``x = x + e``; the defining statement when
    there is no accumulation), ``kind`` is ``'aug'`` for added leaves, else the origin kind."""

    __slots__ = ("expr", "stmt", "kind")

    def __init__(self, expr, stmt, kind):
        self.expr = expr
        self.stmt = stmt
        self.kind = kind

    def __repr__(self):
        return f"Contribution({self.kind}:{ast.dump(self.expr)[:40] if isinstance(self.expr, ast.AST) else self.expr}@{getattr(self.stmt, 'lineno', '?')})"


def contributions(cfg: CFG, expr: ast.expr, at) -> List[Contribution]:
    """Leaves of the value of ``expr`` at statement ``at``, through local names, ``+=`` and
    ``a + b``.  ``x += y``, ``x = x + y`` and ``t = y; x += t`` all give the leaf ``y`` added at
    that statement."""
    out: List[Contribution] = []
    seen = set()

    def walk(e, at_, acc) -> None:
        key = (id(e), id(at_), id(acc))
        if key in seen:
            return
        seen.add(key)
        if isinstance(e, ast.BinOp) and isinstance(e.op, ast.Add):
            walk(e.left, at_, acc)
            walk(e.right, at_, acc)
            return
        if isinstance(e, ast.Name):
            for o in origins(cfg, e, at_):
                if o.kind == "aug":
                    # the added value, attributed to the += (unless an outer statement already adds it)
                    if o.path or not isinstance(o.expr, ast.AST):
                        out.append(Contribution(o.expr, acc or o.stmt, "aug"))
                    else:
                        walk(o.expr, o.stmt, acc or o.stmt)
                elif o.kind == "expr" and not o.path and isinstance(o.expr, ast.BinOp) and isinstance(o.expr.op, ast.Add) and o.stmt is not None:
                    tgt = _single_target(o.stmt)
                    for side in (o.expr.left, o.expr.right):
                        if isinstance(side, ast.Name) and tgt is not None and side.id == tgt:
                            walk(side, o.stmt, acc)  # the accumulator itself: earlier additions keep their own statement
                        else:
                            walk(side, o.stmt, acc or o.stmt)
                elif o.kind == "expr" and not o.path and isinstance(o.expr, ast.AST):
                    out.append(Contribution(o.expr, acc or o.stmt, "aug" if acc is not None else "expr"))
                else:
                    out.append(Contribution(o.expr, acc or o.stmt, "aug" if acc is not None and o.kind == "expr" else o.kind))
            return
        out.append(Contribution(e, acc or at_, "aug" if acc is not None else "expr"))

    walk(expr, at, None)
    return out


def _single_target(stmt) -> Optional[str]:
    if isinstance(stmt, ast.Assign) and len(stmt.targets) == 1 and isinstance(stmt.targets[0], ast.Name):
        return stmt.targets[0].id
    if isinstance(stmt, ast.AnnAssign) and isinstance(stmt.target, ast.Name):
        return stmt.target.id
    return None


def _const_index(e) -> Optional[int]:
    if isinstance(e, ast.Subscript) and isinstance(e.slice, ast.Constant) and isinstance(e.slice.value, int) and not isinstance(e.slice.value, bool) and e.slice.value >= 0:
        return e.slice.value
    return None


def component_origins(cfg: CFG, expr: ast.expr, at=None, _depth: int = 0):
    """``origins`` that also reads a constant non-negative subscript as a tuple component.

    ``rec[0]`` (``rec`` a loop variable, a parameter, a local holding a tuple display …) gives the
    origin of ``rec`` with ``0`` appended to its path — the same fact as ``a, b, c = rec`` /
    ``for a, b, c in …`` followed by ``a``; a local holding such a subscript (``d = rec[0]``) is
    looked through as well.  Everything else is what ``origins`` returns."""
    from .cfg import Origin

    if at is None:
        at = cfg.stmt_of(expr)
    if _depth > 6:
        return [Origin(expr, (), "expr", at)]
    idx = _const_index(expr)
    if idx is not None and isinstance(expr.value, (ast.Name, ast.Subscript)):
        out = []
        for o in component_origins(cfg, expr.value, at, _depth + 1):
            if o.kind == "expr" and not o.path and isinstance(o.expr, (ast.Tuple, ast.List)):
                if idx < len(o.expr.elts) and not any(isinstance(x, ast.Starred) for x in o.expr.elts[: idx + 1]):
                    out += component_origins(cfg, o.expr.elts[idx], o.stmt, _depth + 1)
                else:
                    out.append(Origin(expr, (), "unknown", at))
            else:
                out.append(Origin(o.expr, tuple(o.path) + (idx,), o.kind, o.stmt))
        return out
    if isinstance(expr, ast.Name):
        out = []
        for o in origins(cfg, expr, at):
            if o.kind == "expr" and _const_index(o.expr) is not None and o.stmt is not None:
                for c in component_origins(cfg, o.expr, o.stmt, _depth + 1):
                    out.append(Origin(c.expr, tuple(c.path) + tuple(o.path), c.kind, c.stmt))
            else:
                out.append(o)
        return out
    return [Origin(expr, (), "expr", at)]


def expanded(cfg: CFG, expr: ast.expr, at, _depth: int = 0) -> ast.expr:
    """A fresh copy of ``expr`` in which every local that holds exactly one expression is replaced
    by that expression (``edit = f.edit; len(edit)`` reads as ``len(f.edit)``).

    A local is only replaced when its single definition reaches ``at`` and nothing its expression
    reads was re-bound in between; parameters, loop variables, accumulated values and names with
    several definitions stay as they are.  The result is for *reading* (``norm``/matching): it
    has no parent links and is not part of the tree."""
    rd = cfg.reaching()
    opaque = (ast.Lambda, ast.ListComp, ast.SetComp, ast.DictComp, ast.GeneratorExp, ast.Yield, ast.YieldFrom, ast.Await, ast.NamedExpr)

    def cp(n, subst: bool):
        if isinstance(n, list):
            return [cp(x, subst) for x in n]
        if not isinstance(n, ast.AST):
            return n
        if subst and isinstance(n, ast.Name) and isinstance(n.ctx, ast.Load) and _depth < 4:
            os_ = origins(cfg, n, at)
            if len(os_) == 1 and os_[0].kind == "expr" and not os_[0].path and os_[0].stmt is not None and isinstance(os_[0].expr, ast.AST):
                o = os_[0]
                if not isinstance(o.expr, opaque) and all(rd.defs_at(o.stmt, x) == rd.defs_at(at, x) for x in names_in(o.expr)):
                    return expanded(cfg, o.expr, o.stmt, _depth + 1)
        new = type(n)()
        inner = subst and not isinstance(n, opaque)
        for f in n._fields:
            if hasattr(n, f):
                setattr(new, f, cp(getattr(n, f), inner))
        for a in ("lineno", "col_offset", "end_lineno", "end_col_offset"):
            if hasattr(n, a):
                setattr(new, a, getattr(n, a))
        return new

    return cp(expr, True)


def edge_atoms(cfg: CFG, br, inside=None) -> List[Tuple[ast.expr, bool, object]]:
    """Everything known when the ``Branch`` edge ``br`` is taken: its own atoms plus those of every
    branch dominating it (optionally only those whose statement lies inside ``inside``), read
    through boolean locals.  Items are ``(expr, truth, statement where the test is evaluated)``."""
    out: List[Tuple[ast.expr, bool, object]] = []
    gs = [g for g in cfg.guards(br) if g is not br] + [br]
    for g in gs:
        if not isinstance(g, Branch) or not isinstance(g.stmt, (ast.If, ast.While)):
            continue
        if inside is not None:
            p = g.stmt
            while p is not None and p is not inside:
                p = getattr(p, "_parent", None)
            if p is None:
                continue
        for e, pol in branch_atoms(cfg, g):
            out.append((e, pol, g.stmt))
    return out
