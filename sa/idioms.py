"""Small helpers that make idiom recognition independent of how a test or a value is spelled.

Used by rule modules so that behaviour-preserving refactors of the analysed code (a test hoisted
into a boolean local, a value accumulated with ``x = x + y`` instead of ``x += y``, a value passed
through one more local) are seen as the same facts.  Everything here only *adds* recognised
spellings of the same fact; nothing weakens what a rule requires.
"""

from __future__ import annotations

import ast
from typing import List, Optional, Tuple

from .cfg import CFG, Branch, atoms, names_in, origins

_TESTLIKE = (ast.BoolOp, ast.UnaryOp, ast.Compare, ast.Call, ast.Attribute)


def atoms_at(cfg: CFG, test: ast.expr, polarity: bool, at, _depth: int = 0) -> List[Tuple[ast.expr, bool]]:
    """``cfg.atoms`` of a test evaluated at statement ``at``, looking through boolean locals.

    For ``t = a and b`` ... ``if t:`` the atoms are those of ``a and b``.  Only when the single
    definition of ``t`` reaches the test and no name its expression reads is re-bound in
    between (same reaching definitions at both statements), so the facts still speak about the
    same values."""
    out: List[Tuple[ast.expr, bool]] = []
    rd = cfg.reaching()
    for e, pol in atoms(test, polarity):
        if isinstance(e, ast.Name) and _depth < 4:
            os_ = origins(cfg, e, at)
            if len(os_) == 1 and os_[0].kind == "expr" and not os_[0].path and os_[0].stmt is not None and isinstance(os_[0].expr, _TESTLIKE):
                o = os_[0]
                if all(rd.defs_at(o.stmt, n) == rd.defs_at(at, n) for n in names_in(o.expr)):
                    out += atoms_at(cfg, o.expr, pol, o.stmt, _depth + 1)
                    continue
        out.append((e, pol))
    return out


def branch_atoms(cfg: CFG, br) -> List[Tuple[ast.expr, bool]]:
    """Atoms known on a ``Branch`` edge of an ``if``/``while`` (through boolean locals)."""
    if not isinstance(br, Branch) or not isinstance(br.stmt, (ast.If, ast.While)):
        return []
    return atoms_at(cfg, br.stmt.test, br.polarity, br.stmt)


def conditions_at(cfg: CFG, stmt) -> List[Tuple[ast.expr, bool]]:
    """``cfg.conditions(stmt)`` with boolean locals looked through."""
    out: List[Tuple[ast.expr, bool]] = []
    for g in cfg.guards(stmt):
        out += branch_atoms(cfg, g)
    return out


class Contribution:
    """One leaf of an accumulated value: ``expr`` is what was added, ``stmt`` the statement that
    added it to the accumulated value (``x += e`` / ``x = x + e``; the defining statement when
    there is no accumulation), ``kind`` is ``'aug'`` for added leaves, else the origin kind."""

    __slots__ = ("expr", "stmt", "kind")

    def __init__(self, expr, stmt, kind):
        self.expr = expr
        self.stmt = stmt
        self.kind = kind

    def __repr__(self):
        return f"Contribution({self.kind}:{ast.dump(self.expr)[:40] if isinstance(self.expr, ast.AST) else self.expr}@{getattr(self.stmt, 'lineno', '?')})"


def contributions(cfg: CFG, expr: ast.expr, at) -> List[Contribution]:
    """Leaves of the value of ``expr`` at statement ``at``, through local names, ``+=`` and
    ``a + b``.  ``x += y``, ``x = x + y`` and ``t = y; x += t`` all give the leaf ``y`` added at
    that statement."""
    out: List[Contribution] = []
    seen = set()

    def walk(e, at_, acc) -> None:
        key = (id(e), id(at_), id(acc))
        if key in seen:
            return
        seen.add(key)
        if isinstance(e, ast.BinOp) and isinstance(e.op, ast.Add):
            walk(e.left, at_, acc)
            walk(e.right, at_, acc)
            return
        if isinstance(e, ast.Name):
            for o in origins(cfg, e, at_):
                if o.kind == "aug":
                    # the added value, attributed to the += (unless an outer statement already adds it)
                    if o.path or not isinstance(o.expr, ast.AST):
                        out.append(Contribution(o.expr, acc or o.stmt, "aug"))
                    else:
                        walk(o.expr, o.stmt, acc or o.stmt)
                elif o.kind == "expr" and not o.path and isinstance(o.expr, ast.BinOp) and isinstance(o.expr.op, ast.Add) and o.stmt is not None:
                    tgt = _single_target(o.stmt)
                    for side in (o.expr.left, o.expr.right):
                        if isinstance(side, ast.Name) and tgt is not None and side.id == tgt:
                            walk(side, o.stmt, acc)  # the accumulator itself: earlier additions keep their own statement
                        else:
                            walk(side, o.stmt, acc or o.stmt)
                elif o.kind == "expr" and not o.path and isinstance(o.expr, ast.AST):
                    out.append(Contribution(o.expr, acc or o.stmt, "aug" if acc is not None else "expr"))
                else:
                    out.append(Contribution(o.expr, acc or o.stmt, "aug" if acc is not None and o.kind == "expr" else o.kind))
            return
        out.append(Contribution(e, acc or at_, "aug" if acc is not None else "expr"))

    walk(expr, at, None)
    return out


def _single_target(stmt) -> Optional[str]:
    if isinstance(stmt, ast.Assign) and len(stmt.targets) == 1 and isinstance(stmt.targets[0], ast.Name):
        return stmt.targets[0].id
    if isinstance(stmt, ast.AnnAssign) and isinstance(stmt.target, ast.Name):
        return stmt.target.id
    return None
