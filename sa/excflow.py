"""Exception flow for the repository's own error types (DESIGN.md 2.5).

``escapes(F)`` = the set of (error type, origin raise site) that can leave
function F: raised in F outside a covering handler, or escaping from a callee
at a call site of F that no covering handler surrounds.  Computed as a fixpoint
over the call graph.  A handler *covers* T when its type is T, a base class of
T, ``Exception``/``BaseException`` or bare — and it does not re-raise the same
exception unconditionally.

Generator functions raise at the place where they are iterated, not where they
are called: a call to a generator function whose result is bound to a local
name is charged to the statements that iterate that name.
"""

from __future__ import annotations

import ast
from typing import Dict, FrozenSet, Iterable, List, Optional, Set, Tuple

from .callgraph import CallGraph, Edge, FuncInfo
from .index import FuncNode, Repo, enclosing_function, norm, parent, walk_local

ERRORS = "src/sqlfluff/core/errors.py"


class ErrorTypes:
    def __init__(self, repo: Repo):
        self.repo = repo
        m = repo.mod(ERRORS)
        self.bases: Dict[str, List[str]] = {}
        for q, c in m.classes():
            self.bases[c.name] = [norm(b) for b in c.bases]
        self.names = set(self.bases)

    def ancestors(self, t: str) -> Set[str]:
        out, stack = set(), [t]
        while stack:
            x = stack.pop()
            if x in out:
                continue
            out.add(x)
            stack.extend(self.bases.get(x, []))
        return out

    def covers(self, handler_type: Optional[ast.expr], t: str) -> bool:
        if handler_type is None:
            return True
        hs = handler_type.elts if isinstance(handler_type, ast.Tuple) else [handler_type]
        anc = self.ancestors(t)
        for h in hs:
            n = norm(h).split(".")[-1]
            if n in ("Exception", "BaseException") or n in anc:
                return True
        return False


def _is_generator(f: ast.AST) -> bool:
    return any(isinstance(n, (ast.Yield, ast.YieldFrom)) for n in walk_local(f))


def handler_reraises(h: ast.ExceptHandler) -> bool:
    """Does the handler unconditionally re-raise the caught exception (bare raise
    or ``raise <name>``) at its top level?"""
    for s in h.body:
        if isinstance(s, ast.Raise):
            if s.exc is None:
                return True
            if isinstance(s.exc, ast.Name) and s.exc.id == h.name:
                return True
            if isinstance(s.exc, ast.Call) and isinstance(s.exc.func, ast.Attribute) and isinstance(s.exc.func.value, ast.Name) and s.exc.func.value.id == h.name:
                return True  # raise e.with_traceback(...)
    return False


def covering_handler(et: ErrorTypes, node: ast.AST, func: ast.AST, t: str) -> Optional[ast.ExceptHandler]:
    """Innermost handler inside ``func`` that covers ``t`` for an exception raised
    at ``node`` (node must be in the try *body*), or None."""
    child = node
    p = parent(node)
    while p is not None and child is not func:
        if isinstance(p, ast.Try) and child in p.body:
            for h in p.handlers:
                if et.covers(h.type, t):
                    if handler_reraises(h):
                        break  # propagates outward (same type)
                    return h
        child, p = p, parent(p)
    return None


class Escape:
    __slots__ = ("etype", "site", "site_func", "via")

    def __init__(self, etype: str, site: ast.AST, site_func: FuncInfo, via: Optional[Tuple["Escape", Edge]] = None):
        self.etype = etype
        self.site = site
        self.site_func = site_func
        self.via = via

    @property
    def key(self):
        return (self.etype, id(self.site))


class ExcFlow:
    def __init__(self, cg: CallGraph, et: Optional[ErrorTypes] = None, types: Optional[Iterable[str]] = None):
        self.cg = cg
        self.repo = cg.repo
        self.et = et or ErrorTypes(cg.repo)
        self.types = set(types) if types else set(self.et.names)
        self.raise_sites: List[Tuple[FuncInfo, ast.Raise, str]] = []
        self.handled_at: Dict[Tuple[str, int], List[Tuple[FuncInfo, ast.ExceptHandler]]] = {}
        self.escapes: Dict[str, Dict[Tuple[str, int], Tuple[ast.AST, FuncInfo, Optional[Tuple[str, Edge]]]]] = {}
        self._collect()
        self._solve()

    # -- raise sites ------------------------------------------------------------
    def _raised_type(self, fi: FuncInfo, r: ast.Raise) -> Optional[str]:
        e = r.exc
        if e is None:
            return None
        if isinstance(e, ast.Call):
            n = norm(e.func).split(".")[-1]
            return n if n in self.et.names else None
        if isinstance(e, ast.Name):
            # raise of a local bound to a constructor call, or a caught exception
            for n in walk_local(fi.node):
                if isinstance(n, ast.Assign) and any(isinstance(t, ast.Name) and t.id == e.id for t in n.targets) and isinstance(n.value, ast.Call):
                    nm = norm(n.value.func).split(".")[-1]
                    if nm in self.et.names:
                        return nm
        return None

    def _collect(self) -> None:
        for fi in self.cg.funcs.values():
            for n in walk_local(fi.node):
                if isinstance(n, ast.Raise):
                    t = self._raised_type(fi, n)
                    if t and t in self.types:
                        self.raise_sites.append((fi, n, t))

    # -- where does an exception from a call surface? ---------------------------------
    def _surface_points(self, caller: FuncInfo, call: ast.Call, target: FuncInfo) -> List[ast.AST]:
        if not _is_generator(target.node):
            return [call]
        # generator: charged to the iteration sites of the bound name
        st = call
        while st is not None and not isinstance(st, ast.stmt):
            st = parent(st)
        if isinstance(st, (ast.For,)) and any(x is call for x in ast.walk(st.iter)):
            return [call]
        if isinstance(st, ast.Assign) and len(st.targets) == 1 and isinstance(st.targets[0], ast.Name) and st.value is call:
            name = st.targets[0].id
            pts: List[ast.AST] = []
            for n in walk_local(caller.node):
                if isinstance(n, ast.For) and any(isinstance(x, ast.Name) and x.id == name for x in ast.walk(n.iter)):
                    pts.append(n.iter)
                elif isinstance(n, ast.Call) and norm(n.func) in ("next", "list", "tuple", "sorted") and any(isinstance(x, ast.Name) and x.id == name for a in n.args for x in ast.walk(a)):
                    pts.append(n)
                elif isinstance(n, ast.YieldFrom) and isinstance(n.value, ast.Name) and n.value.id == name:
                    pts.append(n)
            if pts:
                return pts
        return [call]

    def _solve(self) -> None:
        et = self.et
        esc: Dict[str, Dict[Tuple[str, int], Tuple]] = {fq: {} for fq in self.cg.funcs}
        work: List[str] = []
        for fi, r, t in self.raise_sites:
            h = covering_handler(et, r, fi.node, t)
            if h is None:
                esc[fi.fq][(t, id(r))] = (r, fi, None)
                if fi.fq not in work:
                    work.append(fi.fq)
            else:
                self.handled_at.setdefault((t, id(r)), []).append((fi, h))
        while work:
            fq = work.pop()
            for e in self.cg.edges_to.get(fq, []):
                caller = e.caller
                target = self.cg.funcs[fq]
                pts = self._surface_points(caller, e.call, target)
                for key, (site, sfi, _via) in list(esc[fq].items()):
                    t = key[0]
                    if key in esc[caller.fq]:
                        continue
                    handled = True
                    for p in pts:
                        h = covering_handler(et, p, caller.node, t)
                        if h is None:
                            handled = False
                        else:
                            self.handled_at.setdefault(key, []).append((caller, h))
                    if not handled:
                        esc[caller.fq][key] = (site, sfi, (fq, e))
                        if caller.fq not in work:
                            work.append(caller.fq)
            # nested function defined in a parent: a raise in the nested def surfaces
            # where the nested function is called (edges cover plain-name calls).
        self.escapes = esc

    # -- queries ---------------------------------------------------------------------
    def escaping(self, fq: str) -> List[Tuple[str, ast.AST, FuncInfo]]:
        return [(k[0], v[0], v[1]) for k, v in self.escapes.get(fq, {}).items()]

    def chain(self, fq: str, key: Tuple[str, int]) -> List[str]:
        out = [fq]
        cur = fq
        guard = 0
        while guard < 80:
            v = self.escapes.get(cur, {}).get(key)
            if v is None or v[2] is None:
                break
            cur = v[2][0]
            out.append(cur)
            guard += 1
        return out
