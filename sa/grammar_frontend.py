"""Grammar front-end (DESIGN.md 2.7).  Runs in a SUBPROCESS:

    /venv/bin/python grammar_frontend.py <root> <out.pkl | out.json>

``sys.path[0]`` is set to ``<root>/src`` so that the ``sqlfluff`` package that is
imported is the one of the analysed tree (``--root`` scratch copies work).  For each
label of the dialect lookup it calls ``load_raw_dialect(label)`` / ``.expand()`` and
serialises the resolved grammar *object graph* reachable from the root segment and
from every library entry, the keyword / bracket sets and the lexer matcher table.

This is the same move as using a compiler's front-end to obtain the resolved program:
it NEVER calls ``lex``, ``parse``, ``match`` or any rule, and no SQL text is involved.
The only methods called on grammar objects are ``is_optional()`` and the declared
``simple(parse_context, crumbs)`` hint (needed by R06c); failures of the latter are
recorded per node, never raised.

Output (plain dicts / lists / tuples / str / int / bool / None only), see
``sa/grammar.py`` for the reader and the field documentation.
"""

from __future__ import annotations

import json
import os
import pickle
import re
import sys
import time
import traceback

FORMAT = 3


def _frame_info(tb, root: str):
    """Innermost traceback frame whose file lives under ``root`` (else innermost)."""
    frames = traceback.extract_tb(tb)
    pick = None
    for fr in frames:
        fn = os.path.abspath(fr.filename)
        if fn.startswith(root + os.sep) and "/sa/grammar_frontend" not in fn:
            pick = fr
    if pick is None and frames:
        pick = frames[-1]
    if pick is None:
        return None
    fn = os.path.abspath(pick.filename)
    rel = os.path.relpath(fn, root) if fn.startswith(root + os.sep) else fn
    return {"file": rel, "line": pick.lineno, "func": pick.name, "text": (pick.line or "").strip()}


def _err(stage: str, exc: BaseException, root: str):
    return {
        "stage": stage,
        "type": type(exc).__name__,
        "message": str(exc)[:500],
        "frame": _frame_info(exc.__traceback__, root),
        "traceback": "".join(traceback.format_exception(type(exc), exc, exc.__traceback__))[-4000:],
    }


KIND_BASES = {}  # grammar/parser kind -> names of its core base classes (MRO)
_CLASS_LINE_CACHE = {}
_CLASS_RE = re.compile(r"^class\s+([A-Za-z_][A-Za-z_0-9]*)\b")


def _class_line(cls, root: str):
    """(relative module path, line) of a class, by one cheap scan per module file."""
    mod = sys.modules.get(cls.__module__)
    fn = getattr(mod, "__file__", None)
    if not fn:
        return cls.__module__, 0
    fn = os.path.abspath(fn)
    table = _CLASS_LINE_CACHE.get(fn)
    if table is None:
        table = {}
        try:
            with open(fn, encoding="utf-8") as fh:
                for i, line in enumerate(fh, 1):
                    m = _CLASS_RE.match(line)
                    if m:
                        # the last definition wins at import time
                        table[m.group(1)] = i
        except OSError:
            pass
        _CLASS_LINE_CACHE[fn] = table
    rel = os.path.relpath(fn, root) if fn.startswith(root + os.sep) else fn
    return rel, table.get(cls.__name__, 0)


def _plain(v, depth=0):
    """JSON/pickle-safe rendering of small configuration values."""
    if v is None or isinstance(v, (bool, int, float, str)):
        return v
    if depth > 4:
        return repr(v)[:200]
    if isinstance(v, (list, tuple)):
        return [_plain(x, depth + 1) for x in v]
    if isinstance(v, (set, frozenset)):
        try:
            return sorted(_plain(x, depth + 1) for x in v)
        except TypeError:
            return [repr(x) for x in v]
    if isinstance(v, dict):
        return {str(k): _plain(x, depth + 1) for k, x in v.items()}
    if isinstance(v, type):
        return f"<class {v.__name__}>"
    if callable(v):
        return f"<callable {getattr(v, '__qualname__', getattr(v, '__name__', repr(v)))}>"
    return repr(v)[:200]


class Serialiser:
    """Serialises the object graph of one expanded dialect."""

    def __init__(self, root: str, P):
        self.root = root
        self.P = P  # namespace of sqlfluff classes
        self.nodes = []
        self.memo = {}
        self.objs = []  # keeps the objects alive and index-aligned with nodes
        self.pending = []

    def ref(self, obj) -> int:
        k = id(obj)
        i = self.memo.get(k)
        if i is None:
            i = len(self.nodes)
            self.memo[k] = i
            self.nodes.append(None)
            self.objs.append(obj)
            self.pending.append(i)
        return i

    def drain(self) -> None:
        while self.pending:
            i = self.pending.pop()
            self.nodes[i] = self._node(i, self.objs[i])

    # -- one node ------------------------------------------------------------
    def _core_bases(self, cls):
        out = []
        for c in cls.__mro__:
            if c is object:
                continue
            out.append(c.__name__)
        return out

    def _node(self, i, o):
        P = self.P
        if isinstance(o, type):
            if issubclass(o, P.BaseSegment):
                return self._segment_class(i, o)
            return {"id": i, "kind": "other", "cls": getattr(o, "__name__", repr(o)), "repr": repr(o)[:200]}
        if isinstance(o, P.BaseGrammar):
            return self._grammar(i, o)
        if isinstance(o, P.BaseParser):
            return self._parser(i, o)
        cls = type(o)
        n = {"id": i, "kind": cls.__name__, "cls": cls.__name__, "family": "matcher" if isinstance(o, P.Matchable) else "other"}
        if isinstance(o, P.Matchable):
            n["bases"] = self._core_bases(cls)
            try:
                n["attrs"] = {k: _plain(v) for k, v in vars(o).items() if not k.startswith("__cache")}
            except TypeError:
                pass
            try:
                n["is_optional"] = bool(o.is_optional())
            except Exception:  # pragma: no cover
                pass
        else:
            n["repr"] = repr(o)[:200]
        return n

    def _segment_class(self, i, c):
        P = self.P
        mod, line = _class_line(c, self.root)
        is_meta = issubclass(c, P.MetaSegment)
        n = {
            "id": i,
            "kind": "meta" if is_meta else "segment",
            "family": "segment",
            "cls": c.__name__,
            "name": c.__name__,
            "type": getattr(c, "type", None),
            "module": mod,
            "line": line,
            "bases": self._core_bases(c),
        }
        mg = getattr(c, "match_grammar", None)
        if mg is not None:
            n["match_grammar"] = self.ref(mg)
        if is_meta:
            n["indent_val"] = int(getattr(c, "indent_val", 0))
            n["is_implicit"] = bool(getattr(c, "is_implicit", False))
            n["is_indent"] = issubclass(c, P.Indent) and not issubclass(c, P.Dedent)
            n["is_dedent"] = issubclass(c, P.Dedent)
        ct = getattr(c, "_class_types", None)
        if ct:
            n["class_types"] = sorted(ct)
        try:
            own = c.match.__func__ is not P.BaseSegment.match.__func__
        except AttributeError:
            own = True
        if own:
            n["own_match"] = True
        for a in ("can_start_end_non_code", "allow_empty"):
            if getattr(c, a, False):
                n[a] = True
        return n

    def _grammar(self, i, g):
        P = self.P
        cls = type(g)
        core = next((b.__name__ for b in cls.__mro__ if b.__module__.startswith("sqlfluff.core.parser")), cls.__name__)
        n = {"id": i, "kind": core, "family": "grammar", "cls": cls.__name__}
        KIND_BASES.setdefault(core, [c.__name__ for c in cls.__mro__ if c is not object and c.__module__.startswith("sqlfluff.core.parser")])
        if cls.__name__ != core:
            n["bases"] = self._core_bases(cls)
        els = getattr(g, "_elements", None) or []
        if els:
            n["elements"] = [self.ref(e) for e in els]
        terms = getattr(g, "terminators", None) or []
        if terms:
            n["terminators"] = [self.ref(t) for t in terms]
        ex = getattr(g, "exclude", None)
        if ex is not None:
            n["exclude"] = self.ref(ex)
        if getattr(g, "optional", False):
            n["optional"] = True
        try:
            if g.is_optional():
                n["is_optional"] = True
        except Exception:  # pragma: no cover
            n["is_optional_error"] = True
        if not getattr(g, "allow_gaps", True):
            n["allow_gaps"] = False
        if getattr(g, "reset_terminators", False):
            n["reset_terminators"] = True
        pm = getattr(g, "parse_mode", None)
        pmn = getattr(pm, "name", None) or (str(pm) if pm is not None else None)
        if pmn and pmn != "STRICT":
            n["parse_mode"] = pmn
        if isinstance(g, P.Ref):
            n["ref"] = g._ref
        if isinstance(g, P.AnyNumberOf):
            n["min_times"] = g.min_times
            n["max_times"] = g.max_times
            if g.max_times_per_element is not None:
                n["max_times_per_element"] = g.max_times_per_element
        if isinstance(g, P.Delimited):
            d = getattr(g, "delimiter", None)
            if d is not None:
                n["delimiter"] = self.ref(d)
            n["allow_trailing"] = bool(g.allow_trailing)
            n["min_delimiters"] = g.min_delimiters
            n["optional_delimiter"] = bool(getattr(g, "optional_delimiter", False))
            n["bracket_pairs_set"] = g.bracket_pairs_set
        if isinstance(g, P.Bracketed):
            n["bracket_type"] = g.bracket_type
            n["bracket_pairs_set"] = g.bracket_pairs_set
            if g.start_bracket is not None:
                n["start_bracket"] = self.ref(g.start_bracket)
            if g.end_bracket is not None:
                n["end_bracket"] = self.ref(g.end_bracket)
        if isinstance(g, P.Conditional):
            n["cond_meta"] = self.ref(g._meta)
            n["config_type"] = g._config_type
            n["config_rules"] = {str(k): _plain(v) for k, v in g._config_rules.items()}
        return n

    def _parser(self, i, p):
        cls = type(p)
        core = next((b.__name__ for b in cls.__mro__ if b.__module__.startswith("sqlfluff.core.parser")), cls.__name__)
        rc = p.raw_class
        KIND_BASES.setdefault(core, [c.__name__ for c in cls.__mro__ if c is not object and c.__module__.startswith("sqlfluff.core.parser")])
        n = {
            "id": i,
            "kind": core,
            "family": "parser",
            "cls": cls.__name__,
            "raw_class": rc.__name__,
            "raw_class_type": getattr(rc, "type", None),
            "instance_types": list(getattr(p, "_instance_types", ()) or ()),
        }
        if hasattr(p, "templates"):
            n["templates"] = sorted(p.templates)
        elif hasattr(p, "template"):
            n["template"] = p.template
        if getattr(p, "anti_template", None):
            n["anti_template"] = p.anti_template
        if hasattr(p, "ignore_case"):
            n["ignore_case"] = bool(p.ignore_case)
        if getattr(p, "optional", False):
            n["optional"] = True
            n["is_optional"] = True
        if getattr(p, "_trim_chars", None):
            n["trim_chars"] = list(p._trim_chars)
        if getattr(p, "casefold", None):
            n["casefold"] = _plain(p.casefold)
        return n


def _lexer_record(m, P, depth=0):
    if m is None:
        return None
    cls = type(m)
    kind = "RegexLexer" if isinstance(m, P.RegexLexer) else ("StringLexer" if isinstance(m, P.StringLexer) else cls.__name__)
    sc = getattr(m, "segment_class", None)
    rec = {
        "name": getattr(m, "name", None),
        "kind": kind,
        "cls": cls.__name__,
        "template": getattr(m, "template", None),
        "segment_class": getattr(sc, "__name__", None),
        "segment_type": getattr(sc, "type", None),
        "segment_is_meta": bool(getattr(sc, "is_meta", False)),
        "segment_kwargs": _plain(getattr(m, "segment_kwargs", None) or {}),
        "subdivider": None,
        "trim_post_subdivide": None,
    }
    if depth < 3:
        rec["subdivider"] = _lexer_record(getattr(m, "subdivider", None), P, depth + 1)
        rec["trim_post_subdivide"] = _lexer_record(getattr(m, "trim_post_subdivide", None), P, depth + 1)
    return rec


def _simple_hints(ser: Serialiser, dialect, P, stats):
    """Value of the declared ``simple()`` hint of every node (no SQL input involved)."""
    try:
        ctx = P.ParseContext(dialect=dialect, max_parse_depth=0)
    except TypeError:  # older/newer signature
        ctx = P.ParseContext(dialect=dialect)
    saved_limit = getattr(sys, "tracebacklimit", None)
    sys.setrecursionlimit(max(sys.getrecursionlimit(), 5000))
    for i, o in enumerate(ser.objs):
        n = ser.nodes[i]
        fn = getattr(o, "simple", None)
        if fn is None:
            continue
        try:
            r = fn(parse_context=ctx, crumbs=None)
        except BaseException as e:  # noqa: BLE001 - recorded, never raised
            if isinstance(e, (KeyboardInterrupt, SystemExit)):
                raise
            n["simple_error"] = f"{type(e).__name__}: {str(e).splitlines()[0][:160] if str(e) else ''}"
            stats["simple_errors"] = stats.get("simple_errors", 0) + 1
            continue
        if r is None:
            n["simple"] = None
        else:
            try:
                n["simple"] = (sorted(r[0]), sorted(r[1]))
            except Exception as e:  # pragma: no cover
                n["simple_error"] = f"unreadable hint {r!r}: {e}"
    # Dialect.ref() silences tracebacks process-wide when a keyword is missing.
    if saved_limit is None:
        if hasattr(sys, "tracebacklimit"):
            del sys.tracebacklimit
    else:
        sys.tracebacklimit = saved_limit


def serialise_dialect(label, module_name, obj_name, root, P, want_simple=True):
    from importlib import import_module

    rec = {
        "label": label,
        "ok": False,
        "error": None,
        "module_name": module_name,
        "object_name": obj_name,
        "module": None,
        "name": None,
        "inherits_from": None,
        "root_segment_name": None,
        "root": None,
        "nodes": [],
        "library": {},
        "sets": {},
        "bracket_sets": {},
        "lexer": [],
        "stats": {},
    }
    t0 = time.time()
    try:
        mod = import_module(f"sqlfluff.dialects.{module_name}")
    except BaseException as e:  # noqa: BLE001
        rec["error"] = _err("import", e, root)
        return rec
    fn = os.path.abspath(getattr(mod, "__file__", "") or "")
    rec["module"] = os.path.relpath(fn, root) if fn.startswith(root + os.sep) else fn
    if not hasattr(mod, obj_name):
        rec["error"] = {"stage": "expose", "type": "AttributeError", "message": f"module sqlfluff.dialects.{module_name} has no attribute {obj_name!r}",
                        "frame": {"file": rec["module"], "line": 0, "func": "<module>", "text": ""}, "traceback": ""}
        return rec
    raw = getattr(mod, obj_name)
    if not isinstance(raw, P.Dialect):
        rec["error"] = {"stage": "expose", "type": "TypeError", "message": f"{module_name}.{obj_name} is {type(raw).__name__}, not a Dialect",
                        "frame": {"file": rec["module"], "line": 0, "func": "<module>", "text": ""}, "traceback": ""}
        return rec
    try:
        raw = P.load_raw_dialect(label)
    except BaseException as e:  # noqa: BLE001
        rec["error"] = _err("load", e, root)
        return rec
    rec["name"] = raw.name
    rec["inherits_from"] = raw.inherits_from
    rec["root_segment_name"] = raw.root_segment_name
    try:
        d = raw.expand()
    except BaseException as e:  # noqa: BLE001
        rec["error"] = _err("expand", e, root)
        return rec
    rec["stats"]["load_s"] = round(time.time() - t0, 3)
    t1 = time.time()
    ser = Serialiser(root, P)
    lib = d._library
    # sets
    for k, v in d._sets.items():
        if k in ("bracket_pairs", "angle_bracket_pairs"):
            rec["bracket_sets"][k] = sorted([list(t) for t in v], key=repr)
        else:
            try:
                rec["sets"][k] = sorted(v)
            except TypeError:
                rec["sets"][k] = sorted(repr(x) for x in v)
    # root first so that it gets a small id
    if d.root_segment_name in lib and lib[d.root_segment_name]:
        rec["root"] = ser.ref(lib[d.root_segment_name])
    else:
        rec["error"] = {"stage": "root", "type": "RuntimeError", "message": f"root segment {d.root_segment_name!r} is not in the expanded library of {label}",
                        "frame": {"file": rec["module"], "line": 0, "func": "<module>", "text": ""}, "traceback": ""}
    for name, v in lib.items():
        rec["library"][name] = ser.ref(v)
    ser.drain()
    # the bracket start/end refs are library names; nothing else to walk
    rec["lexer"] = [_lexer_record(m, P) for m in (d.lexer_matchers or [])]
    rec["stats"]["walk_s"] = round(time.time() - t1, 3)
    if want_simple:
        t2 = time.time()
        _simple_hints(ser, d, P, rec["stats"])
        rec["stats"]["simple_s"] = round(time.time() - t2, 3)
    rec["nodes"] = ser.nodes
    rec["stats"]["nodes"] = len(ser.nodes)
    rec["ok"] = rec["error"] is None
    return rec


class _NS:
    pass


def build(root: str, want_simple: bool = True):
    root = os.path.abspath(root)
    src = os.path.join(root, "src")
    here = os.path.dirname(os.path.abspath(__file__))
    # the script directory (/verif/sa) must not shadow anything sqlfluff imports
    sys.path[:] = [p for p in sys.path if os.path.abspath(p or ".") != here]
    sys.path.insert(0, src)
    out = {"format": FORMAT, "root": root, "fatal": None, "lookup": {}, "legacy": [], "dialects": {}, "timing": {}}
    t0 = time.time()
    try:
        import sqlfluff

        sf = os.path.abspath(sqlfluff.__file__)
        assert sf.startswith(src + os.sep), f"imported sqlfluff from {sf}, expected under {src}"
        out["sqlfluff_file"] = sf
        import sqlfluff.core.dialects as D
        from sqlfluff.core.dialects.base import Dialect
        from sqlfluff.core.parser.context import ParseContext
        from sqlfluff.core.parser.grammar import AnyNumberOf, Bracketed, Conditional, Delimited, Ref
        from sqlfluff.core.parser.grammar.base import BaseGrammar
        from sqlfluff.core.parser.lexer import RegexLexer, StringLexer
        from sqlfluff.core.parser.matchable import Matchable
        from sqlfluff.core.parser.parsers import BaseParser
        from sqlfluff.core.parser.segments import BaseSegment, Dedent, Indent, MetaSegment

        P = _NS()
        P.Dialect, P.ParseContext = Dialect, ParseContext
        P.AnyNumberOf, P.Bracketed, P.Conditional, P.Delimited, P.Ref = AnyNumberOf, Bracketed, Conditional, Delimited, Ref
        P.BaseGrammar, P.RegexLexer, P.StringLexer, P.Matchable = BaseGrammar, RegexLexer, StringLexer, Matchable
        P.BaseParser, P.BaseSegment, P.Dedent, P.Indent, P.MetaSegment = BaseParser, BaseSegment, Dedent, Indent, MetaSegment
        P.load_raw_dialect = D.load_raw_dialect
        lookup = dict(D._dialect_lookup)
        out["legacy"] = sorted(getattr(D, "_legacy_dialects", {}))
    except BaseException as e:  # noqa: BLE001
        if isinstance(e, (KeyboardInterrupt, SystemExit)):
            raise
        out["fatal"] = _err("core-import", e, root)
        return out
    out["timing"]["import_core_s"] = round(time.time() - t0, 3)
    for label, pair in lookup.items():
        try:
            module_name, obj_name = pair
        except Exception:
            out["dialects"][label] = {"label": label, "ok": False, "nodes": [], "library": {}, "sets": {}, "bracket_sets": {}, "lexer": [],
                                      "error": {"stage": "lookup", "type": "ValueError", "message": f"lookup entry is {pair!r}", "frame": None, "traceback": ""}}
            continue
        out["lookup"][label] = [module_name, obj_name]
        try:
            out["dialects"][label] = serialise_dialect(label, module_name, obj_name, root, P, want_simple)
        except BaseException as e:  # noqa: BLE001
            if isinstance(e, (KeyboardInterrupt, SystemExit)):
                raise
            out["dialects"][label] = {"label": label, "ok": False, "nodes": [], "library": {}, "sets": {}, "bracket_sets": {}, "lexer": [],
                                      "module_name": module_name, "object_name": obj_name, "error": _err("serialise", e, root)}
    out["kind_bases"] = dict(KIND_BASES)
    out["timing"]["total_s"] = round(time.time() - t0, 3)
    return out


def main(argv) -> int:
    if len(argv) < 3:
        print("usage: grammar_frontend.py <root> <out.pkl|out.json> [--no-simple]", file=sys.stderr)
        return 2
    root, dest = argv[1], argv[2]
    data = build(root, want_simple="--no-simple" not in argv[3:])
    tmp = dest + f".tmp{os.getpid()}"
    if dest.endswith(".json"):
        with open(tmp, "w") as fh:
            json.dump(data, fh)
    else:
        with open(tmp, "wb") as fh:
            pickle.dump(data, fh, protocol=4)
    os.replace(tmp, dest)
    n = sum(len(d.get("nodes", ())) for d in data["dialects"].values())
    print(f"grammar front-end: {len(data['dialects'])} dialects, {n} nodes, {data['timing'].get('total_s')} s"
          + (f", FATAL {data['fatal']['type']}" if data["fatal"] else ""))
    return 0


if __name__ == "__main__":
    sys.exit(main(sys.argv))
