"""Path-sensitive facts over the statement CFG (relevant-branch DNF dataflow).

Dominance alone cannot see gates expressed through a flag variable::

    should_fix = True
    if not fix_even_unparsable:
        _, n = result.count_tmp_prs_errors()
        if n > 0:
            should_fix = False
    if should_fix:
        SINK

Here no single branch dominates SINK; what holds is the disjunction
``fix_even_unparsable  or  not (n > 0)``.  This module computes, for every CFG
node, a set of *disjuncts*; each disjunct is a conjunction of propositional
formulas known to hold on the paths it summarises.  Formulas are built from the
tests of ``if``/``while`` statements, from assignments of boolean-valued
expressions to local names, and from *events* (calls the client wants to
remember, e.g. "the discard step ran on this result").

Leaves are propositional variables supplied by the client through
``atom(expr, stmt) -> name | None``; unknown leaves become opaque variables
named after their normalised text.  A formula is dropped from a disjunct as
soon as a local name it depends on is reassigned (sound weakening).

``implies(disjunct, goal)`` is decided by truth table.
"""

from __future__ import annotations

import ast
import itertools
from typing import Callable, Dict, FrozenSet, Iterable, List, Optional, Set, Tuple

from .cfg import CFG, Branch
from .index import norm

Formula = tuple  # ('var', name) | ('not', f) | ('and', f...) | ('or', f...) | ('iff', a, b) | ('const', bool)

MAX_DISJUNCTS = 48


def Var(n: str) -> Formula:
    return ("var", n)


def Not(f: Formula) -> Formula:
    if f[0] == "not":
        return f[1]
    if f[0] == "const":
        return ("const", not f[1])
    return ("not", f)


def And(*fs: Formula) -> Formula:
    return ("and",) + tuple(fs)


def Or(*fs: Formula) -> Formula:
    return ("or",) + tuple(fs)


def variables(f: Formula, out: Optional[Set[str]] = None) -> Set[str]:
    out = out if out is not None else set()
    if f[0] == "var":
        out.add(f[1])
    elif f[0] != "const":
        for x in f[1:]:
            variables(x, out)
    return out


def evaluate(f: Formula, env: Dict[str, bool]) -> bool:
    k = f[0]
    if k == "var":
        return env[f[1]]
    if k == "const":
        return f[1]
    if k == "not":
        return not evaluate(f[1], env)
    if k == "and":
        return all(evaluate(x, env) for x in f[1:])
    if k == "or":
        return any(evaluate(x, env) for x in f[1:])
    if k == "iff":
        return evaluate(f[1], env) == evaluate(f[2], env)
    raise ValueError(k)


def implies(facts: Iterable[Formula], goal: Formula, axioms: Iterable[Formula] = ()) -> bool:
    facts = list(facts) + list(axioms)
    vs: Set[str] = set()
    for f in facts:
        variables(f, vs)
    variables(goal, vs)
    names = sorted(vs)
    if len(names) > 16:
        # keep only facts sharing variables (transitively) with the goal
        rel = variables(goal)
        changed = True
        while changed:
            changed = False
            for f in facts:
                fv = variables(f)
                if fv & rel and not fv <= rel:
                    rel |= fv
                    changed = True
        facts = [f for f in facts if variables(f) & rel]
        names = sorted(rel)
        if len(names) > 18:
            return False
    for bits in itertools.product((False, True), repeat=len(names)):
        env = dict(zip(names, bits))
        if all(evaluate(f, env) for f in facts) and not evaluate(goal, env):
            return False
    return True


class Fact:
    __slots__ = ("formula", "deps")

    def __init__(self, formula: Formula, deps: FrozenSet[str]):
        self.formula = formula
        self.deps = deps

    def __eq__(self, o):
        return isinstance(o, Fact) and self.formula == o.formula and self.deps == o.deps

    def __hash__(self):
        return hash((self.formula, self.deps))

    def __repr__(self):
        return f"Fact({self.formula})"


class PathFacts:
    def __init__(
        self,
        cfg: CFG,
        atom: Optional[Callable[[ast.expr, object], Optional[str]]] = None,
        events: Optional[Callable[[object], List[Formula]]] = None,
        relevant: Optional[Callable[[Formula], bool]] = None,
    ):
        self.cfg = cfg
        self.atom = atom or (lambda e, s: None)
        self.events = events or (lambda s: [])
        self.relevant = relevant
        self._deps: Dict[str, FrozenSet[str]] = {}
        self.state: Dict[object, Set[FrozenSet[Fact]]] = {}
        self._solve()

    # -- translation ------------------------------------------------------
    def translate(self, e: ast.expr, stmt: object) -> Tuple[Formula, FrozenSet[str]]:
        if isinstance(e, ast.UnaryOp) and isinstance(e.op, ast.Not):
            f, d = self.translate(e.operand, stmt)
            return Not(f), d
        if isinstance(e, ast.BoolOp):
            parts = [self.translate(v, stmt) for v in e.values]
            deps = frozenset().union(*(d for _, d in parts))
            fs = [f for f, _ in parts]
            return (And(*fs) if isinstance(e.op, ast.And) else Or(*fs)), deps
        if isinstance(e, ast.Constant) and isinstance(e.value, bool):
            return ("const", e.value), frozenset()
        if isinstance(e, ast.Constant) and e.value is None:
            return ("const", False), frozenset()
        deps = frozenset(n.id for n in ast.walk(e) if isinstance(n, ast.Name))
        name = self.atom(e, stmt)
        if name is not None:
            neg = False
            if name.startswith("!"):
                neg, name = True, name[1:]
            f = Var(name)
            return (Not(f) if neg else f), deps
        if isinstance(e, ast.Name):
            return Var(f"name:{e.id}"), frozenset([e.id])
        if isinstance(e, ast.NamedExpr) and isinstance(e.target, ast.Name):
            return Var(f"name:{e.target.id}"), frozenset([e.target.id])
        return Var("opaque:" + norm(e)), deps

    # -- dataflow ----------------------------------------------------------
    def _prepare(self) -> None:
        """Pre-compute, per CFG node, the facts it adds and the names it kills,
        keeping only *relevant* facts: those built from client atoms and from
        flag-like locals (locals only ever assigned booleans / relevant tests).
        Facts mentioning opaque tests or ordinary locals cannot help to prove a
        goal over client atoms and are dropped (sound weakening); this is what
        keeps the disjunct sets small in long functions."""
        from .cfg import defs_of_stmt

        cfg = self.cfg
        raw_add: Dict[object, List[Fact]] = {}
        self._kill: Dict[object, Set[str]] = {}
        assigns: Dict[str, List[Optional[Fact]]] = {}
        for n in cfg.nodes:
            add: List[Fact] = []
            kill: Set[str] = set()
            if isinstance(n, Branch) and isinstance(n.stmt, (ast.If, ast.While)):
                f, d = self.translate(n.stmt.test, n.stmt)
                add.append(Fact(f if n.polarity else Not(f), d))
            elif isinstance(n, ast.stmt) or isinstance(n, Branch):
                for d in defs_of_stmt(n):
                    kill.add(d.name)
                    assigns.setdefault(d.name, [])
                if isinstance(n, (ast.Assign, ast.AnnAssign)) and getattr(n, "value", None) is not None:
                    tgts = n.targets if isinstance(n, ast.Assign) else [n.target]
                    if len(tgts) == 1 and isinstance(tgts[0], ast.Name):
                        v = tgts[0].id
                        f, d = self.translate(n.value, n)
                        if v not in d:
                            fact = Fact(("iff", Var(f"name:{v}"), f), d | frozenset([v]))
                            add.append(fact)
                            assigns[v].append(fact)
                        else:
                            assigns[v].append(None)
                    else:
                        for k in kill:
                            assigns[k].append(None)
                else:
                    for k in kill:
                        assigns[k].append(None)
                if isinstance(n, ast.stmt):
                    for f in self.events(n):
                        add.append(Fact(f, frozenset()))
            raw_add[n] = add
            self._kill[n] = kill
        for pname in getattr(cfg.reaching(), "params", {}):
            assigns.setdefault(pname, []).append(None) if pname in assigns else None

        def is_client(v: str) -> bool:
            return not v.startswith("name:") and not v.startswith("opaque:")

        flags = {k for k, fs in assigns.items() if fs and all(f is not None for f in fs) and k not in getattr(cfg.reaching(), "params", {})}
        changed = True
        while changed:
            changed = False
            for k in list(flags):
                for f in assigns[k]:
                    vs = variables(f.formula) - {f"name:{k}"}
                    if not all(is_client(v) or (v.startswith("name:") and v[5:] in flags) for v in vs):
                        flags.discard(k)
                        changed = True
                        break
        self.flags = flags

        def relevant(f: Formula) -> bool:
            return all(is_client(v) or (v.startswith("name:") and v[5:] in flags) for v in variables(f))

        self._add = {n: [x for x in fs if relevant(x.formula) and x.formula[0] != "const"] for n, fs in raw_add.items()}

    def _transfer(self, n: object, inp: Set[FrozenSet[Fact]]) -> Set[FrozenSet[Fact]]:
        add = self._add.get(n, [])
        kill = self._kill.get(n, set())
        if not add and not kill:
            return inp
        out: Set[FrozenSet[Fact]] = set()
        for dj in inp:
            kept = [f for f in dj if not (f.deps & kill)] if kill else list(dj)
            out.add(frozenset(kept + add))
        return out

    def _solve(self) -> None:
        cfg = self.cfg
        self._prepare()
        order = cfg._reachable()
        state: Dict[object, Set[FrozenSet[Fact]]] = {n: set() for n in order}
        outs: Dict[object, Set[FrozenSet[Fact]]] = {n: set() for n in order}
        outs[cfg.entry] = {frozenset()}
        state[cfg.entry] = {frozenset()}
        work = list(order)
        inw = set(work)
        rounds = 0
        while work:
            rounds += 1
            if rounds > 200000:
                break
            n = work.pop(0)
            inw.discard(n)
            if n is not cfg.entry:
                inp: Set[FrozenSet[Fact]] = set()
                for p in cfg.pred[n]:
                    inp |= outs.get(p, set())
                if len(inp) > MAX_DISJUNCTS:
                    # weaken: keep only facts common to all disjuncts
                    common = frozenset.intersection(*inp) if inp else frozenset()
                    inp = {common}
                state[n] = inp
                out = self._transfer(n, inp)
            else:
                out = outs[n]
            if out != outs[n] or n is cfg.entry and rounds == 1:
                outs[n] = out
                for m in cfg.succ[n]:
                    if m in state and m not in inw:
                        work.append(m)
                        inw.add(m)
        self.state = state
        self.outs = outs

    # -- queries -------------------------------------------------------------
    def disjuncts_at(self, node: object) -> List[List[Formula]]:
        """Facts on entry to ``node`` (one list of formulas per disjunct)."""
        return [[f.formula for f in dj] for dj in self.state.get(node, set())]

    def holds_at(self, node: object, goal: Formula, axioms: Iterable[Formula] = ()) -> Tuple[bool, Optional[List[Formula]]]:
        """Does ``goal`` hold on every path reaching ``node``?  Returns a
        counter-example disjunct when it does not."""
        djs = self.disjuncts_at(node)
        if not djs:
            return True, None  # unreachable
        for dj in djs:
            if not implies(dj, goal, axioms):
                return False, dj
        return True, None


def show(f: Formula) -> str:
    k = f[0]
    if k == "var":
        return f[1]
    if k == "const":
        return str(f[1])
    if k == "not":
        return f"not({show(f[1])})"
    if k == "iff":
        return f"({show(f[1])} <-> {show(f[2])})"
    sep = " and " if k == "and" else " or "
    return "(" + sep.join(show(x) for x in f[1:]) + ")"
