"""Statement-level control-flow graph, dominance, guards and reaching definitions.

DESIGN.md 2.3.  Hand-built over the statement kinds the repository uses.  Nodes
are ``ast.stmt`` objects, plus synthetic nodes:

* ``ENTRY`` / ``EXIT`` / ``RAISE_EXIT`` (function left by an uncaught raise),
* ``Branch(stmt, polarity)`` on every outgoing edge of ``if`` / ``while`` /
  ``for`` / ``except`` dispatch, so that *edge* dominance becomes node
  dominance ("this call only happens when the test was true").

Exceptional edges are conservative: every statement inside a ``try`` body has
an edge to every handler.  Over-approximating paths can only weaken dominance
claims (fewer guards are recognised), so a must-guard rule may become stricter
but never unsound.
"""

from __future__ import annotations

import ast
from typing import Dict, Iterable, Iterator, List, Optional, Sequence, Set, Tuple

from .index import FuncNode, AnalysisError, norm


class Synthetic:
    def __init__(self, label: str):
        self.label = label

    def __repr__(self) -> str:
        return f"<{self.label}>"


class Branch(Synthetic):
    """Edge node: ``stmt`` evaluated with outcome ``polarity``.

    For ``if``/``while``: the truth value of the test.  For ``for``: True = a
    further item exists.  For handlers: ``stmt`` is the ``ExceptHandler``.
    """

    def __init__(self, stmt: ast.AST, polarity: bool):
        super().__init__(f"branch:{getattr(stmt, 'lineno', 0)}:{polarity}")
        self.stmt = stmt
        self.polarity = polarity


class CFG:
    def __init__(self, func: ast.AST):
        if not isinstance(func, FuncNode + (ast.Module,)):
            raise AnalysisError("CFG needs a function definition")
        self.func = func
        self.entry = Synthetic("ENTRY")
        self.exit = Synthetic("EXIT")  # normal return
        self.raise_exit = Synthetic("RAISE_EXIT")
        self.succ: Dict[object, List[object]] = {}
        self.pred: Dict[object, List[object]] = {}
        self.nodes: List[object] = []
        self._add(self.entry)
        self._add(self.exit)
        self._add(self.raise_exit)
        # context stacks
        self._loops: List[Tuple[object, List[object]]] = []  # (head, break-targets collector)
        self._handlers: List[List[object]] = []  # innermost last: handler entry nodes
        self._finals: List[Tuple[object, object]] = []
        ends = self._block(func.body, [self.entry])
        for e in ends:
            self._edge(e, self.exit)
        self._dom: Optional[Dict[object, Set[object]]] = None
        self._pdom: Optional[Dict[object, Set[object]]] = None
        self._rd = None

    # -- construction ---------------------------------------------------
    def _add(self, n: object) -> None:
        if n not in self.succ:
            self.succ[n] = []
            self.pred[n] = []
            self.nodes.append(n)

    def _edge(self, a: object, b: object) -> None:
        self._add(a)
        self._add(b)
        if b not in self.succ[a]:
            self.succ[a].append(b)
            self.pred[b].append(a)

    def _exc_targets(self) -> List[object]:
        """Where an exception raised here may go (innermost try first)."""
        if self._handlers:
            return self._handlers[-1]
        return [self.raise_exit]

    def _block(self, stmts: Sequence[ast.stmt], preds: List[object]) -> List[object]:
        cur = preds
        for s in stmts:
            cur = self._stmt(s, cur)
        return cur

    def _stmt(self, s: ast.stmt, preds: List[object]) -> List[object]:
        self._add(s)
        for p in preds:
            self._edge(p, s)
        # any statement may raise
        if not isinstance(s, (ast.Pass, ast.Break, ast.Continue)):
            for t in self._exc_targets():
                self._edge(s, t)
        if isinstance(s, ast.If):
            bt, bf = Branch(s, True), Branch(s, False)
            self._edge(s, bt)
            self._edge(s, bf)
            e1 = self._block(s.body, [bt])
            e2 = self._block(s.orelse, [bf]) if s.orelse else [bf]
            return e1 + e2
        if isinstance(s, (ast.While, ast.For, ast.AsyncFor)):
            bt, bf = Branch(s, True), Branch(s, False)
            self._edge(s, bt)
            always = isinstance(s, ast.While) and _const_true(s.test)
            if not always:
                self._edge(s, bf)
            else:
                self._add(bf)
            breaks: List[object] = []
            self._loops.append((s, breaks))
            ends = self._block(s.body, [bt])
            self._loops.pop()
            for e in ends:
                self._edge(e, s)
            after = self._block(s.orelse, [bf]) if s.orelse else ([bf] if not always else [])
            return after + breaks
        if isinstance(s, ast.Break):
            if self._loops:
                self._loops[-1][1].append(s)
            return []
        if isinstance(s, ast.Continue):
            if self._loops:
                self._edge(s, self._loops[-1][0])
            return []
        if isinstance(s, ast.Return):
            if self._finals:
                self._edge(s, self._finals[-1][0])
            else:
                self._edge(s, self.exit)
            return []
        if isinstance(s, ast.Raise):
            return []
        if isinstance(s, (ast.With, ast.AsyncWith)):
            return self._block(s.body, [s])
        if isinstance(s, ast.Try) or s.__class__.__name__ == "TryStar":
            return self._try(s, preds)
        if isinstance(s, ast.Match):
            ends: List[object] = []
            exhaustive = False
            for case in s.cases:
                b = Branch(case, True)
                self._edge(s, b)
                ends += self._block(case.body, [b])
                if isinstance(case.pattern, ast.MatchAs) and case.pattern.pattern is None and case.guard is None:
                    exhaustive = True
            if not exhaustive:
                ends.append(s)
            return ends
        return [s]

    def _try(self, s, preds: List[object]) -> List[object]:
        handler_entries: List[object] = []
        for h in s.handlers:
            hb = Branch(h, True)
            self._add(hb)
            handler_entries.append(hb)
        final_entry: Optional[Synthetic] = None
        if s.finalbody:
            final_entry = Synthetic(f"finally:{s.lineno}")
            self._add(final_entry)
        # exceptions in the body go to the handlers; if no handler catches
        # everything they may also propagate (through finally).
        outer = self._exc_targets()
        catch_all = any(_catches_everything(h) for h in s.handlers)
        body_targets = list(handler_entries)
        if not catch_all:
            body_targets += [final_entry] if final_entry else outer
        self._handlers.append(body_targets)
        if final_entry:
            self._finals.append((final_entry, s))
        body_ends = self._block(s.body, [s])
        self._handlers.pop()
        # else-clause and handlers: exceptions go outward (through finally)
        self._handlers.append([final_entry] if final_entry else outer)
        else_ends = self._block(s.orelse, body_ends) if s.orelse else body_ends
        h_ends: List[object] = []
        for h, hb in zip(s.handlers, handler_entries):
            h_ends += self._block(h.body, [hb])
        self._handlers.pop()
        if final_entry:
            self._finals.pop()
        ends = else_ends + h_ends
        if final_entry:
            for e in ends:
                self._edge(e, final_entry)
            f_ends = self._block(s.finalbody, [final_entry])
            # after finally: continue normally, or continue the pending exit
            for e in f_ends:
                for t in outer:
                    self._edge(e, t)
                if self._finals:
                    self._edge(e, self._finals[-1][0])
                else:
                    self._edge(e, self.exit)
            return f_ends
        return ends

    # -- dominance ------------------------------------------------------
    def _reachable(self) -> List[object]:
        seen, order, stack = {self.entry}, [], [self.entry]
        while stack:
            n = stack.pop()
            order.append(n)
            for m in self.succ[n]:
                if m not in seen:
                    seen.add(m)
                    stack.append(m)
        return order

    def dominators(self) -> Dict[object, Set[object]]:
        if self._dom is None:
            nodes = self._reachable()
            full = set(nodes)
            dom = {n: set(full) for n in nodes}
            dom[self.entry] = {self.entry}
            changed = True
            while changed:
                changed = False
                for n in nodes:
                    if n is self.entry:
                        continue
                    ps = [p for p in self.pred[n] if p in dom]
                    new = set.intersection(*(dom[p] for p in ps)) if ps else set()
                    new = new | {n}
                    if new != dom[n]:
                        dom[n] = new
                        changed = True
            self._dom = dom
        return self._dom

    def reachable(self, n: object) -> bool:
        return n in self.dominators()

    def dominates(self, a: object, b: object) -> bool:
        d = self.dominators()
        return b in d and a in d[b]

    def guards(self, n: object) -> List[Branch]:
        """Branch nodes that dominate ``n`` (conditions known on every path to n)."""
        d = self.dominators()
        if n not in d:
            return []
        return [x for x in d[n] if isinstance(x, Branch)]

    def conditions(self, n: object) -> List[Tuple[ast.expr, bool]]:
        """Atomic (expression, truth) facts implied by the guards of ``n``.

        ``if a and b`` on the true edge gives (a, True), (b, True); ``if a or b``
        on the false edge gives (a, False), (b, False); ``not x`` flips.
        """
        out: List[Tuple[ast.expr, bool]] = []
        for g in self.guards(n):
            if isinstance(g.stmt, (ast.If, ast.While)):
                out += atoms(g.stmt.test, g.polarity)
        return out

    def stmt_of(self, node: ast.AST) -> Optional[ast.stmt]:
        """The CFG statement node that contains expression ``node``."""
        p = node
        while p is not None and p not in self.succ:
            p = getattr(p, "_parent", None)
        return p  # type: ignore[return-value]

    def paths_avoiding(self, start: object, goal: object, avoid) -> bool:
        """Is there a path start->goal that passes no node for which avoid(n)?"""
        seen, stack = {start}, [start]
        while stack:
            n = stack.pop()
            if n is goal:
                return True
            for m in self.succ[n]:
                if m in seen:
                    continue
                if m is not goal and avoid(m):
                    continue
                seen.add(m)
                stack.append(m)
        return False

    def reaches(self, a: object, b: object) -> bool:
        return self.paths_avoiding(a, b, lambda n: False)

    # -- reaching definitions ------------------------------------------
    def reaching(self) -> "ReachingDefs":
        if self._rd is None:
            self._rd = ReachingDefs(self)
        return self._rd


def _const_true(e: ast.expr) -> bool:
    return isinstance(e, ast.Constant) and bool(e.value) is True


def _catches_everything(h: ast.ExceptHandler) -> bool:
    if h.type is None:
        return True
    names = [h.type] if not isinstance(h.type, ast.Tuple) else list(h.type.elts)
    return any(norm(n) in ("BaseException",) for n in names)


def atoms(test: ast.expr, polarity: bool) -> List[Tuple[ast.expr, bool]]:
    if isinstance(test, ast.UnaryOp) and isinstance(test.op, ast.Not):
        return atoms(test.operand, not polarity)
    if isinstance(test, ast.BoolOp):
        if isinstance(test.op, ast.And) and polarity:
            return [a for v in test.values for a in atoms(v, True)]
        if isinstance(test.op, ast.Or) and not polarity:
            return [a for v in test.values for a in atoms(v, False)]
        return [(test, polarity)]
    return [(test, polarity)]


# ---------------------------------------------------------------------------
# Reaching definitions over local names
# ---------------------------------------------------------------------------


class Def:
    """One definition of a local name.

    kind: 'assign' (value = rhs expr, path = tuple index path into the rhs),
    'aug', 'for' (value = iterable), 'with' (value = context expr), 'param',
    'except', 'import', 'walrus', 'comp', 'def'.
    """

    __slots__ = ("name", "node", "kind", "value", "path", "stmt")

    def __init__(self, name, node, kind, value=None, path=(), stmt=None):
        self.name = name
        self.node = node
        self.kind = kind
        self.value = value
        self.path = path
        self.stmt = stmt

    def __repr__(self):
        return f"Def({self.name}, {self.kind}, L{getattr(self.stmt, 'lineno', '?')})"


def _targets(t: ast.expr, path=()) -> Iterator[Tuple[str, tuple, ast.expr]]:
    if isinstance(t, ast.Name):
        yield t.id, path, t
    elif isinstance(t, (ast.Tuple, ast.List)):
        for i, e in enumerate(t.elts):
            if isinstance(e, ast.Starred):
                yield from _targets(e.value, path + ("*",))
            else:
                yield from _targets(e, path + (i,))


def defs_of_stmt(s: object) -> List[Def]:
    out: List[Def] = []
    if isinstance(s, ast.Assign):
        for t in s.targets:
            for name, path, node in _targets(t):
                out.append(Def(name, node, "assign", s.value, path, s))
    elif isinstance(s, ast.AnnAssign):
        if s.value is not None:
            for name, path, node in _targets(s.target):
                out.append(Def(name, node, "assign", s.value, path, s))
    elif isinstance(s, ast.AugAssign):
        for name, path, node in _targets(s.target):
            out.append(Def(name, node, "aug", s.value, path, s))
    elif isinstance(s, (ast.For, ast.AsyncFor)):
        for name, path, node in _targets(s.target):
            out.append(Def(name, node, "for", s.iter, path, s))
    elif isinstance(s, (ast.With, ast.AsyncWith)):
        for item in s.items:
            if item.optional_vars is not None:
                for name, path, node in _targets(item.optional_vars):
                    out.append(Def(name, node, "with", item.context_expr, path, s))
    elif isinstance(s, (ast.Import, ast.ImportFrom)):
        for a in s.names:
            out.append(Def(a.asname or a.name.split(".")[0], s, "import", None, (), s))
    elif isinstance(s, FuncNode + (ast.ClassDef,)):
        out.append(Def(s.name, s, "def", None, (), s))
    elif isinstance(s, Branch) and isinstance(s.stmt, ast.ExceptHandler):
        if s.stmt.name:
            out.append(Def(s.stmt.name, s.stmt, "except", s.stmt.type, (), s.stmt))
    # walrus anywhere inside the statement's own expressions
    if isinstance(s, ast.stmt):
        for n in _own_exprs(s):
            for w in ast.walk(n):
                if isinstance(w, ast.NamedExpr) and isinstance(w.target, ast.Name):
                    out.append(Def(w.target.id, w.target, "walrus", w.value, (), s))
    return out


def _own_exprs(s: ast.stmt) -> List[ast.AST]:
    """Expressions evaluated by the statement node itself (not its sub-blocks)."""
    if isinstance(s, (ast.If, ast.While)):
        return [s.test]
    if isinstance(s, (ast.For, ast.AsyncFor)):
        return [s.iter]
    if isinstance(s, (ast.With, ast.AsyncWith)):
        return [i.context_expr for i in s.items]
    if isinstance(s, ast.Try) or s.__class__.__name__ == "TryStar":
        return []
    if isinstance(s, FuncNode + (ast.ClassDef,)):
        return list(s.decorator_list)
    if isinstance(s, ast.Match):
        return [s.subject]
    return [s]


def own_exprs(s: ast.stmt) -> List[ast.AST]:
    return _own_exprs(s)


class ReachingDefs:
    def __init__(self, cfg: CFG):
        self.cfg = cfg
        func = cfg.func
        self.params: Dict[str, Def] = {}
        if isinstance(func, FuncNode):
            a = func.args
            for arg in a.posonlyargs + a.args + a.kwonlyargs + (
                [a.vararg] if a.vararg else []
            ) + ([a.kwarg] if a.kwarg else []):
                self.params[arg.arg] = Def(arg.arg, arg, "param", None, (), None)
        gen: Dict[object, List[Def]] = {}
        for n in cfg.nodes:
            gen[n] = defs_of_stmt(n)
        self.gen = gen
        IN: Dict[object, Dict[str, Set[Def]]] = {n: {} for n in cfg.nodes}
        OUT: Dict[object, Dict[str, Set[Def]]] = {n: {} for n in cfg.nodes}
        OUT[cfg.entry] = {k: {d} for k, d in self.params.items()}
        work = list(cfg._reachable())
        inwork = set(work)
        while work:
            n = work.pop(0)
            inwork.discard(n)
            if n is not cfg.entry:
                merged: Dict[str, Set[Def]] = {}
                for p in cfg.pred[n]:
                    for k, ds in OUT[p].items():
                        merged.setdefault(k, set()).update(ds)
                IN[n] = merged
                out = {k: set(v) for k, v in merged.items()}
                for d in gen[n]:
                    if d.kind == "aug":
                        out.setdefault(d.name, set()).add(d)  # keeps earlier defs too
                    else:
                        out[d.name] = {d}
                # several defs of the same name in one stmt (tuple targets): keep all
                names = {}
                for d in gen[n]:
                    names.setdefault(d.name, []).append(d)
                for k, ds in names.items():
                    if len(ds) > 1 and all(x.kind != "aug" for x in ds):
                        out[k] = set(ds)
            else:
                out = OUT[n]
            if out != OUT[n] or n is cfg.entry:
                OUT[n] = out
                for m in cfg.succ[n]:
                    if m not in inwork:
                        work.append(m)
                        inwork.add(m)
        self.IN = IN
        self.OUT = OUT

    def defs_at(self, stmt: object, name: str) -> Set[Def]:
        """Definitions of ``name`` that reach the start of ``stmt``."""
        return self.IN.get(stmt, {}).get(name, set())

    def defs_for_use(self, use: ast.Name) -> Set[Def]:
        s = self.cfg.stmt_of(use)
        if s is None:
            return set()
        return self.defs_at(s, use.id)


# ---------------------------------------------------------------------------
# Origins: expand a value expression through local definitions
# ---------------------------------------------------------------------------


class Origin:
    """A leaf of the origin expansion: an expression that is not a plain local
    name (or a parameter), with the tuple path selected from it."""

    __slots__ = ("expr", "path", "kind", "stmt")

    def __init__(self, expr, path=(), kind="expr", stmt=None):
        self.expr = expr
        self.path = path
        self.kind = kind  # 'expr' | 'param' | 'for' | 'with' | 'except' | 'unknown' | 'aug'
        self.stmt = stmt

    def text(self) -> str:
        t = norm(self.expr) if isinstance(self.expr, ast.AST) else str(self.expr)
        if self.path:
            t += "".join(f"[{p}]" for p in self.path)
        return f"{self.kind}:{t}"

    def __repr__(self):
        return f"Origin({self.text()})"


def origins(cfg: CFG, expr: ast.expr, at: Optional[object] = None, _seen=None, _path=()) -> List[Origin]:
    """Where may the value of ``expr`` (evaluated at statement ``at``) come from?

    Plain local names are expanded through reaching definitions (transitively);
    tuple unpacking is followed by position when the right-hand side is a tuple
    display; everything else is a leaf.
    """
    rd = cfg.reaching()
    if at is None:
        at = cfg.stmt_of(expr)
    _seen = _seen if _seen is not None else set()
    out: List[Origin] = []
    if isinstance(expr, ast.Name):
        ds = rd.defs_at(at, expr.id) if at is not None else set()
        if not ds:
            return [Origin(expr, _path, "unknown", at)]
        for d in sorted(ds, key=lambda d: getattr(d.stmt, "lineno", 0)):
            key = (id(d.node), _path)
            if key in _seen:
                continue
            _seen.add(key)
            if d.kind == "param":
                out.append(Origin(d.node, _path, "param", None))
            elif d.kind in ("assign", "walrus"):
                val, path = d.value, d.path + _path
                # descend tuple displays by position
                while path and isinstance(val, (ast.Tuple, ast.List)) and isinstance(path[0], int) and path[0] < len(val.elts):
                    val, path = val.elts[path[0]], path[1:]
                if isinstance(val, ast.Name):
                    out += origins(cfg, val, d.stmt, _seen, path)
                elif isinstance(val, ast.IfExp) and not path:
                    for br in (val.body, val.orelse):
                        if isinstance(br, ast.Name):
                            out += origins(cfg, br, d.stmt, _seen, path)
                        else:
                            out.append(Origin(br, path, "expr", d.stmt))
                else:
                    out.append(Origin(val, path, "expr", d.stmt))
            elif d.kind == "aug":
                out.append(Origin(d.value, d.path + _path, "aug", d.stmt))
            elif d.kind in ("for", "with", "except"):
                out.append(Origin(d.value, d.path + _path, d.kind, d.stmt))
            else:
                out.append(Origin(d.node, _path, d.kind, d.stmt))
        return out
    return [Origin(expr, _path, "expr", at)]


def names_in(expr: ast.AST) -> Set[str]:
    return {n.id for n in ast.walk(expr) if isinstance(n, ast.Name)}


def cfg_of(func: ast.AST) -> CFG:
    c = getattr(func, "_cfg", None)
    if c is None:
        c = CFG(func)
        func._cfg = c  # type: ignore[attr-defined]
    return c
