"""Static-analysis engine for the sqlfluff property checks (see /verif/DESIGN.md)."""
