"""Loader and graph helpers for the serialised dialect grammars (DESIGN.md 2.7).

``load_grammar(repo)`` runs ``sa/grammar_frontend.py`` in a sub-process on
``repo.root`` (cached in ``/verif/.cache/grammar-<repo.digest>.pkl``) and returns a
:class:`Grammar` – a ``dict`` ``label -> DialectGraph``.

Serialisation format (``FORMAT`` of the front-end; everything is plain data)
---------------------------------------------------------------------------
top level::

    {"format", "root", "fatal": None | err, "lookup": {label: [module, object]},
     "legacy": [labels], "dialects": {label: dialect record}, "timing": {...},
     "kind_bases": {kind: [core base class names, MRO order]}}   # e.g. OptionallyBracketed -> [.., OneOf, AnyNumberOf, BaseGrammar, Matchable]

dialect record::

    {"label", "ok", "error": None | err, "module_name", "object_name", "module" (rel path),
     "name", "inherits_from", "root_segment_name", "root": node id | None,
     "nodes": [node, ...]            # list index == node id
     "library": {library name: node id},
     "sets": {set label: sorted [str]}            # keyword sets and other string sets
     "bracket_sets": {label: [[bracket_type, start_ref, end_ref, persists], ...]},
     "lexer": [matcher record, ...]                # in matching order
     "stats": {...}}

``err`` = ``{"stage": import|expose|load|expand|root|serialise|lookup, "type", "message",
"frame": {"file", "line", "func", "text"} (innermost frame inside the analysed tree),
"traceback"}``.

node (sparse dict; absent key == default from :data:`DEFAULTS`)::

    id, kind, family ("segment" | "grammar" | "parser" | "matcher" | "other"), cls
    segment classes (kind "segment" / "meta"): name, type, module, line, bases (MRO names),
        match_grammar (node id), class_types, own_match, can_start_end_non_code, allow_empty;
        meta only: indent_val, is_implicit, is_indent, is_dedent
    grammars (kind = core grammar class: Ref, Sequence, OneOf, AnyNumberOf, AnySetOf, Delimited,
        OptionallyDelimited, Bracketed, OptionallyBracketed, Conditional, Anything, Nothing):
        elements [ids], terminators [ids], exclude (id), optional, is_optional (value of
        is_optional()), allow_gaps, reset_terminators, parse_mode (name), ref (Ref target name),
        min_times, max_times, max_times_per_element, delimiter (id), allow_trailing,
        min_delimiters, optional_delimiter, bracket_pairs_set, bracket_type, start_bracket (id),
        end_bracket (id), cond_meta (id of the Indent/Dedent class), config_type, config_rules
    parsers (StringParser, MultiStringParser, TypedParser, RegexParser): template | templates,
        anti_template, ignore_case, raw_class, raw_class_type, instance_types, optional,
        trim_chars, casefold
    other matchers (PrecededByMatcher, NonCodeMatcher ...): attrs, bases, is_optional
    every node: ``simple``: None | ([raws], [types])  or ``simple_error``: "Type: message"

lexer matcher record::

    {"name", "kind" ("RegexLexer" | "StringLexer" | class name), "cls", "template",
     "segment_class", "segment_type", "segment_is_meta", "segment_kwargs",
     "subdivider": record | None, "trim_post_subdivide": record | None}
"""

from __future__ import annotations

import os
import pickle
import subprocess
import sys
import tempfile
import time
from collections import deque
from typing import Dict, Iterator, List, Optional, Tuple

from .index import AnalysisError

VERIF = os.path.dirname(os.path.dirname(os.path.abspath(__file__)))
CACHE_DIR = os.path.join(VERIF, ".cache")
FRONTEND = os.path.join(os.path.dirname(os.path.abspath(__file__)), "grammar_frontend.py")
EXPECTED_FORMAT = 3
KEEP_CACHE_FILES = 4

DEFAULTS = {
    "elements": (),
    "terminators": (),
    "exclude": None,
    "optional": False,
    "is_optional": False,
    "allow_gaps": True,
    "reset_terminators": False,
    "parse_mode": "STRICT",
    "ref": None,
    "match_grammar": None,
    "delimiter": None,
    "start_bracket": None,
    "end_bracket": None,
    "cond_meta": None,
    "indent_val": 0,
    "own_match": False,
    "max_times_per_element": None,
}

# structural edges: the child object is *part of* the parent object
SINGLE_EDGES = ("match_grammar", "exclude", "delimiter", "start_bracket", "end_bracket", "cond_meta")
LIST_EDGES = ("elements", "terminators")
LEGAL_BRACKET_SETS = ("bracket_pairs", "angle_bracket_pairs")
KW_SUFFIX = "KeywordSegment"


def field(node: dict, key: str):
    """Field of a node with the serialisation default."""
    if key in node:
        return node[key]
    return DEFAULTS.get(key)


def keyword_of(ref_name: str) -> Optional[str]:
    """'FormatsKeywordSegment' -> 'FORMATS' (None when not a keyword reference)."""
    if ref_name.endswith(KW_SUFFIX) and len(ref_name) > len(KW_SUFFIX):
        return ref_name[: -len(KW_SUFFIX)].upper()
    return None


class DialectGraph:
    """Resolved grammar of one dialect."""

    def __init__(self, rec: dict):
        self.rec = rec
        self.label: str = rec["label"]
        self.ok: bool = bool(rec.get("ok"))
        self.error = rec.get("error")
        self.nodes: List[dict] = rec.get("nodes") or []
        self.library: Dict[str, int] = rec.get("library") or {}
        self.root: Optional[int] = rec.get("root")
        self.sets: Dict[str, list] = rec.get("sets") or {}
        self.bracket_sets: Dict[str, list] = rec.get("bracket_sets") or {}
        self.lexer: List[dict] = rec.get("lexer") or []
        self.name = rec.get("name")
        self.inherits_from = rec.get("inherits_from")
        self.module = rec.get("module")
        self.module_name = rec.get("module_name")
        self.object_name = rec.get("object_name")
        self.root_segment_name = rec.get("root_segment_name")
        self._names: Optional[Dict[int, List[str]]] = None
        self._parents: Optional[Dict[int, List[Tuple[str, int]]]] = None
        self._reach = None

    # -- basic access ------------------------------------------------------
    def node(self, i: int) -> dict:
        return self.nodes[i]

    def iter_nodes(self, kind: Optional[str] = None, family: Optional[str] = None) -> Iterator[dict]:
        for n in self.nodes:
            if kind is not None and n["kind"] != kind:
                continue
            if family is not None and n.get("family") != family:
                continue
            yield n

    def library_names(self) -> Dict[int, List[str]]:
        """node id -> library names bound to it."""
        if self._names is None:
            d: Dict[int, List[str]] = {}
            for name, i in self.library.items():
                d.setdefault(i, []).append(name)
            self._names = d
        return self._names

    def display(self, i: int) -> str:
        n = self.nodes[i]
        if n.get("family") == "segment":
            return n["name"]
        names = self.library_names().get(i)
        if names:
            return names[0]
        if n["kind"] == "Ref":
            return f"Ref({n['ref']!r})"
        if "template" in n:
            return f"{n['kind']}({n['template']!r})"
        return f"{n['kind']}#{i}"

    def is_named(self, i: int) -> bool:
        return self.nodes[i].get("family") == "segment" or i in self.library_names()

    # -- edges ---------------------------------------------------------------
    def structural(self, i: int) -> Iterator[Tuple[str, int]]:
        """(edge label, child id) for the objects that are part of node ``i``."""
        n = self.nodes[i]
        for k in LIST_EDGES:
            v = n.get(k)
            if v:
                for j, c in enumerate(v):
                    yield f"{k}[{j}]", c
        for k in SINGLE_EDGES:
            c = n.get(k)
            if c is not None:
                yield k, c

    def ref_target(self, i: int) -> Optional[int]:
        """Library node a ``Ref`` resolves to (None when dangling or not a Ref)."""
        r = self.nodes[i].get("ref")
        if r is None:
            return None
        return self.library.get(r)

    def bracket_entry(self, i: int):
        """The [type, start_ref, end_ref, persists] record selected by a Bracketed node."""
        n = self.nodes[i]
        bt = n.get("bracket_type")
        if bt is None:
            return None
        for ent in self.bracket_sets.get(n.get("bracket_pairs_set", "bracket_pairs"), ()):
            if ent[0] == bt:
                return ent
        return None

    def lookups(self, i: int) -> Iterator[Tuple[str, int]]:
        """(edge label, library node id) for run-time library look-ups made by node ``i``."""
        n = self.nodes[i]
        if n["kind"] == "Ref" or "ref" in n:
            t = self.library.get(n["ref"])
            if t is not None:
                yield "ref", t
        if "bracket_type" in n:
            ent = self.bracket_entry(i)
            if ent:
                for lab, r in (("start_bracket_ref", ent[1]), ("end_bracket_ref", ent[2])):
                    t = self.library.get(r)
                    if t is not None:
                        yield lab, t

    def successors(self, i: int) -> Iterator[Tuple[str, int, int]]:
        """(edge label, child id, weight): structural edges weigh 0, look-ups weigh 1."""
        for lab, c in self.structural(i):
            yield lab, c, 0
        for lab, c in self.lookups(i):
            yield lab, c, 1

    def parents(self) -> Dict[int, List[Tuple[str, int]]]:
        """Reverse *structural* edges: child id -> [(edge label, parent id)]."""
        if self._parents is None:
            p: Dict[int, List[Tuple[str, int]]] = {}
            for n in self.nodes:
                for lab, c in self.structural(n["id"]):
                    p.setdefault(c, []).append((lab, n["id"]))
            self._parents = p
        return self._parents

    # -- reachability ----------------------------------------------------------
    def reach(self) -> Dict[int, Tuple[int, Optional[int], str]]:
        """Nodes reachable from the root: id -> (named hops, predecessor id, edge label).

        0-1 breadth-first search, so the predecessor chain is a shortest reference chain
        (fewest library look-ups) from the root.
        """
        if self._reach is not None:
            return self._reach
        out: Dict[int, Tuple[int, Optional[int], str]] = {}
        if self.root is None:
            self._reach = out
            return out
        dq = deque([self.root])
        out[self.root] = (0, None, "root")
        done = set()
        while dq:
            i = dq.popleft()
            if i in done:
                continue
            done.add(i)
            d = out[i][0]
            for lab, c, w in self.successors(i):
                nd = d + w
                if c not in out or nd < out[c][0]:
                    out[c] = (nd, i, lab)
                    if w == 0:
                        dq.appendleft(c)
                    else:
                        dq.append(c)
        self._reach = out
        return out

    def path(self, i: int) -> List[Tuple[int, str]]:
        """[(node id, edge label by which it was entered)] from the root to ``i``."""
        r = self.reach()
        if i not in r:
            return []
        out = []
        cur: Optional[int] = i
        while cur is not None:
            _, pred, lab = r[cur]
            out.append((cur, lab))
            cur = pred
        out.reverse()
        return out

    def chain(self, i: int) -> List[str]:
        """Shortest reference chain root -> ``i`` as names (segment classes and library names)."""
        names: List[str] = []
        for nid, lab in self.path(i):
            n = self.nodes[nid]
            if n.get("family") == "segment":
                nm = n["name"]
            elif lab in ("ref", "start_bracket_ref", "end_bracket_ref") and self.library_names().get(nid):
                nm = self.library_names()[nid][0]
            else:
                continue
            if not names or names[-1] != nm:
                names.append(nm)
        return names

    def owners(self, i: int) -> List[int]:
        """Nearest *named* structural ancestors of ``i`` (segment classes / library entries).

        A grammar object can be part of more than one named construct (shared objects);
        all of them are returned, sorted by display name, so that a report does not depend
        on traversal order.
        """
        if self.is_named(i):
            return [i]
        par = self.parents()
        seen = {i}
        stack = [i]
        found = set()
        while stack:
            cur = stack.pop()
            for _, p in par.get(cur, ()):
                if p in seen:
                    continue
                seen.add(p)
                if self.is_named(p):
                    found.add(p)
                else:
                    stack.append(p)
        return sorted(found, key=lambda x: (self.display(x), x))

    def all_lexers(self) -> Iterator[Tuple[dict, str]]:
        """Every lexer matcher record incl. nested sub-dividers: (record, role)."""
        def go(m, role):
            yield m, role
            for k in ("subdivider", "trim_post_subdivide"):
                if m.get(k):
                    yield from go(m[k], f"{role}.{k}")
        for m in self.lexer:
            yield from go(m, "top")


class Grammar(dict):
    """label -> DialectGraph, plus the front-end's bookkeeping."""

    def __init__(self, data: dict):
        super().__init__()
        self.data = data
        self.lookup: Dict[str, List[str]] = data.get("lookup") or {}
        self.legacy = data.get("legacy") or []
        self.timing = data.get("timing") or {}
        self.kind_bases: Dict[str, List[str]] = data.get("kind_bases") or {}
        self.from_cache = False
        for label, rec in (data.get("dialects") or {}).items():
            rec.setdefault("label", label)
            self[label] = DialectGraph(rec)

    def kind_is(self, kind: str, base: str) -> bool:
        """Is grammar/parser kind ``kind`` a (sub)class of core class ``base``?"""
        return kind == base or base in self.kind_bases.get(kind, ())

    @property
    def n_nodes(self) -> int:
        return sum(len(d.nodes) for d in self.values())


def _python() -> str:
    return "/venv/bin/python" if os.path.exists("/venv/bin/python") else sys.executable


def _is_scratch(root: str) -> bool:
    tmp = os.path.realpath(tempfile.gettempdir())
    return os.path.realpath(root).startswith(tmp + os.sep)


def run_frontend(root: str, dest: str, *, timeout: int = 600) -> None:
    env = dict(os.environ)
    env.pop("PYTHONPATH", None)
    if _is_scratch(root):
        env["PYTHONDONTWRITEBYTECODE"] = "1"
    else:
        # byte code of the analysed tree goes under /verif/.cache, never into the tree
        env.pop("PYTHONDONTWRITEBYTECODE", None)
        env["PYTHONPYCACHEPREFIX"] = os.path.join(CACHE_DIR, "pyc")
    env["SQLFLUFF_VERIF"] = "frontend"
    try:
        p = subprocess.run(
            [_python(), FRONTEND, root, dest], env=env, cwd=tempfile.gettempdir(),
            stdout=subprocess.PIPE, stderr=subprocess.STDOUT, text=True, timeout=timeout,
        )
    except subprocess.TimeoutExpired:
        raise AnalysisError(f"grammar front-end timed out after {timeout}s")
    if p.returncode != 0 or not os.path.exists(dest):
        tail = "\n".join((p.stdout or "").strip().splitlines()[-15:])
        raise AnalysisError(f"grammar front-end failed (exit {p.returncode}):\n{tail}")


def _prune_cache() -> None:
    try:
        files = [os.path.join(CACHE_DIR, f) for f in os.listdir(CACHE_DIR) if f.startswith("grammar-") and f.endswith(".pkl")]
        files.sort(key=lambda f: os.path.getmtime(f), reverse=True)
        for f in files[KEEP_CACHE_FILES:]:
            os.remove(f)
    except OSError:
        pass


_MEMO: Dict[str, "Grammar"] = {}


def load_grammar(repo, *, cache: bool = True, rebuild: bool = False) -> Grammar:
    """Serialised grammars of all dialects of ``repo`` (front-end run or cache hit).

    ``cache=False``: do not keep the result on disk (self-test scratch copies).
    ``rebuild=True``: ignore an existing cache entry (thorough tier).
    """
    if getattr(repo, "overlay", None):
        raise AnalysisError(
            "the grammar front-end imports the tree from disk; an overlay repo cannot be used "
            "(rules modules that need it set SELFTEST_NEEDS_FILES = True)"
        )
    key = repo.digest
    if key in _MEMO and not rebuild:
        return _MEMO[key]
    os.makedirs(CACHE_DIR, exist_ok=True)
    if _is_scratch(repo.root):
        cache = False
    path = os.path.join(CACHE_DIR, f"grammar-{key[:32]}.pkl")
    data = None
    from_cache = False
    if cache and not rebuild and os.path.exists(path):
        try:
            with open(path, "rb") as fh:
                data = pickle.load(fh)
            if data.get("format") != EXPECTED_FORMAT or os.path.abspath(data.get("root", "")) != os.path.abspath(repo.root):
                data = None
            else:
                from_cache = True
        except Exception:
            data = None
    if data is None:
        t0 = time.time()
        dest = path if cache else os.path.join(tempfile.gettempdir(), f"verif-grammar-{os.getpid()}-{key[:12]}.pkl")
        try:
            run_frontend(repo.root, dest)
            with open(dest, "rb") as fh:
                data = pickle.load(fh)
        finally:
            if not cache and os.path.exists(dest):
                os.remove(dest)
        data.setdefault("timing", {})["frontend_wall_s"] = round(time.time() - t0, 2)
        if cache:
            _prune_cache()
    if data.get("format") != EXPECTED_FORMAT:
        raise AnalysisError(f"grammar serialisation format {data.get('format')} != {EXPECTED_FORMAT}")
    if data.get("fatal"):
        f = data["fatal"]
        fr = f.get("frame") or {}
        raise AnalysisError(
            f"grammar front-end could not import the parser core: {f['type']}: {f['message']} "
            f"at {fr.get('file')}:{fr.get('line')}"
        )
    g = Grammar(data)
    g.from_cache = from_cache
    _MEMO[key] = g
    return g
