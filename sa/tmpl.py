"""Helpers shared by the templater checkers (C08, C09).

Everything sits on ``sa.index`` / ``sa.cfg`` / ``sa.flow`` / ``sa.rx``; nothing is
matched on names of locals or on line numbers.

``leaves``        expand an expression through local names (reaching definitions,
                  free variables of nested functions, tuple paths) down to the
                  expressions / parameters the value can come from.
``is_param``      the value can only be one unmodified parameter.
``ctor_fields``   field order of a NamedTuple / parameter order of ``__init__``.
``ctor_arg``      the actual argument for a named field of a constructor call.
``regex_call``    ``re.sub(p, r, s)`` / ``regex.search(p, s)`` / ``COMPILED.sub(r, s)``
                  normalised to (function name, pattern text, other arguments).
"""

from __future__ import annotations

import ast
from typing import Dict, List, Optional, Tuple

from .cfg import CFG, cfg_of
from .flow import Src, _free_variable, sources
from .index import FuncNode, Module, Repo, call_name, kwarg, last_attr, module_of, norm

BASE = "src/sqlfluff/core/templaters/base.py"


class Leaf:
    """One place a value may come from: ``expr`` (an ``ast.arg`` for parameters),
    the tuple ``path`` selected from it, ``kind`` as in :class:`sa.flow.Src`."""

    __slots__ = ("expr", "path", "kind", "stmt", "cfg")

    def __init__(self, expr, path, kind, stmt, cfg):
        self.expr, self.path, self.kind, self.stmt, self.cfg = expr, path, kind, stmt, cfg

    def __repr__(self):
        t = norm(self.expr) if isinstance(self.expr, ast.AST) else str(self.expr)
        return f"Leaf({self.kind}:{t}{''.join(f'[{p}]' for p in self.path)})"

    def text(self) -> str:
        if self.kind == "param":
            return f"parameter {self.expr.arg}"
        t = " ".join(norm(self.expr).split())
        if len(t) > 70:
            t = t[:67] + "..."
        return t + "".join(f"[{p}]" for p in self.path)


def leaves(cfg: CFG, e: ast.AST, at=None, _path: tuple = (), _seen=None) -> List[Leaf]:
    """Expand ``e`` through plain names (transitively); constant subscripts of a
    name are turned into a tuple path (``x[1]`` of ``x = f()`` is ``f()[1]``)."""
    _seen = _seen if _seen is not None else set()
    if at is None:
        at = cfg.stmt_of(e)
    if isinstance(e, ast.Subscript) and isinstance(e.value, ast.Name) and isinstance(e.slice, ast.Constant) and isinstance(e.slice.value, int):
        return leaves(cfg, e.value, at, (e.slice.value,) + _path, _seen)
    if not isinstance(e, ast.Name):
        # descend tuple displays by position
        while _path and isinstance(e, (ast.Tuple, ast.List)) and isinstance(_path[0], int) and _path[0] < len(e.elts):
            e, _path = e.elts[_path[0]], _path[1:]
            if isinstance(e, ast.Name):
                return leaves(cfg, e, at, _path, _seen)
        return [Leaf(e, _path, "expr", at, cfg)]
    out: List[Leaf] = []
    for s in sources(cfg, e, at, _path):
        key = (id(s.expr), s.path, s.kind)
        if key in _seen:
            continue
        _seen.add(key)
        if s.kind == "unknown" and isinstance(s.expr, ast.Name) and s.expr.id != e.id:
            # flow.sources resolves a free variable under the *queried* name only; an
            # alias of a free variable (``ctx = live_context``) ends here with the
            # aliased name unresolved -> resolve that one in the enclosing function.
            fv = _free_variable(s.cfg, s.expr.id, s.path)
            if fv:
                for f in fv:
                    if f.kind == "expr" and isinstance(f.expr, ast.Name):
                        out += leaves(f.cfg, f.expr, f.stmt, f.path, _seen)
                    else:
                        out.append(Leaf(f.expr, f.path, f.kind, f.stmt, f.cfg))
                continue
        if s.kind in ("expr", "comp") and isinstance(s.expr, ast.Name):
            out += leaves(s.cfg, s.expr, s.stmt, s.path, _seen)
        elif s.kind == "expr" and isinstance(s.expr, ast.Subscript) and isinstance(s.expr.value, ast.Name) and isinstance(s.expr.slice, ast.Constant) and isinstance(s.expr.slice.value, int):
            out += leaves(s.cfg, s.expr, s.stmt, s.path, _seen)
        elif s.kind == "expr" and isinstance(s.expr, ast.IfExp):
            for br in (s.expr.body, s.expr.orelse):
                out += leaves(s.cfg, br, s.stmt, s.path, _seen)
        else:
            out.append(Leaf(s.expr, s.path, s.kind, s.stmt, s.cfg))
    return out


def is_param(cfg: CFG, e: Optional[ast.AST], at=None, name: Optional[str] = None) -> Optional[str]:
    """Name of the parameter when ``e`` can only be that unmodified parameter."""
    if e is None:
        return None
    ls = leaves(cfg, e, at)
    if ls and all(l.kind == "param" and not l.path for l in ls):
        names = {l.expr.arg for l in ls}
        if len(names) == 1 and (name is None or name in names):
            return next(iter(names))
    return None


def ctor_fields(repo: Repo, cls: ast.ClassDef) -> List[str]:
    """Positional field order of a class: ``__init__`` parameters (without self),
    or the annotated fields of a NamedTuple / dataclass body."""
    for item in cls.body:
        if isinstance(item, FuncNode) and item.name == "__init__":
            a = item.args
            return [x.arg for x in a.posonlyargs + a.args][1:] + [x.arg for x in a.kwonlyargs]
    return [s.target.id for s in cls.body if isinstance(s, ast.AnnAssign) and isinstance(s.target, ast.Name)]


def ctor_arg(call: ast.Call, fields: List[str], name: str) -> Optional[ast.expr]:
    v = kwarg(call, name)
    if v is not None:
        return v
    if name in fields:
        i = fields.index(name)
        if i < len(call.args) and not any(isinstance(a, ast.Starred) for a in call.args[: i + 1]):
            return call.args[i]
    return None


def resolves_to_class(repo: Repo, call: ast.Call, class_name: str, rel: str = BASE) -> bool:
    """The callee of ``call`` is the class ``class_name`` defined in ``rel``."""
    if not isinstance(call.func, ast.Name):
        return False
    m: Module = module_of(call)
    r = repo.resolve_name(m, call.func.id)
    return bool(r) and isinstance(r[1], ast.ClassDef) and r[1].name == class_name and r[0].relpath == rel


def method_of(repo: Repo, call: ast.Call) -> Optional[Tuple[Module, ast.AST]]:
    """``self.m(...)`` / ``cls.m(...)`` resolved in the enclosing class' MRO."""
    f = call.func
    if isinstance(f, ast.Attribute) and isinstance(f.value, ast.Name) and f.value.id in ("self", "cls"):
        p = getattr(call, "_parent", None)
        while p is not None and not isinstance(p, ast.ClassDef):
            p = getattr(p, "_parent", None)
        if p is not None:
            return repo.lookup_method(module_of(call), p, f.attr)
    return None


def regex_module(e: ast.AST) -> Optional[str]:
    """'re' / 'regex' when ``e`` is a name bound by import to one of them."""
    if isinstance(e, ast.Name):
        m = module_of(e)
        fq = m.imports.get(e.id)
        if fq in ("re", "regex") and e.id not in m.defs:
            # a local of the same name (``regex = context[...]``) shadows the import
            fn = getattr(e, "_parent", None)
            while fn is not None and not isinstance(fn, FuncNode):
                fn = getattr(fn, "_parent", None)
            if isinstance(fn, FuncNode):
                rd = cfg_of(fn).reaching()
                if e.id in rd.params or any(d.name == e.id for ds in rd.gen.values() for d in ds):
                    return None
            return fq
    return None


def _module_const(m: Module, name: str) -> Optional[ast.expr]:
    for node in m.tree.body:
        if isinstance(node, ast.Assign) and len(node.targets) == 1 and isinstance(node.targets[0], ast.Name) and node.targets[0].id == name:
            return node.value
        if isinstance(node, ast.AnnAssign) and isinstance(node.target, ast.Name) and node.target.id == name and node.value is not None:
            return node.value
    return None


def pattern_text(cfg: Optional[CFG], e: Optional[ast.AST], at=None) -> Optional[str]:
    """Pattern literal behind ``e``: a string constant, a local/module-level name
    bound to one, or ``re.compile(<literal>)`` behind such a name."""
    if e is None:
        return None
    if isinstance(e, ast.Constant) and isinstance(e.value, str):
        return e.value
    if isinstance(e, ast.Call) and last_attr(e) == "compile" and isinstance(e.func, ast.Attribute) and regex_module(e.func.value) and e.args:
        return pattern_text(cfg, e.args[0], at)
    if isinstance(e, ast.Name):
        if cfg is not None:
            ls = [l for l in leaves(cfg, e, at) if l.kind == "expr" and not l.path and not isinstance(l.expr, ast.Name)]
            texts = {pattern_text(None, l.expr) for l in ls}
            if len(texts) == 1 and None not in texts:
                return next(iter(texts))
        v = _module_const(module_of(e), e.id)
        if v is not None and not isinstance(v, ast.Name):
            return pattern_text(None, v)
    return None


class RegexCall:
    """A call of a regex function: ``fn`` in sub/subn/search/match/fullmatch/finditer/...,
    ``pattern`` (text or None when computed), ``args`` the remaining positional
    arguments (replacement first for sub), ``call`` the node."""

    def __init__(self, fn: str, pattern: Optional[str], args: List[ast.expr], call: ast.Call, pattern_expr: Optional[ast.AST]):
        self.fn, self.pattern, self.args, self.call, self.pattern_expr = fn, pattern, args, call, pattern_expr


REGEX_FUNCS = ("sub", "subn", "search", "match", "fullmatch", "finditer", "findall", "split")


def regex_call(cfg: CFG, call: ast.Call) -> Optional[RegexCall]:
    f = call.func
    if not (isinstance(f, ast.Attribute) and f.attr in REGEX_FUNCS):
        return None
    at = cfg.stmt_of(call)
    if regex_module(f.value):
        if not call.args:
            return None
        pe = call.args[0]
        rest = list(call.args[1:])
        for k in ("repl", "string"):
            v = kwarg(call, k)
            if v is not None:
                rest.append(v)
        return RegexCall(f.attr, pattern_text(cfg, pe, at), rest, call, pe)
    # compiled pattern object: NAME.sub(repl, string)
    if isinstance(f.value, ast.Name):
        t = pattern_text(cfg, f.value, at)
        if t is not None:
            return RegexCall(f.attr, t, list(call.args), call, f.value)
    return None


def class_named(repo: Repo, rel: str, name: str) -> ast.ClassDef:
    return repo.cls(rel, name)


def qual(fn: ast.AST) -> str:
    return getattr(fn, "_qualname", getattr(fn, "name", "?"))
