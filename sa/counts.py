"""RQ-filter: which violation counts are suppression-filtered (DESIGN.md 2.6).

A *count expression* is classified from repository facts:

* ``X.num_violations(...)`` / ``len(X.get_violations(...))`` / ``X.get_violations(...)``:
  ``filter_ignore=False`` -> UNFILTERED, otherwise FILTERED; ``filter_warning``;
  ``types=``; ``fixable=``.
* attribute reads of ``LintedDir`` counters: their kind is *derived* from the
  statements of ``LintedDir`` that advance them (``self.A += <count expr>``).
* ``sum(<elt> for ...)``: kind of the element.
* tuple-returning summaries such as ``LintingResult.count_tmp_prs_errors()``:
  per-component kinds derived from the method body.
"""

from __future__ import annotations

import ast
from typing import Dict, List, Optional, Set, Tuple

from .cfg import cfg_of, origins
from .index import AnalysisError, FuncNode, Repo, call_name, kwarg, last_attr, norm, walk_local

LDIR = "src/sqlfluff/core/linter/linted_dir.py"
LRES = "src/sqlfluff/core/linter/linting_result.py"
LFILE = "src/sqlfluff/core/linter/linted_file.py"

UNF, FIL = "UNFILTERED", "FILTERED"


class CountInfo:
    def __init__(self, kind, types=None, fixable=None, warn_filtered=True, root=None, via=""):
        self.kind = kind  # UNF / FIL
        self.types = types  # frozenset of class names, or None (= all)
        self.fixable = fixable  # True / False / None
        self.warn_filtered = warn_filtered
        self.root = root  # name of the receiver's root variable
        self.via = via

    def __repr__(self):
        t = ",".join(sorted(self.types)) if self.types else "*"
        return f"Count({self.kind}, types={t}, fixable={self.fixable}, warnfilt={self.warn_filtered}, root={self.root}, via={self.via})"

    def is_tmp_prs(self) -> bool:
        return self.types is not None and {"SQLTemplaterError", "SQLParseError"} <= set(self.types)


def root_name(e: ast.AST) -> Optional[str]:
    while isinstance(e, (ast.Attribute, ast.Subscript, ast.Call)):
        e = e.func if isinstance(e, ast.Call) else e.value
    return e.id if isinstance(e, ast.Name) else None


class Counts:
    def __init__(self, repo: Repo):
        self.repo = repo
        self.type_consts: Dict[str, frozenset] = {}
        m = repo.mod(LFILE)
        for node in m.tree.body:
            if isinstance(node, ast.Assign) and isinstance(node.value, ast.Tuple):
                for t in node.targets:
                    if isinstance(t, ast.Name) and all(isinstance(e, ast.Name) for e in node.value.elts):
                        self.type_consts[t.id] = frozenset(e.id for e in node.value.elts)
        if "TMP_PRS_ERROR_TYPES" not in self.type_consts:
            raise AnalysisError("TMP_PRS_ERROR_TYPES constant not found in linted_file.py")
        self.attr_kinds: Dict[str, List[CountInfo]] = {}
        self.map_attrs: Dict[str, List[CountInfo]] = {}
        self._derive_linted_dir()
        self.tuple_summaries: Dict[str, List[Optional[CountInfo]]] = {}
        self._derive_tuple_summaries()

    # -- types argument -----------------------------------------------------
    def _types(self, e: Optional[ast.expr]) -> Optional[frozenset]:
        if e is None or (isinstance(e, ast.Constant) and e.value is None):
            return None
        if isinstance(e, ast.Name):
            if e.id in self.type_consts:
                return self.type_consts[e.id]
            return frozenset([e.id])
        if isinstance(e, (ast.Tuple, ast.List)):
            out = set()
            for x in e.elts:
                t = self._types(x)
                if t is None:
                    return None
                out |= t
            return frozenset(out)
        return frozenset(["?"])

    # -- direct calls ---------------------------------------------------------
    def classify_call(self, c: ast.Call) -> Optional[CountInfo]:
        name = last_attr(c)
        if name == "len" and c.args and isinstance(c.args[0], ast.Call):
            return self.classify_call(c.args[0])
        if name in ("num_violations", "get_violations") and isinstance(c.func, ast.Attribute):
            fi = kwarg(c, "filter_ignore")
            fw = kwarg(c, "filter_warning")
            fx = kwarg(c, "fixable")
            kind = UNF if (isinstance(fi, ast.Constant) and fi.value is False) else FIL
            if fi is not None and not isinstance(fi, ast.Constant):
                return None
            wf = not (isinstance(fw, ast.Constant) and fw.value is False)
            types = self._types(kwarg(c, "types") or (c.args[0] if name == "num_violations" and c.args else None))
            fixable = fx.value if isinstance(fx, ast.Constant) else (None if fx is None else "?")
            return CountInfo(kind, types, fixable, wf, root_name(c.func.value), via=norm(c))
        if name == "sum" and c.args and isinstance(c.args[0], (ast.GeneratorExp, ast.ListComp)):
            elt = c.args[0].elt
            inner = self.classify_expr_shallow(elt)
            if inner is not None:
                gen = c.args[0].generators[0]
                inner.root = root_name(gen.iter) or inner.root
            return inner
        return None

    def classify_expr_shallow(self, e: ast.expr) -> Optional[CountInfo]:
        if isinstance(e, ast.Call):
            return self.classify_call(e)
        if isinstance(e, ast.Attribute) and e.attr in self.attr_kinds:
            infos = self.attr_kinds[e.attr]
            if len({(i.kind, i.types, i.fixable, i.warn_filtered) for i in infos}) == 1:
                i = infos[0]
                return CountInfo(i.kind, i.types, i.fixable, i.warn_filtered, root_name(e.value), via=f".{e.attr} <- {i.via}")
            # mixed advances: report the weakest (FILTERED + UNFILTERED mix is handled by C22)
            i = infos[0]
            return CountInfo("MIXED", i.types, i.fixable, i.warn_filtered, root_name(e.value), via=f".{e.attr} (mixed)")
        return None

    # -- with def-use -----------------------------------------------------------
    def classify(self, func: ast.AST, e: ast.expr, at: Optional[object] = None) -> Optional[CountInfo]:
        """Classify expression ``e`` in ``func``, following local definitions."""
        cfg = cfg_of(func)
        if at is None:
            at = cfg.stmt_of(e)
        direct = self.classify_expr_shallow(e)
        if direct is not None:
            if direct.root:
                direct.root = self._canon_root(cfg, direct.root, at)
            return direct
        if isinstance(e, ast.Name):
            found: List[CountInfo] = []
            for o in origins(cfg, e, at):
                if o.kind not in ("expr",):
                    return None
                val = o.expr
                if o.path and isinstance(val, ast.Call) and last_attr(val) in self.tuple_summaries and len(o.path) == 1:
                    comp = self.tuple_summaries[last_attr(val)]
                    idx = o.path[0]
                    if isinstance(idx, int) and idx < len(comp) and comp[idx] is not None:
                        ci = comp[idx]
                        found.append(CountInfo(ci.kind, ci.types, ci.fixable, ci.warn_filtered, self._canon_root(cfg, root_name(val), o.stmt), via=f"{last_attr(val)}()[{idx}] <- {ci.via}"))
                        continue
                    return None
                if o.path:
                    return None
                if isinstance(val, ast.Subscript):
                    ci = self._tuple_component(cfg, val, o.stmt)
                    if ci is None:
                        return None
                    found.append(ci)
                    continue
                ci = self.classify_expr_shallow(val)
                if ci is None:
                    return None
                if ci.root:
                    ci.root = self._canon_root(cfg, ci.root, o.stmt)
                found.append(ci)
            if found and len({(i.kind, i.types, i.fixable, i.root) for i in found}) == 1:
                return found[0]
            return None
        if isinstance(e, ast.Subscript):
            return self._tuple_component(cfg, e, at)
        return None

    def _tuple_component(self, cfg, e: ast.Subscript, at) -> Optional[CountInfo]:
        """``f()[k]`` or ``t[k]`` with ``t`` a local bound (on every path) to the whole tuple
        returned by one summarised count method: component k of that method's summary."""
        idx = e.slice.value if isinstance(e.slice, ast.Constant) else None
        if not isinstance(idx, int) or idx < 0:
            return None
        calls: List[Tuple[ast.Call, object]] = []
        if isinstance(e.value, ast.Call):
            calls.append((e.value, at))
        elif isinstance(e.value, ast.Name):
            for o in origins(cfg, e.value, at):
                if o.kind != "expr" or o.path or not isinstance(o.expr, ast.Call):
                    return None
                calls.append((o.expr, o.stmt))
        found: List[CountInfo] = []
        for call, st in calls:
            if last_attr(call) not in self.tuple_summaries or not isinstance(call.func, ast.Attribute):
                return None
            comp = self.tuple_summaries[last_attr(call)]
            if idx >= len(comp) or comp[idx] is None:
                return None
            ci = comp[idx]
            found.append(CountInfo(ci.kind, ci.types, ci.fixable, ci.warn_filtered, self._canon_root(cfg, root_name(call), st), via=f"{last_attr(call)}()[{idx}] <- {ci.via}"))
        if found and len({(i.kind, i.types, i.fixable, i.root) for i in found}) == 1:
            return found[0]
        return None

    def _canon_root(self, cfg, name: Optional[str], at) -> Optional[str]:
        """Follow plain aliases (a = b) so that two spellings of one object agree."""
        if name is None:
            return None
        seen = set()
        cur = name
        while cur not in seen:
            seen.add(cur)
            ds = cfg.reaching().defs_at(at, cur) if at is not None else set()
            if len(ds) == 1:
                d = next(iter(ds))
                if d.kind == "assign" and isinstance(d.value, ast.Name) and not d.path:
                    cur, at = d.value.id, d.stmt
                    continue
                # a local naming a member of the object (``f = result.paths[0].files[0]``):
                # same root as the spelled-out chain (attribute / subscript steps only)
                v = d.value if d.kind == "assign" and not d.path else None
                steps = 0
                while isinstance(v, (ast.Attribute, ast.Subscript)):
                    v = v.value
                    steps += 1
                if steps and isinstance(v, ast.Name):
                    cur, at = v.id, d.stmt
                    continue
            break
        return cur

    # -- derivations ---------------------------------------------------------------
    def _derive_linted_dir(self) -> None:
        cls = self.repo.cls(LDIR, "LintedDir")
        for item in cls.body:
            if not isinstance(item, FuncNode):
                continue
            cfg = cfg_of(item)
            for n in walk_local(item):
                tgt = val = None
                if isinstance(n, ast.AugAssign) and isinstance(n.op, ast.Add):
                    tgt, val = n.target, n.value
                elif isinstance(n, ast.Assign) and len(n.targets) == 1:
                    tgt, val = n.targets[0], n.value
                if tgt is None:
                    continue
                if isinstance(tgt, ast.Attribute) and isinstance(tgt.value, ast.Name) and tgt.value.id == "self":
                    ci = self._classify_in(item, cfg, val, n)
                    if ci is not None:
                        self.attr_kinds.setdefault(tgt.attr, []).append(ci)
                    elif isinstance(n, ast.AugAssign):
                        # advanced by something that is not a classified count
                        if isinstance(val, ast.Constant) and isinstance(val.value, int):
                            self.attr_kinds.setdefault(tgt.attr, []).append(
                                CountInfo("CONST", None, None, True, None, via=f"{item.name}: {norm(n)}")
                            )
                elif (
                    isinstance(tgt, ast.Subscript)
                    and isinstance(tgt.value, ast.Attribute)
                    and isinstance(tgt.value.value, ast.Name)
                    and tgt.value.value.id == "self"
                ):
                    ci = self._classify_in(item, cfg, val, n)
                    if ci is not None:
                        self.map_attrs.setdefault(tgt.value.attr, []).append(ci)

    def _classify_in(self, func, cfg, val, at) -> Optional[CountInfo]:
        ci = self.classify_expr_shallow(val) if not isinstance(val, ast.Name) else None
        if ci is None and isinstance(val, ast.Name):
            os_ = origins(cfg, val, at)
            if len(os_) == 1 and os_[0].kind == "expr" and not os_[0].path:
                ci = self.classify_expr_shallow(os_[0].expr)
        if ci is not None:
            ci.via = f"{func.name}: {ci.via}"
        return ci

    def _derive_tuple_summaries(self) -> None:
        for rel, cname in ((LRES, "LintingResult"), (LDIR, "LintedDir")):
            cls = self.repo.cls(rel, cname)
            for item in cls.body:
                if not isinstance(item, FuncNode):
                    continue
                rets = [n for n in walk_local(item) if isinstance(n, ast.Return) and isinstance(n.value, ast.Tuple)]
                if len(rets) != 1:
                    continue
                cfg = cfg_of(item)
                comps: List[Optional[CountInfo]] = []
                for elt in rets[0].value.elts:
                    ci = None
                    if isinstance(elt, ast.Name):
                        os_ = origins(cfg, elt, rets[0])
                        if len(os_) == 1 and os_[0].kind == "expr":
                            ci = self.classify_expr_shallow(os_[0].expr)
                    else:
                        ci = self.classify_expr_shallow(elt)
                    comps.append(ci)
                if any(c is not None for c in comps):
                    self.tuple_summaries[item.name] = comps


ZERO_FORMS = {
    # (operator class name, constant) -> does the comparison assert "count is zero"?
    ("Eq", 0): True,
    ("NotEq", 0): False,
    ("Gt", 0): False,
    ("LtE", 0): True,
    ("Lt", 1): True,
    ("GtE", 1): False,
}


def zero_test(e: ast.expr) -> Optional[Tuple[ast.expr, bool]]:
    """If ``e`` tests a quantity against zero return (quantity, asserts_zero)."""
    if isinstance(e, ast.Compare) and len(e.ops) == 1 and isinstance(e.comparators[0], ast.Constant):
        k = (type(e.ops[0]).__name__, e.comparators[0].value)
        if k in ZERO_FORMS:
            return e.left, ZERO_FORMS[k]
    return None
