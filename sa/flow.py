"""Small def-use helpers shared by the config / templater checkers (C27, C08, C09, C28).

Everything here sits on top of ``sa.cfg`` (reaching definitions, dominance); no
shared engine file is modified.

``sources``   where may the value of a *name* come from: reaching definitions,
              plus comprehension variables (bound to their iterable) and free
              variables of a nested function (resolved in the enclosing
              function at the nested ``def``).
``cone``      the derivation cone of an expression: every AST node the value may
              be computed from (transitively through local names, call arguments,
              receivers, operators, displays, comprehensions; optionally through
              the ``return`` values of callees in the same tree).  "X derives
              from Y" is "Y's node is in cone(X)".  Over-approximate by design.
``concat_operands``  operands of a ``+`` chain.
"""

from __future__ import annotations

import ast
from typing import Callable, Iterable, Iterator, List, Optional, Sequence, Tuple

from .cfg import CFG, cfg_of, origins
from .index import FuncNode, call_name, enclosing_function, last_attr, module_of, norm, walk_local

COMPS = (ast.ListComp, ast.SetComp, ast.GeneratorExp, ast.DictComp)


class Src:
    """One possible source of a name's value."""

    __slots__ = ("expr", "path", "kind", "stmt", "cfg")

    def __init__(self, expr, path, kind, stmt, cfg):
        self.expr = expr  # ast.expr, or ast.arg for kind == 'param'
        self.path = path
        self.kind = kind  # expr | param | for | with | except | aug | comp | unknown | def | import
        self.stmt = stmt
        self.cfg = cfg

    def __repr__(self):
        t = norm(self.expr) if isinstance(self.expr, ast.AST) else str(self.expr)
        return f"Src({self.kind}:{t}{''.join(f'[{p}]' for p in self.path)})"


def _comp_binding(name: ast.Name) -> Optional[Tuple[ast.expr, tuple]]:
    """If ``name`` is a comprehension variable of an enclosing comprehension,
    the iterable it ranges over (and the tuple path inside the element)."""
    from .cfg import _targets  # same helper the engine uses for tuple targets

    child = name
    p = getattr(name, "_parent", None)
    while p is not None and not isinstance(p, FuncNode + (ast.Lambda, ast.Module, ast.ClassDef)):
        if isinstance(p, COMPS):
            gens = list(p.generators)
            if isinstance(child, ast.comprehension):
                j = gens.index(child)
                # the iterable of generator j sees generators < j, its conditions see <= j
                visible = gens[:j] if _within(name, child.iter) else gens[: j + 1]
            else:
                visible = gens
            for gen in reversed(visible):
                for nm, path, node in _targets(gen.target):
                    if nm == name.id and node is not name:
                        return gen.iter, path
        child = p
        p = getattr(p, "_parent", None)
    return None


def _within(node: ast.AST, root: ast.AST) -> bool:
    p = node
    while p is not None:
        if p is root:
            return True
        p = getattr(p, "_parent", None)
    return False


def sources(cfg: CFG, name: ast.Name, at=None, _path=()) -> List[Src]:
    """Sources of a local name, see module docstring."""
    cb = _comp_binding(name) if hasattr(name, "_parent") else None
    if cb is not None:
        return [Src(cb[0], cb[1] + _path, "comp", cfg.stmt_of(name) or at, cfg)]
    if at is None:
        at = cfg.stmt_of(name)
    out: List[Src] = []
    for o in origins(cfg, name, at, None, _path):
        if o.kind == "unknown":
            out += _free_variable(cfg, name.id, _path) or [Src(o.expr, o.path, "unknown", o.stmt, cfg)]
        else:
            out.append(Src(o.expr, o.path, o.kind, o.stmt, cfg))
    return out


def _free_variable(cfg: CFG, ident: str, _path=()) -> List[Src]:
    """Resolve a free variable of a nested function in the enclosing function."""
    inner = cfg.func
    outer = enclosing_function(inner) if hasattr(inner, "_parent") else None
    if not isinstance(outer, FuncNode):
        return []
    ocfg = cfg_of(outer)
    probe = ast.Name(id=ident, ctx=ast.Load())
    at = ocfg.stmt_of(inner)
    res = [o for o in origins(ocfg, probe, at, None, _path) if o.kind != "unknown"]
    if not res:
        # defined after the nested def (late binding): take every definition
        rd = ocfg.reaching()
        for n, defs in rd.gen.items():
            for d in defs:
                if d.name == ident and d.kind == "assign":
                    res.append(type("O", (), {"expr": d.value, "path": d.path + _path, "kind": "expr", "stmt": d.stmt})())
        if ident in rd.params:
            res.append(type("O", (), {"expr": rd.params[ident].node, "path": _path, "kind": "param", "stmt": None})())
    if not res:
        return _free_variable(ocfg, ident, _path)
    return [Src(o.expr, o.path, o.kind, o.stmt, ocfg) for o in res]


def cone(
    cfg: CFG,
    expr: ast.AST,
    at=None,
    *,
    resolve_call: Optional[Callable[[ast.Call], Optional[ast.AST]]] = None,
    depth: int = 0,
    stop: Optional[Callable[[ast.AST], bool]] = None,
) -> List[ast.AST]:
    """Derivation cone of ``expr`` (list of AST nodes, parameters as ``ast.arg``).

    ``resolve_call`` maps a call to a function definition of the analysed tree
    whose ``return`` values are then included (up to ``depth`` nested calls).
    ``stop(node)`` true: the node is recorded but not expanded (a sanitiser)."""
    seen = set()
    out: List[ast.AST] = []

    def visit(e: ast.AST, cfg: CFG, at, d: int) -> None:
        if e is None or id(e) in seen:
            return
        seen.add(id(e))
        out.append(e)
        if stop is not None and stop(e):
            return
        if isinstance(e, ast.arg):
            return
        if isinstance(e, ast.Name):
            if isinstance(getattr(e, "ctx", None), ast.Store):
                return
            for s in sources(cfg, e, at):
                if s.kind in ("param",):
                    visit(s.expr, s.cfg, None, d)
                elif s.kind in ("unknown", "import", "def"):
                    continue
                elif isinstance(s.expr, ast.AST):
                    visit(s.expr, s.cfg, s.stmt, d)
            return
        if isinstance(e, ast.Call) and resolve_call is not None and d > 0:
            callee = resolve_call(e)
            if isinstance(callee, FuncNode):
                ccfg = cfg_of(callee)
                for r in walk_local(callee):
                    if isinstance(r, ast.Return) and r.value is not None:
                        visit(r.value, ccfg, r, d - 1)
        if isinstance(e, (ast.Lambda,) + FuncNode):
            return
        for child in ast.iter_child_nodes(e):
            if isinstance(child, (ast.expr, ast.keyword, ast.comprehension)):
                if isinstance(child, ast.comprehension):
                    visit(child.iter, cfg, at, d)
                    for c in child.ifs:
                        visit(c, cfg, at, d)
                elif isinstance(child, ast.keyword):
                    visit(child.value, cfg, at, d)
                else:
                    visit(child, cfg, at, d)

    if at is None and not isinstance(expr, ast.arg):
        at = cfg.stmt_of(expr)
    visit(expr, cfg, at, depth)
    return out


def cone_has_param(nodes: Iterable[ast.AST], name: str) -> bool:
    return any(isinstance(n, ast.arg) and n.arg == name for n in nodes)


def cone_calls(nodes: Iterable[ast.AST]) -> List[ast.Call]:
    return [n for n in nodes if isinstance(n, ast.Call)]


def concat_operands(e: ast.expr) -> List[ast.expr]:
    if isinstance(e, ast.BinOp) and isinstance(e.op, ast.Add):
        return concat_operands(e.left) + concat_operands(e.right)
    return [e]


def single_sources(cfg: CFG, e: ast.expr, at=None) -> List[Src]:
    """Sources of an expression: a name is expanded, anything else is itself."""
    if isinstance(e, ast.Name):
        return sources(cfg, e, at)
    return [Src(e, (), "expr", at if at is not None else cfg.stmt_of(e), cfg)]


def is_param_value(cfg: CFG, e: ast.expr, param: str, at=None) -> bool:
    """``e`` is a plain name whose every source is the parameter ``param``."""
    if not isinstance(e, ast.Name):
        return False
    ss = sources(cfg, e, at)
    return bool(ss) and all(s.kind == "param" and s.expr.arg == param for s in ss)


def is_self_attr(e: ast.AST, attr: str) -> bool:
    return isinstance(e, ast.Attribute) and e.attr == attr and isinstance(e.value, ast.Name) and e.value.id in ("self", "cls")


def returns_of(func: ast.AST) -> List[ast.Return]:
    return sorted(
        (n for n in walk_local(func) if isinstance(n, ast.Return) and n.value is not None),
        key=lambda n: n.lineno,
    )


def params_of(func: ast.AST, *, skip_self: bool = False) -> List[str]:
    a = func.args
    names = [x.arg for x in a.posonlyargs + a.args]
    if skip_self and names and names[0] in ("self", "cls"):
        names = names[1:]
    return names


def bind_args(call: ast.Call, callee: ast.AST, *, bound: bool) -> dict:
    """Map parameter names of ``callee`` to the actual argument expressions of
    ``call`` (``bound``: the first parameter is supplied by the receiver).
    Starred actuals are returned under the key ``'*'`` (list)."""
    a = callee.args
    pos = [x.arg for x in a.posonlyargs + a.args]
    if bound and pos:
        pos = pos[1:]
    out: dict = {}
    star: list = []
    i = 0
    for arg in call.args:
        if isinstance(arg, ast.Starred):
            star.append(arg.value)
            continue
        if i < len(pos):
            out[pos[i]] = arg
        elif a.vararg:
            out.setdefault("*" + a.vararg.arg, []).append(arg)
        i += 1
    for k in call.keywords:
        if k.arg is None:
            out.setdefault("**", []).append(k.value)
        else:
            out[k.arg] = k.value
    if star:
        out["*"] = star
    return out


def is_method_bound(call: ast.Call, callee: ast.AST) -> bool:
    """Heuristic: an attribute call to a function whose first parameter is
    self/cls binds that parameter (static methods are excluded)."""
    if not isinstance(call.func, ast.Attribute):
        # a class constructor call binds ``self`` of __init__
        return getattr(callee, "name", "") == "__init__"
    for d in getattr(callee, "decorator_list", []):
        if norm(d) == "staticmethod":
            return False
    a = callee.args
    pos = [x.arg for x in a.posonlyargs + a.args]
    return bool(pos) and pos[0] in ("self", "cls")
