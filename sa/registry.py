"""Registry of claimed properties: what MANIFEST.json is generated from.

``python3 tools/gen_manifest.py`` rewrites /verif/MANIFEST.json from this table.
"""

TRUST = (
    "Trusted: CPython ast / re._parser; the reviewed tables in sa/tables.py; the rule is a necessary "
    "structural condition of the property, not the behaviour itself — a pass never means the behaviour "
    "holds on all inputs."
)

# pid -> dict(technique, text, note, design_ref)
CLAIMED = {
    "C01": dict(
        technique="static analysis: lexer totality over every dialect's resolved matcher table via regex ASTs (first-character / nullability abstraction), def-use wiring of LXR reporting",
        text="Decides (exhaustively over the 28 bundled dialects) that every character outside the last-resort matcher's class is consumed by some matcher that cannot "
        "return an empty match and that the last-resort matcher takes everything else, so lexing can neither drop a character nor reach its fatal raise; and that "
        "unlexable segments are turned into LXR errors without any filter on the way from violations_from_segments through PyLexer.lex to _lex_templated_file.",
        note="Does not decide that tokens concatenate to the rendered text or that positions are contiguous (run-time slice arithmetic). Patterns the stdlib regex parser cannot read are over-approximated or 'unknown' (counted, capped). " + TRUST,
        design_ref="DESIGN.md §3 C01",
    ),
    "C03": dict(
        technique="static analysis: modular abstract interpretation (finite sets of net indents) over the expanded grammar graph of every dialect and every assignment of the indentation keys; def-use origin labelling of the inserts on every return of Sequence.match / Bracketed.match / resolve_bracket, combined with a grammar-graph reachability check per partial return",
        text="Decides the 'indentation balance returns to zero' clause in two halves. Grammars: for every segment class reachable in each of the 28 bundled dialects and every "
        "assignment of the indentation config keys below it, the Indent/Dedent metas of a completed match sum to zero (a non-zero class is accepted only when inlining it makes every "
        "class that embeds it balanced on every path); repeated elements are balanced; the engine's bracket inserts are an Indent/Dedent pair. Engine: the completed return of "
        "Sequence.match carries flushed plus remaining own metas, and a partial (greedy give-up) return may carry own metas only if no non-STRICT sequence of a bundled grammar can "
        "make that prefix unbalanced.",
        note="Does not decide positional containment of children, child order, non-code ends, or the never-negative running balance (incl. template block indents from the lexer). "
        "Known finding: the ran-out-of-segments return flushes a lone Indent (`SELECT` with nothing after it). The grammar graph is obtained by importing the dialect modules of the "
        "analysed tree (declarative definitions) in a subprocess; no SQL is lexed or parsed. " + TRUST,
        design_ref="DESIGN.md §3 C03",
    ),
    "C05": dict(
        technique="static analysis: loop-bound inference for index-advancing scans, reviewed table of next()/index() sites with dominance-checked guards, shape of the exception-to-violation handler in BaseRule.crawl",
        text="Decides the absence of two shapes of latent IndexError/StopIteration/ValueError in rule and reflow code: every index-advancing while/count() scan "
        "bounds its index by the sequence length; every next() without default and .index() site is guarded (try, default, dominating membership test) or is a "
        "reviewed table entry; and BaseRule.crawl converts any exception of _eval/_eval_rust into an 'Unexpected exception' violation without re-raising.",
        note="Does not decide total exception freedom of ~25k lines of rule code over all trees. " + TRUST,
        design_ref="DESIGN.md §3 C05",
    ),
    "C10": dict(
        technique="static analysis: must-pass-through on the CFG (discard step before fixes are handed over), who-may-construct table for SourceFix, must-guard of patch appends, def-use of source-only slices",
        text="Decides that the four independent template-safety filters are wired on every path: every LintResult passes discard_unsafe_fixes unless the "
        "rule class is in the reviewed template_safe_fixes table; SourceFix is constructed only in the reviewed functions; generate_source_patches "
        "keeps a patch touching non-literal slices only if it is an explicit source patch or a zero-length boundary insert; fix_string hands the "
        "templated file's source-only slices to the slicer.",
        note="Does not decide that the filters' slice arithmetic is right for every template. " + TRUST,
        design_ref="DESIGN.md §3 C10",
    ),
    "C11": dict(
        technique="static analysis: codec error-handler pairing of reader/writer open() calls, CFG dominance of the rewrite by the changed flag, single-normalisation count on the reader-to-templater path, def-use chain of the encoding",
        text="Decides the I/O envelope: the decode error handler used to read a linted file and the encode handler used to write it form a lossless pair; "
        "the file is rewritten only if fix_string reports a change (computed by comparing fixed and original source); newlines are normalised exactly once "
        "on the way in and not translated on the way out; the write encoding is the read encoding along the whole chain loader -> RenderedFile -> LintedFile -> writer.",
        note="Does not decide that unpatched regions are copied verbatim for every patch set (C30 covers the wiring). Known finding: errors='backslashreplace' on read. " + TRUST,
        design_ref="DESIGN.md §3 C11",
    ),
    "C13": dict(
        technique="static analysis: must-guard (dominance of tree adoption by the validity component) and def-use/typestate of the validation request through apply_fixes' recursion",
        text="Decides that the fix loop only adopts a tree whose apply_fixes validity component was true, that every structure-changing edit kind and "
        "every failed child validation sets the validation request, and that a returned validity can only come from validate_segment_with_reparse, "
        "the explicit unparsable arms, or constant False — never a constant True or a value left over from a child.",
        note="Does not decide that validation of the edited token list implies that the re-lexed text parses (value-level gap named by the property itself). " + TRUST,
        design_ref="DESIGN.md §3 C13",
    ),
    "C14": dict(
        technique="static analysis: who-may-construct over the RawSegment class hierarchy in rules/layout and utils/reflow, receiver classification of .edit() and LintFix.delete sites by dominating is_type tests / iterated collection / ReflowPoint invariant, frozen move table",
        text="Decides what layout code is able to put into or take out of a fix: every segment constructed in layout rules and reflow is a whitespace or newline "
        "segment with whitespace-only constant text; every raw .edit() is applied to a whitespace-like receiver; every ReflowPoint is built from whitespace-like "
        "segments only; every delete of something not established as whitespace/newline/indent is one half of a move (re-inserted in the same result) or a reviewed table entry.",
        note="Does not decide that the amount of whitespace is right or that moved segments keep their order. Syntactic classification only (no type checker). " + TRUST,
        design_ref="DESIGN.md §3 C14",
    ),
    "C15": dict(
        technique="static analysis: abstract domain of case-homomorphic string expressions (closed under str case methods, conditional choice and group-tiling regex.sub) over the CP rules, with regex ASTs",
        text="Decides that every edit built by the capitalisation rules is replace(anchor, [anchor.edit(new_raw)]) with new_raw a case-homomorphic image of anchor.raw "
        "(only letter case can differ), with one replacement segment anchored on the edited segment itself.",
        note="Does not decide which tokens are selected for editing; the opt-in native path (sqlfluffrs) is outside the analysed tree. Known finding: the documented snake policy inserts underscores. " + TRUST,
        design_ref="DESIGN.md §3 C15",
    ),
    "C18": dict(
        technique="static analysis: path-sensitive gate proof over the CFG (relevant-branch DNF dataflow) with suppression-filter kind inference of counts; interprocedural lifting of sinks to call sites",
        text="Decides, for every call that can produce or persist fixed text (fix_string / persist_tree / persist_changes outside their owning "
        "classes), that on every path it is reached only when fix_even_unparsable is set, or the file's UNFILTERED TMP/PRS count is zero, or the "
        "discard step already ran on the same result and the sink is conditioned on a fixable count; that the discard step keys on the unfiltered "
        "per-file count and clears every lint error's fixes; that persist_tree self-gates; and that the loop-limit exit returns the saved tree with fixes cleared.",
        note="Does not decide what lint_fix_parsed does to the tree of an unparsable file when fix_even_unparsable is set, nor Python-level aliasing beyond plain local aliases. " + TRUST,
        design_ref="DESIGN.md §3 C18",
    ),
    "C19": dict(
        technique="static analysis: sibling cross-check of the lint drivers by def-use provenance (rule pack vs per-file config), path-sensitive must-precede for the stdin-filename config, dominance of exit-deciding count reads by the discard step",
        text="Decides three agreements between the path / stdin / API drivers that are necessary for equal violations, fixed text and exit status: "
        "the rule pack is always built from the per-file config that already holds the inline directives; stdin with --stdin-filename and paths build "
        "that config with the same constructor and both process inline config; every fix driver reads exit-deciding fixable/unfixable counts after the discard step.",
        note="Does not decide equality of results for every input; known finding: _stdin_fix reads the unfixable count before the discard step (pinned by the existing test-suite). " + TRUST,
        design_ref="DESIGN.md §3 C19",
    ),
    "C22": dict(
        technique="static analysis: backward influence closure from sys.exit arguments (data + control dependence, through helper returns) with suppression/warning filter kinds of every contributing count; counter-advance audit; def-use on stats",
        text="Decides that every violation count that can influence the exit status of lint/fix/format is taken with suppression AND warning "
        "filtering, that the LintedDir counters behind them are only advanced by such counts (constant advances must exclude warning records), that "
        "stats' exit code is fail_code iff the filtered violations statistic is positive, that the exit constants are 0/1/2 and that user errors exit 2 via the CLI handler.",
        note="Does not decide the 'exactly when' direction for every input/config combination; user errors swallowed by the parallel runner's funnel are C24's R24d. " + TRUST,
        design_ref="DESIGN.md §3 C22",
    ),
    "C26": dict(
        technique="static analysis: typestate over the CFG of the file-replacing function (found by role), exception-cleanup shape, who-may-write table over every write-capable call in src/ and plugins/",
        text="Decides the order and ownership of filesystem calls on the write path: temp file created in the target directory with delete=False, "
        "write -> flush -> fsync inside the with, chmod on the temp, rename after close onto the output path, nothing touches the destination afterwards; "
        "all inside a try whose BaseException handler removes the temp and re-raises; encoding/newline/mode fidelity; with a suffix the original is only stat'ed; "
        "and no other function in the tree has a write-capable call outside the reviewed table.",
        note="Assumes POSIX rename atomicity and that NamedTemporaryFile(dir=d) creates in d. " + TRUST,
        design_ref="DESIGN.md §3 C26",
    ),
    "C30": dict(
        technique="static analysis: must-guard / def-use wiring checks on merge_source_patches, the slicer and the builder (CFG dominance, sorted() provenance)",
        text="Decides the wiring that makes overlapping or repeated application impossible: a patch joins the merged list only after the duplicate test "
        "and the conflict test against every kept patch; the slicer only ever receives lists that flow from sorted(...) on source start; a patch starting "
        "before the cursor is skipped before its slice is emitted; the builder applies a patch only on exact slice equality and at most once per slice.",
        note="Does not decide that _patches_conflict's interval arithmetic is right for every pair. " + TRUST,
        design_ref="DESIGN.md §3 C30",
    ),
    "C33": dict(
        technique="static analysis: def-use of every LintedFile construction (violations = deduplicate_in_source_space(...)), structure of the seen-set filter and sort keys, content of source_signature",
        text="Decides that every LintedFile is built from the de-duplicated, (line, pos)-sorted list, that the de-duplication keeps exactly the violations "
        "whose source signature was not seen and records each kept one, that records are serialised sorted by (line, pos, code), and that the signature "
        "covers check tuple, description, edit raws and source-fix source ranges but no templated-space attribute.",
        note="Does not decide that equal signatures mean the same violation for a user. " + TRUST,
        design_ref="DESIGN.md §3 C33",
    ),
    "C24": dict(
        technique="static analysis: sibling cross-check of the three render->pack->lint sites by def-use provenance; attribute-read closure for the worker's rebuilt Linter; order-insensitivity of result assembly; exact shape of config pickling; exception-funnel agreement",
        text="Decides that the serial path, the deferred-in-main path and the worker path perform the same render_file(task filename, runner root config) -> "
        "get_rulepack(config=rendered.config) -> lint_rendered(.., task fix flag) sequence; that the Linter rebuilt in a worker receives every constructor input "
        "the methods called on it read (config, user rules, templater re-created from the same config); that lint_paths files results by their own path, sorts "
        "records and reads the skip counter after the stream; that pickling a config drops only the plugin manager and templater object on copies; and that every "
        "catch-all in the runners feeds one funnel which re-raises I/O and user errors.",
        note="Does not decide equality of results under real process scheduling, nor pickling fidelity of arbitrary config values. " + TRUST,
        design_ref="DESIGN.md §3 C24",
    ),
    "C25": dict(
        technique="static analysis: path-spelling kind inference (abstract interpretation over discovery.py) + CFG must-guard + def-use",
        text="Decides that no comparison in file discovery mixes an absolutised path with a caller-spelled path (the exact condition "
        "under which relative/absolute/'.' spellings select the same files), that every produced file passed the extension and both "
        "ignore tests, that specs are matched relative to their own directory, and that no working directory is frozen at import time.",
        note="Does not decide pathspec's gitignore semantics or os.walk. " + TRUST,
        design_ref="DESIGN.md §3 C25",
    ),
    "C27": dict(
        technique="static analysis: argument-provenance (derivation cones over the CFG) of the config merge calls, fresh-receiver typestate for in-place config mutators, cache-escape taint from @cache loaders with mutation summaries",
        text="Decides three structural clauses of configuration precedence and isolation: the merge calls in load_config_up_to_path and FluffConfig.__init__ receive their "
        "layers in precedence order by provenance (app dir, home, parents, cwd->file in the outer->inner order iter_intermediate_paths yields, extra config file; then plugin "
        "defaults, file configs, overrides wrapped under 'core'), and child configs / from_path / from_root / the CLI forward overrides, extra_config_path and ignore_local_config; "
        "every receiver of an in-place config mutator outside FluffConfig (inline directives, set_value) is on every path a config created for that file in the same function "
        "(or a parameter every caller fills with one); and no dictionary owned by an @cache loader is mutated, stored in an attribute or handed to a mutating function before "
        "passing through nested_combine/deepcopy, nested_combine itself copying every leaf.",
        note="Does not decide value-level merge results, user-directory discovery or the parsing of ini/toml files. One reviewed exception (R27B_REVIEWED): the `render` command "
        "applies inline directives to the linter's config on its single-shot stdin branch. " + TRUST,
        design_ref="DESIGN.md §3 C27",
    ),
    "C34": dict(
        technique="static analysis: decorator coverage over the templater class hierarchy (core + plugins), CFG dominance of the read by the size test, handler accounting / may-raise escape analysis for SQLFluffSkipFile, exit-path guards",
        text="Decides the skip protocol end to end: every process/process_with_variants of every templater carries large_file_check; the byte-size test and its raise "
        "dominate the read; every SQLFluffSkipFile handler on the lint path counts the skip into files_skipped or re-raises and produces no lint result; a skip cannot "
        "escape lint_paths/lint_string_wrapped/parse_path; both exit computations consult files_skipped and large_file_skip_fail.",
        note="Known finding: Linter.render_string swallows the character-limit skip (two keys, one root cause). " + TRUST,
        design_ref="DESIGN.md §3 C34",
    ),
}

NOT_APPLICABLE = {
    "C02": "equality of two run-time token sequences through index arithmetic of ~20 match implementations; no structural clause that is both necessary and non-brittle (DESIGN §5)",
    "C07": "tiling/bounds/text-equality of slice maps are relations between run-time integers and strings; no static structural footprint (DESIGN §5)",
    "C12": "token gluing depends on adjacent token texts and each dialect's ordered regex table; needs language-level reasoning over 28 lexers (DESIGN §5)",
    "C16": "query-result equivalence under rewriting needs execution or a SQL semantics; no static counterpart in reach (DESIGN §5)",
    "C17": "idempotence is a fixpoint property of all enabled rules over run-time trees; loop safeguards exist by shape but do not imply it (DESIGN §5)",
    "C20": "the noqa algebra over lines, ranges and rule sets is value-level; apt technique is small-scope enumeration, a different family (DESIGN §5)",
}
