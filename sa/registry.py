"""Registry of claimed properties: what MANIFEST.json is generated from.

``python3 tools/gen_manifest.py`` rewrites /verif/MANIFEST.json from this table.
"""

TRUST = (
    "Trusted: CPython ast / re._parser; the reviewed tables in sa/tables.py; the rule is a necessary "
    "structural condition of the property, not the behaviour itself — a pass never means the behaviour "
    "holds on all inputs."
)

# pid -> dict(technique, text, note, design_ref)
CLAIMED = {
    "C01": dict(
        technique="static analysis: lexer totality over every dialect's resolved matcher table via regex ASTs (first-character / nullability abstraction), def-use wiring of LXR reporting",
        text="Decides (exhaustively over the 28 bundled dialects) that every character outside the last-resort matcher's class is consumed by some matcher that cannot "
        "return an empty match and that the last-resort matcher takes everything else, so lexing can neither drop a character nor reach its fatal raise; and that "
        "unlexable segments are turned into LXR errors without any filter on the way from violations_from_segments through PyLexer.lex to _lex_templated_file.",
        note="Does not decide that tokens concatenate to the rendered text or that positions are contiguous (run-time slice arithmetic). Patterns the stdlib regex parser cannot read are over-approximated or 'unknown' (counted, capped). " + TRUST,
        design_ref="DESIGN.md §3 C01",
    ),
    "C02": dict(
        technique="static analysis: def-use identity flow of the token sequence through the parse entry chain; symbolic interval tiling of the file segment's children in root_parse (split points identified by reaching definitions, path facts for empty remainders); must-pass funnel of iter_unparsables into PRS errors with traversal-shape check of every override; symbolic bound comparison of UnparsableSegment child results in the greedy arms",
        text="Decides (partial claim) that the lexed tokens reach root_parse whole; that every file segment root_parse returns tiles its input by construction (given that MatchResult.apply covers matched_slice); that the root match is limited to the code prefix; that every unparsable node yields a PRS error and no iter_unparsables override hides one; that node construction keeps all children / copies raw and position; that a greedy give-up never lets an unparsable child reach past its parent and never claims look-ahead tokens without an UnparsableSegment.",
        note="Does not decide MatchResult.apply's loop, append/wrap arithmetic or the slices returned by the ~20 match implementations (value-level): equality of tree leaves and lexed tokens as a whole is NOT decided; Rust parser path not analysed. C01 R01b decides the lexer-side filter. " + TRUST,
        design_ref="DESIGN.md §9.5",
    ),
    "C03": dict(
        technique="static analysis: modular abstract interpretation (finite sets of net indents) over the expanded grammar graph of every dialect and every assignment of the indentation keys; def-use origin labelling of the inserts on every return of Sequence.match / Bracketed.match / resolve_bracket, combined with a grammar-graph reachability check per partial return",
        text="Decides the 'indentation balance returns to zero' clause in two halves. Grammars: for every segment class reachable in each of the 28 bundled dialects and every "
        "assignment of the indentation config keys below it, the Indent/Dedent metas of a completed match sum to zero (a non-zero class is accepted only when inlining it makes every "
        "class that embeds it balanced on every path); repeated elements are balanced; the engine's bracket inserts are an Indent/Dedent pair. Engine: the completed return of "
        "Sequence.match carries flushed plus remaining own metas, and a partial (greedy give-up) return may carry own metas only if no non-STRICT sequence of a bundled grammar can "
        "make that prefix unbalanced.",
        note="Does not decide positional containment of children, child order, non-code ends, or the never-negative running balance (incl. template block indents from the lexer). "
        "Known finding: the ran-out-of-segments return flushes a lone Indent (`SELECT` with nothing after it). The grammar graph is obtained by importing the dialect modules of the "
        "analysed tree (declarative definitions) in a subprocess; no SQL is lexed or parsed. " + TRUST,
        design_ref="DESIGN.md §3 C03",
    ),
    "C05": dict(
        technique="static analysis: loop-bound inference for index-advancing scans, reviewed table of next()/index() sites with dominance-checked guards, shape of the exception-to-violation handler in BaseRule.crawl",
        text="Decides the absence of two shapes of latent IndexError/StopIteration/ValueError in rule and reflow code: every index-advancing while/count() scan "
        "bounds its index by the sequence length; every next() without default and .index() site is guarded (try, default, dominating membership test) or is a "
        "reviewed table entry; and BaseRule.crawl converts any exception of _eval/_eval_rust into an 'Unexpected exception' violation without re-raising.",
        note="Does not decide total exception freedom of ~25k lines of rule code over all trees. " + TRUST,
        design_ref="DESIGN.md §3 C05",
    ),
    "C10": dict(
        technique="static analysis: must-pass-through on the CFG (discard step before fixes are handed over), who-may-construct table for SourceFix, must-guard of patch appends, def-use of source-only slices",
        text="Decides that the four independent template-safety filters are wired on every path: every LintResult passes discard_unsafe_fixes unless the "
        "rule class is in the reviewed template_safe_fixes table; SourceFix is constructed only in the reviewed functions; generate_source_patches "
        "keeps a patch touching non-literal slices only if it is an explicit source patch or a zero-length boundary insert; fix_string hands the "
        "templated file's source-only slices to the slicer.",
        note="Does not decide that the filters' slice arithmetic is right for every template. " + TRUST,
        design_ref="DESIGN.md §3 C10",
    ),
    "C11": dict(
        technique="static analysis: codec error-handler pairing of reader/writer open() calls, CFG dominance of the rewrite by the changed flag, single-normalisation count on the reader-to-templater path, def-use chain of the encoding",
        text="Decides the I/O envelope: the decode error handler used to read a linted file and the encode handler used to write it form a lossless pair; "
        "the file is rewritten only if fix_string reports a change (computed by comparing fixed and original source); newlines are normalised exactly once "
        "on the way in and not translated on the way out; the write encoding is the read encoding along the whole chain loader -> RenderedFile -> LintedFile -> writer.",
        note="Does not decide that unpatched regions are copied verbatim for every patch set (C30 covers the wiring). Known finding: errors='backslashreplace' on read. " + TRUST,
        design_ref="DESIGN.md §3 C11",
    ),
    "C12": dict(
        technique="static analysis: per-dialect FIRST/LAST/adjacency fixpoint over the serialised grammar graph carrying layout spacing classes (own type, outermost edge ancestor, spacing_within of the immediate common parent; allow_gaps=False junctions excluded) x the default layout configuration x the dialect's ordered lexer table evaluated (regex module, first-match-wins) on concatenations of the tables' own token texts; CFG/def-use conformance of the respacing and lexer code to that model",
        text="Decides (partial claim), exhaustively for 28 dialects, that every pair of fixed-text tokens (and every pair of keywords) which the grammar lets follow each other and the DEFAULT layout configuration asks to touch is read by the dialect's lexer table as the same two tokens once joined; and that the reflow code deletes inline whitespace only under touch-and-not-any, derives constraints from prev.spacing_after / next.spacing_before / spacing_within of the immediate common parent, never strips a newline next to a comment, and that the lexer is first-match-wins with DOTALL; and (R12d) that every text the dialect's naked-identifier pattern admits -- i.e. every identifier RF06 may unquote -- is read by the lexer table as one word-like token (generated candidates up to length 3 plus symbol and non-ASCII probes).",
        note="No SQL is lexed/parsed/linted through sqlfluff: the dialects' declared pattern strings are applied to strings built from the tables themselves. Does not decide non-default configurations, three-token effects, touch pairs with a variable-text side (counted: 8 409), rules that build text (CV10, ST08, CP/CV rewrites), rebreak/reindent, fix_even_unparsable. 180 known findings: 17 glued pairs x the dialects they occur in (LT01 glues '- -' into a comment, '~ ~', ': :', ': ::', ': :=', '? ::', '@ @', '~ *', the mysql '~' terminator family, exasol dots, oracle MULTISET UNION, postgres VARIADIC ARRAY) and 7 classes of identifiers that RF06 unquotes although the bare text is not one word token (R12d: a quoted 1E5 becomes a number, oracle digit/underscore starts, Unicode case-fold letters). " + TRUST,
        design_ref="DESIGN.md §9.8",
    ),
    "C13": dict(
        technique="static analysis: must-guard (dominance of tree adoption by the validity component) and def-use/typestate of the validation request through apply_fixes' recursion",
        text="Decides that the fix loop only adopts a tree whose apply_fixes validity component was true, that every structure-changing edit kind and "
        "every failed child validation sets the validation request, and that a returned validity can only come from validate_segment_with_reparse, "
        "the explicit unparsable arms, or constant False — never a constant True or a value left over from a child; and (R13d) that validate_segment_with_reparse itself answers True only on the declared-empty arm or after a complete re-match (matched_slice == slice(0, len(content))) whose unparsable sections are a subset of those present before, never from an except handler.",
        note="Does not decide that validation of the edited token list implies that the re-lexed text parses (value-level gap named by the property itself). " + TRUST,
        design_ref="DESIGN.md §3 C13",
    ),
    "C14": dict(
        technique="static analysis: who-may-construct over the RawSegment class hierarchy in rules/layout and utils/reflow, receiver classification of .edit() and LintFix.delete sites by dominating is_type tests / iterated collection / ReflowPoint invariant, frozen move table",
        text="Decides what layout code is able to put into or take out of a fix: every segment constructed in layout rules and reflow is a whitespace or newline "
        "segment with whitespace-only constant text; every raw .edit() is applied to a whitespace-like receiver; every ReflowPoint is built from whitespace-like "
        "segments only; every delete of something not established as whitespace/newline/indent is one half of a move (re-inserted in the same result) or a reviewed table entry.",
        note="Does not decide that the amount of whitespace is right or that moved segments keep their order. Syntactic classification only (no type checker). " + TRUST,
        design_ref="DESIGN.md §3 C14",
    ),
    "C15": dict(
        technique="static analysis: abstract domain of case-homomorphic string expressions (closed under str case methods, conditional choice and group-tiling regex.sub) over the CP rules, with regex ASTs",
        text="Decides that every edit built by the capitalisation rules is replace(anchor, [anchor.edit(new_raw)]) with new_raw a case-homomorphic image of anchor.raw "
        "(only letter case can differ), with one replacement segment anchored on the edited segment itself.",
        note="Does not decide which tokens are selected for editing; the opt-in native path (sqlfluffrs) is outside the analysed tree. Known finding: the documented snake policy inserts underscores. " + TRUST,
        design_ref="DESIGN.md §3 C15",
    ),
    "C17": dict(
        technique="static analysis: role discovery by def-use (rules loop, pass loop, working tree, fix switch); CFG path obligations between adoption sites, flag assignments and pass-loop exits (alias-aware guard atoms); must-pass of crawl / cannot-fix branch per iteration; reaching-definition independence of the iterated rule list from per-pass state",
        text="Decides (partial claim) that lint_fix_parsed returns a tree only after a complete pass over every fix-capable rule that adopted nothing, or the saved tree: every exit reachable from an adoption is blocked by a flag the adoption sets and nothing resets; loop-limit exhaustion never falls through while fixing; no rule that can fix is skipped and the rule list does not depend on per-pass state.",
        note="Does not decide that rules do not undo each other, the early-stop safeguards (which leave a fix pending by design), post->main phase interaction, is_fix_compatible declarations, re-lex/re-parse stability (C12/C02) -- idempotence as a whole is NOT decided. Rollback: C18 R18b; adoption validity: C13 R13a; written text: C30/C11/C26. " + TRUST,
        design_ref="DESIGN.md §9.7",
    ),
    "C18": dict(
        technique="static analysis: path-sensitive gate proof over the CFG (relevant-branch DNF dataflow) with suppression-filter kind inference of counts; interprocedural lifting of sinks to call sites",
        text="Decides, for every call that can produce or persist fixed text (fix_string / persist_tree / persist_changes outside their owning "
        "classes), that on every path it is reached only when fix_even_unparsable is set, or the file's UNFILTERED TMP/PRS count is zero, or the "
        "discard step already ran on the same result and the sink is conditioned on a fixable count; that the discard step keys on the unfiltered "
        "per-file count and clears every lint error's fixes; that persist_tree self-gates; and that the loop-limit exit returns the saved tree with fixes cleared.",
        note="Does not decide what lint_fix_parsed does to the tree of an unparsable file when fix_even_unparsable is set, nor Python-level aliasing beyond plain local aliases. " + TRUST,
        design_ref="DESIGN.md §3 C18",
    ),
    "C19": dict(
        technique="static analysis: sibling cross-check of the lint drivers by def-use provenance (rule pack vs per-file config), path-sensitive must-precede for the stdin-filename config, dominance of exit-deciding count reads by the discard step",
        text="Decides three agreements between the path / stdin / API drivers that are necessary for equal violations, fixed text and exit status: "
        "the rule pack is always built from the per-file config that already holds the inline directives; stdin with --stdin-filename and paths build "
        "that config with the same constructor and both process inline config; every fix driver reads exit-deciding fixable/unfixable counts after the discard step.",
        note="Does not decide equality of results for every input; known finding: _stdin_fix reads the unfixable count before the discard step (pinned by the existing test-suite). " + TRUST,
        design_ref="DESIGN.md §3 C19",
    ),
    "C22": dict(
        technique="static analysis: backward influence closure from sys.exit arguments (data + control dependence, through helper returns) with suppression/warning filter kinds of every contributing count; counter-advance audit; def-use on stats",
        text="Decides that every violation count that can influence the exit status of lint/fix/format is taken with suppression AND warning "
        "filtering, that the LintedDir counters behind them are only advanced by such counts (constant advances must exclude warning records), that "
        "stats' exit code is fail_code iff the filtered violations statistic is positive, that the exit constants are 0/1/2 and that user errors exit 2 via the CLI handler.",
        note="Does not decide the 'exactly when' direction for every input/config combination; user errors swallowed by the parallel runner's funnel are C24's R24d. " + TRUST,
        design_ref="DESIGN.md §3 C22",
    ),
    "C26": dict(
        technique="static analysis: typestate over the CFG of the file-replacing function (found by role), exception-cleanup shape, who-may-write table over every write-capable call in src/ and plugins/",
        text="Decides the order and ownership of filesystem calls on the write path: temp file created in the target directory with delete=False, "
        "write -> flush -> fsync inside the with, chmod on the temp, rename after close onto the output path, nothing touches the destination afterwards; "
        "all inside a try whose BaseException handler removes the temp and re-raises; encoding/newline/mode fidelity; with a suffix the original is only stat'ed; "
        "and no other function in the tree has a write-capable call outside the reviewed table.",
        note="Assumes POSIX rename atomicity and that NamedTemporaryFile(dir=d) creates in d. " + TRUST,
        design_ref="DESIGN.md §3 C26",
    ),
    "C29": dict(
        technique="static analysis: exhaustive reference resolution over the expanded grammar graph of every bundled dialect (Ref / keyword strings / bracket sets against the expanded library), loadability of every lookup entry, matchability of referenced segment classes against the lexer's token class hierarchy; lexer totality is C01's R01a",
        text="Decides the property for the 28 bundled dialects: every dialect of the lookup imports, exposes its Dialect object, expands, has a resolving root segment and lexer matchers; every Ref, bare keyword string, delimiter, terminator, exclude and bracket reference reachable from the root resolves in the dialect's expanded library and every bracket type/set used exists; every referenced segment class can be matched (has a match grammar or its own match, or every code token class is an instance of it).",
        note="Known findings (46, each keyed by dialect + reference + declaring class): FORMATS/POLICIES inherited from ansi by 18 dialects, postgres-family Ref('COLUMN'), mysql-family Ref('TableReference'), postgres-family EXECUTION; their repairs exist (c29_blocked_patches/) but the existing suite's parity cases expect these statements to raise. 129 other dangling references were repaired by 17 fix: commits. The grammar graph is obtained by importing the dialect modules of the analysed tree in a subprocess; no SQL is lexed or parsed. " + TRUST,
        design_ref="DESIGN.md §3 C29, §9.1",
    ),
    "C30": dict(
        technique="static analysis: must-guard / def-use wiring checks on merge_source_patches, the slicer and the builder (CFG dominance, sorted() provenance)",
        text="Decides the wiring that makes overlapping or repeated application impossible: a patch joins the merged list only after the duplicate test "
        "and the conflict test against every kept patch; the slicer only ever receives lists that flow from sorted(...) on source start; a patch starting "
        "before the cursor is skipped before its slice is emitted; the builder applies a patch only on exact slice equality and at most once per slice.",
        note="Does not decide that _patches_conflict's interval arithmetic is right for every pair. " + TRUST,
        design_ref="DESIGN.md §3 C30",
    ),
    "C33": dict(
        technique="static analysis: def-use of every LintedFile construction (violations = deduplicate_in_source_space(...)), structure of the seen-set filter and sort keys, content of source_signature",
        text="Decides that every LintedFile is built from the de-duplicated, (line, pos)-sorted list, that the de-duplication keeps exactly the violations "
        "whose source signature was not seen and records each kept one, that records are serialised sorted by (line, pos, code), and that the signature "
        "covers check tuple, description, edit raws and source-fix source ranges but no templated-space attribute.",
        note="Does not decide that equal signatures mean the same violation for a user. " + TRUST,
        design_ref="DESIGN.md §3 C33",
    ),
    "C24": dict(
        technique="static analysis: sibling cross-check of the three render->pack->lint sites by def-use provenance; attribute-read closure for the worker's rebuilt Linter; order-insensitivity of result assembly; exact shape of config pickling; exception-funnel agreement",
        text="Decides that the serial path, the deferred-in-main path and the worker path perform the same render_file(task filename, runner root config) -> "
        "get_rulepack(config=rendered.config) -> lint_rendered(.., task fix flag) sequence; that the Linter rebuilt in a worker receives every constructor input "
        "the methods called on it read (config, user rules, templater re-created from the same config); that lint_paths files results by their own path, sorts "
        "records and reads the skip counter after the stream; that pickling a config drops only the plugin manager and templater object on copies; and that every "
        "catch-all in the runners feeds one funnel which re-raises I/O and user errors.",
        note="Does not decide equality of results under real process scheduling, nor pickling fidelity of arbitrary config values. " + TRUST,
        design_ref="DESIGN.md §3 C24",
    ),
    "C25": dict(
        technique="static analysis: path-spelling kind inference (abstract interpretation over discovery.py) + CFG must-guard + def-use",
        text="Decides that no comparison in file discovery mixes an absolutised path with a caller-spelled path (the exact condition "
        "under which relative/absolute/'.' spellings select the same files), that every produced file passed the extension and both "
        "ignore tests, that specs are matched relative to their own directory, and that no working directory is frozen at import time.",
        note="Does not decide pathspec's gitignore semantics or os.walk. " + TRUST,
        design_ref="DESIGN.md §3 C25",
    ),
    "C27": dict(
        technique="static analysis: argument-provenance (derivation cones over the CFG) of the config merge calls, fresh-receiver typestate for in-place config mutators, cache-escape taint from @cache loaders with mutation summaries",
        text="Decides three structural clauses of configuration precedence and isolation: the merge calls in load_config_up_to_path and FluffConfig.__init__ receive their "
        "layers in precedence order by provenance (app dir, home, parents, cwd->file in the outer->inner order iter_intermediate_paths yields, extra config file; then plugin "
        "defaults, file configs, overrides wrapped under 'core'), and child configs / from_path / from_root / the CLI forward overrides, extra_config_path and ignore_local_config; "
        "every receiver of an in-place config mutator outside FluffConfig (inline directives, set_value) is on every path a config created for that file in the same function "
        "(or a parameter every caller fills with one); and no dictionary owned by an @cache loader is mutated, stored in an attribute or handed to a mutating function before "
        "passing through nested_combine/deepcopy, nested_combine itself copying every leaf.",
        note="Does not decide value-level merge results, user-directory discovery or the parsing of ini/toml files. One reviewed exception (R27B_REVIEWED): the `render` command "
        "applies inline directives to the linter's config on its single-shot stdin branch. " + TRUST,
        design_ref="DESIGN.md §3 C27",
    ),
    "C34": dict(
        technique="static analysis: decorator coverage over the templater class hierarchy (core + plugins), CFG dominance of the read by the size test, handler accounting / may-raise escape analysis for SQLFluffSkipFile, exit-path guards",
        text="Decides the skip protocol end to end: every process/process_with_variants of every templater carries large_file_check; the byte-size test and its raise "
        "dominate the read; every SQLFluffSkipFile handler on the lint path counts the skip into files_skipped or re-raises and produces no lint result; a skip cannot "
        "escape lint_paths/lint_string_wrapped/parse_path; both exit computations consult files_skipped and large_file_skip_fail.",
        note="Known finding: Linter.render_string swallows the character-limit skip (two keys, one root cause). " + TRUST,
        design_ref="DESIGN.md §3 C34",
    ),
    "C04": dict(
        technique="static analysis: may-raise fixpoint for the repository's error types over a supplemented call graph (decorator wrappers cloned per function, property getters, closures, deferred partials, class aliases, Matchable protocol) with handler classification (convert / translate / verdict / log-only); CFG dominance of fix sinks and limit comparisons; cycle detection on the matching call graph minus calls inside `with deeper_match`; closed reviewed table of unhandled builtin raises",
        text="Decides the error discipline of the lint path: every raise of SQLParseError/SQLLexError/SQLTemplaterError/SQLFluffSkipFile under src/sqlfluff that can reach a public Linter method, an api.simple function or a CLI command is absorbed on every call chain by a handler that puts it into the returned violations list (or translates it, or is a reviewed verdict), log-only catch-alls counting as degraded; every LintedFile.fix_string() call is dominated by a test implying a tree; the depth and node-budget comparisons dominate the work they guard and raise a handled type, the token count is charged to the budget before matching, and every recursion cycle of the matching code passes through deeper_match; the explicit raises of builtin exception types that reach an entry point unhandled equal a reviewed table of 36 (26 invariants, 6 invalid-config paths, 4 API misuse).",
        note="Does not decide absence of RecursionError/IndexError/AssertionError for arbitrary inputs, asserts, third-party exceptions, or plugin (dbt/sqlmesh) chains (printed as notes: 1 today, no runnable witness in this sandbox). Known finding: Linter.render_string swallows the character-limit skip, so api.parse / `render -` fail on an assertion / IndexError for a skipped string. Six table entries of class 'config' are tracebacks for invalid configuration today. " + TRUST,
        design_ref="DESIGN.md §3 C04",
    ),
    "C06": dict(
        technique="static analysis: FIRST/EPS fixpoint over the expanded grammar graph of every dialect compared with the declared simple() hints; component-wise def-use of the parse-cache key (through locals, tuple displays, helpers) tied to the receiver/arguments of the cached match; CFG guard check of the per-grammar hint cache; symbolic path walk of prune_options; shared-state inventory and who-may-write rule for matcher objects",
        text="Decides the structural half of optimisation-independence. Cache: the match cache is a fresh dict per ParseContext, touched only by its two methods, a context is built per parse and never stored, and the key at both use sites contains position and a discriminator of segments[idx], len(segments) and the cache_key() of the very matcher whose match is stored; matcher keys are fresh-unique slots or cover the fields match reads. Hints: for all 127k reachable grammar nodes of the 28 bundled dialects FIRST(node) is contained in simple(node) and nodes that can match with metas only have no hint; the per-grammar hint cache is only read under uuid equality with a per-instance uuid; prune_options drops an option only after hint-not-None, raw test and type test all failed; next_match tries candidates in matcher order. History: no mutated process-lifetime container in core/parser outside a reviewed table, no write to grammar/parser/segment-class objects outside construction, no memoiser in the matching modules.",
        note="Does not decide that a cached match equals a fresh one under a different terminator stack (key omits terminators, no witness), the unparsable claims of greedy parse modes under pruning, positions starting on non-code tokens with allow_gaps=False, hash-order independence beyond next_match, or that BaseGrammar.copy() re-keys (no two different options share a key in any bundled dialect today). Hints are the values of the declared simple() methods obtained by importing the dialect modules in a subprocess; no SQL is lexed or parsed. " + TRUST,
        design_ref="DESIGN.md §3 C06",
    ),
    "C07": dict(
        technique="static analysis: DNF of the guard conditions of every assert/raise in TemplatedFile.__init__ (and helpers it calls), loop-carried position / previous-element recognition by reaching definitions, must-pass coverage from caller-provided stores to exit; whole-tree single-writer / in-place-mutation scan by receiver class incl. local aliases and callees; def-use provenance classification of every TemplatedFile construction site, generator yields and the variant re-mapper",
        text="Decides (partial claim) that the two tiling clauses are enforced at construction and cannot be bypassed: the constructor refuses, by equality tests over every element on every path, raw slices not tiling the stored source 0..len and rendered slices not tiling the stored rendered text 0..len; lists/texts are stored only there and never mutated; every construction site is unsliced or passes both lists and a non-None rendered text of one provenance; the variant generator keeps trace, text and list together and the re-mapper emits one slice per input slice with the rendered span untouched.",
        note="Does not decide source slices in bounds/ordered (variant re-mapping arithmetic), literal text equality, non-negative widths, an empty rendered list over non-empty text (not rejected; no bundled producer), aliases kept by slicer objects; asserts assumed enabled (no python -O). Relies on C08 R08b, C09 R09d/e, C31 R31b. " + TRUST,
        design_ref="DESIGN.md §9.7",
    ),
    "C08": dict(
        technique="static analysis: keyword-table agreement of every Jinja environment construction with the 'no markup' fast-path test (regex AST, finite language covers the default openers), def-use chain process -> slice_file -> analyzer -> tracer -> trace() for the rendered text, config-read closure vs. fast-path guard",
        text="Decides that every Jinja environment built in core and plugins keeps default delimiters / no line statements / keep_trailing_newline=True, that the early identity return of JinjaTemplater.process excludes every file containing '{{', '{%' or '{#' and every configured macro/library loader, and that TemplatedFile.templated_str is render_func(raw_str) of the unmodified source (never the instrumented trace template) for jinja and dbt.",
        note="Does not decide Jinja's determinism, context equality with an external render, unreached-code variants, or dbt's own environment. Assumes newline-normalised input (C11 R11c). " + TRUST,
        design_ref="DESIGN.md §3 C08",
    ),
    "C09": dict(
        technique="static analysis: regex AST of the dotted-name rewrite (brace-exclusion of field atoms, escaped-pair handling, lazy spec), def-use of the render closure and context, regex-AST well-formedness of the placeholder style table, abstract match-position evaluation of PlaceholderTemplater.process",
        text="Decides that the python templater's dotted-name rewrite cannot swallow or mis-read escaped braces, that rendering is str.format/format_map of the rewritten unmodified source with the live context (fallback only under ignore=templating), that KNOWN_STYLES is well formed, and that the placeholder templater copies source[PREV:START] + the context value/name of the matched (or numbered) parameter + the tail, with slice records using the same bounds.",
        note="Does not decide equality with str.format for every string (!conv, attribute/index fields), templated offsets, or style coverage. Fixed: R09a fired three times on the original rewrite regex (fadf47b). " + TRUST,
        design_ref="DESIGN.md §3 C09",
    ),
    "C20": dict(
        technique="static analysis: path-sensitive propositional gate (PathFacts) at every IgnoreMask construction site found tree-wide; def-use sibling agreement of the construction arguments; rolling-filter chain and must-pass marking analysis of the matchers; flag-based 'expansion or raw reference' proof in _parse_noqa; reader/writer agreement on the None encoding of 'all rules'",
        text="Decides (partial claim) that no mask exists when noqa is disabled without an except-list; that all construction sites read directives with the same restricted reference map in source space; that the mask is applied exactly under filter_ignore, every directive is consulted by exactly one matcher, hiding marks the directive and unused warnings are exactly 'not used'; that unmatched references (PRS/LXR/TMP) stay matchable; that 'applies to every rule' is read the way it is written.",
        note="Does not decide the algebra over line numbers, ranges and rule sets (which directive covers which line, ordering of range directives, glob matching). Fixed: R20e, the range matcher read an empty rule list as 'all rules' (5046079). " + TRUST,
        design_ref="DESIGN.md §9.5",
    ),
    "C21": dict(
        technique="static analysis: element-provenance of the crawl receiver (def-use through wrappers, filters and helper returns), dominance of tree rebinding / apply_fixes by the fix flag, who-may-write table over segment fields and in-place mutators derived from the segment classes, def-use shape of RuleSet.get_rulepack / _expand_rule_refs, closed tables of rule-instance state and RS-state over rule code",
        text="Decides independence in lint mode by construction: only members of rule_pack.rules are crawled and only their results (plus noqa parse errors) are returned, each attributed to the running rule; every rule is handed the tree that was passed in unless fix is set; segment fields are written only in core/parser/segments and at reviewed clone/fix sites; rule objects, rule classes and rule helper modules keep no state between evaluations beyond reviewed memo/scratch rows. Decides the structural half of selection: instantiated codes = register codes in expand(allow-list) and not in expand(deny-list), one expander over one reference map that is also the pack's noqa map, keys wired to rules/exclude_rules.",
        note="Does not decide the run-time set arithmetic of glob/alias/group expansion, re-parenting of children when a rule builds a new parent segment, or anything in fix mode. Receiver classification is syntactic. " + TRUST,
        design_ref="DESIGN.md §3 C21",
    ),
    "C23": dict(
        technique="static analysis: coordinate-space kind inference (source vs rendered offsets/slices/texts, line vs column; context-sensitive abstract interpretation seeded from the declared slice fields) over the eight position-handling modules, plus def-use wiring of SQLBaseError / PositionMarker / source_position_dict_from_slice / LintFix.to_dict and word-class pairing of the annotation writers' keys",
        text="Decides that no position computation in markers, templaters/base, errors, rules/fix, linter/patch, linted_file, lexer and segments/meta uses a rendered-space value where a source-space one is required (text subscripts, the offset->line/column converter, newline tables, every kinded constructor field, comparisons/arithmetic; SRC-TPL only in the two reviewed translation functions), that a violation's line/column are components 0/1 of the marker's source_position() which converts the START of its SOURCE slice with source=True, that serialised offsets and line/column come from the same end of the same slice through one converter call, that fix/violation serialisation moves line, column and offset together and from the stored segment's marker, and that SARIF/GitHub writers feed line keys from *_line_no and column keys from *_line_pos.",
        note="Does not decide that a rule anchors the offending code, that source slices of templated segments are tight, the converter arithmetic (C31), or errors built without a marker (file-level templater failures carry explicit/default coordinates). Values joined from both spaces, untyped receivers and lengths are 'undetermined' and never alarm (counted; decided-site floors). " + TRUST,
        design_ref="DESIGN.md §3 C23",
    ),
    "C28": dict(
        technique="static analysis: def-use of every as_record/to_tuple request in the tree, must-guard of the record merge by the key-uniqueness test, structure of the serialisers' child visits (iterated collection, filters, option pass-through, leaf text), override table over the segment class hierarchy",
        text="Decides wiring facts of the parse output: every serialisation request (parse command, api.simple.parse) passes show_raw=True and never forces code_only/include_meta; as_record forwards its options unchanged; structural_simplify merges child records only under a dominating test that all children's keys are distinct, else keeps the ordered list; to_tuple/stringify visit self.segments itself in order with options passed through, filter only meta segments when code_only is off, and emit self.raw unmodified at leaves; only meta classes override a serialiser.",
        note="Minimal claim: not a proof that the listed texts concatenate to the rendered SQL. Known finding: the human format lists an unparsable section's comments before its other tokens (UnparsableSegment.comment_separate). " + TRUST,
        design_ref="DESIGN.md §3 C28",
    ),
    "C31": dict(
        technique="static analysis: kind of the stored newline tables (RQ-space), polarity of the source flag at every table read (CFG conditions), whole-tree single-writer scan by receiver class, def-use cones of the converter's and infer_next_position's result components, newline-literal agreement",
        text="Decides the pairing and ownership facts of the conversion: the source table is built from the source text and the rendered one from the rendered text by the same finder; get_line_pos_of_char_pos consults the source table iff `source`; the tables and texts are stored only in TemplatedFile.__init__, text before table and never after, with no in-place mutation anywhere; the bisected table is the one subtracted for the column and both use the offset parameter; every newline-sensitive string operation uses the single literal newline (no splitlines); infer_next_position keeps line and column derivations apart.",
        note="Weakest level: the integer arithmetic (bisect_left vs bisect_right, the +1s, the nl_idx-1 index, the column after a newline) is NOT decided — within this family it would be a frozen-fragment match. " + TRUST,
        design_ref="DESIGN.md §3 C31",
    ),
    "C32": dict(
        technique="static analysis: flag-aware call-graph reachability (constant propagation of boolean arguments/defaults, edges cut by dominating tests) from the lint/parse/render entry points to every write-capable function; RS-state inventory (sa/state.py) of module-/class-level objects, global rebindings, external module state and process caches with scope-resolved mutation sites; parameter-rooted mutation table for core/linter, core/rules, core/config",
        text="Decides that no file-writing function other than the writers of a user-named output artefact is reachable from lint, parse and render under the flags they pass (persist_tree is cut by apply_fixes=False); that the set of process-lifetime mutable state equals the reviewed table (15 cells, 25 sites, 4 caches; 110 other shared containers are constant tables) and every site is in a reviewed writer; that functions on the lint path mutate caller-owned arguments only at reviewed (function, access path, operation) rows.",
        note="Does not decide bit-identical violations across arbitrary histories; BlockTracker's class-level stack/map is reviewed-harmless (stale entries are never read; no witness of a changed result in 16 Jinja shapes) but leaks entries for call blocks. Writes by libraries outside the tree, lambda bodies and property bodies are not followed. " + TRUST,
        design_ref="DESIGN.md §3 C32",
    ),
}

NOT_APPLICABLE = {
    "C16": "query-result equivalence under rewriting needs execution or a SQL semantics; no static counterpart in reach (DESIGN §5)",
}

# Rules added after independent authors' seeded changes (rounds 2 and 3; DESIGN.md 9.10 - 9.12).  Appended to the
# claim text by tools/gen_manifest.py so that the manifest says what the check decides today.
LATER_RULES = {
    "C01": "R01e the carried text of a subdivided match only grows or is flushed in _trim_match; R01c placeholder emission never depends on the indent switch; R01d a split element is cut where the previous piece ended.",
    "C02": "R02b an unmatched remainder is empty, non-code or wrapped as unparsable; R02e(3) an unparsable section starts at the first code token after the matched part. R02f every parsed variant pairs a templated file with the tree lexed and parsed from that same file.",
    "C03": "R03f Sequence.match buffers every Conditional/Indent element unconditionally (meta arms first, straight-line, continue). R03d a node's position is the hull of all its children; R03e buffered metas are emitted in grammar order.",
    "C04": "R04f no next() without default / R04g no mis-sized split unpacking outside the rule packages; R04h a variant's tree is known to exist where it is linted. R04i the python templater slices a string only after rendering accepted it.",
    "C05": "R05d flag forwarding in recursive walks; R05e constant subscripts guarded; R05f no whitespace segment from an empty text; R05g every assert discharged, typing-only or reviewed; R05h no fix with an empty edit. R05i rules that read their memory hand it back; R05j no create fix re-creates an unfiltered span of siblings (metas have no raw).",
    "C07": "R07i the tracer measures a section's rendered length on the untransformed tail of the trace part; R07d per-variant working state; R07e left-strip handling for every opening token; R07f field token rebuilt in format-grammar order; R07g override delta measured on the rendered text; R07h adjusted slices carry the running delta.",
    "C08": "R08a also: environment policies stay at Jinja's defaults; R08d stand-ins never win over the user's context (bulk merges included). R08e ignore_templating is decided by membership of 'templating' in the ignore list.",
    "C09": "R09g overlapping occurrences counted; R09h context layered default < config < override; R09i a matched placeholder is a templated slice. R09j infer_type results.",
    "C10": "R10e scan bounds; R10f every templated slice is a conflict; R10g break safety by literalness only; R10h JJ01 tag surgery; R10i end of file is the end of the last raw slice. R10j JJ01 rebuilds a tag from its own five parts in order. R10f also: only create fixes may ask that ALL slices be templated.",
    "C11": "R11g a constant codec replaces the detector's verdict only when there is none; R11e autodetect judges the whole file, never a slice; R11f string input reaches render_string as given.",
    "C12": "R12d what RF06 unquotes lexes back as one word; R12e borrowed whitespace goes on the gap side of a pending insertion. R12f segments re-created by a fix keep their source order (backwards scans cancel out).",
    "C14": "R14c comment guard of respace; R14d LT09 never moves a target behind a comment; R14e LT12's trailing-newline scan stops at comments. R14f determine_constraints' verdict is final.",
    "C15": "R15c CP05 child iteration; R15d no keyword parser matches quoted text. R15e no capitalisation rule crawls a type that may be a quoted name (four known findings).",
    "C18": "R18e templating errors are kept on every path of the variant loop; 'unfiltered' counts also keep warning-level errors. R18f root_variant returns the first parsed variant or None.",
    "C19": "R19d sibling drivers share options; R19e records built from get_violations(filter_warning=False).",
    "C20": "R20i range directives are sorted by position only (source order within a line kept); R20f restricted noqa map built from the full map; R20g the source fallback counts lines by the newline literal. R20f also: special error codes are expanded into a copy; R20h the ignore list reaches every filter.",
    "C21": "R21l the kwargs dict of each rule in get_rulepack is created inside the iteration (no alias of the generic config or a section). R21g dialect collections never changed in place by rules; R21h the selector expander drops no selector; R21i derived selection lists recomputed on every path. R21j default-to-all only on the configured allow-list; R21k the simple API distinguishes 'not given' from empty.",
    "C22": "R22g parse-error counts reach the fix drivers' exit status only under not fix_even_unparsable.",
    "C23": "R23e per-record mappings carry nothing across iterations; R23f line fields from line numbers, column fields from columns. R23g optional positions tested with `is not None` in the lexer.",
    "C24": "R24g a Linter keeps no state between files. R24h every sequenced file yields a task; no skip decided at dispatch.",
    "C25": "R25k the keys discovery reads as ignore patterns are not path-resolved by the config loader (table agreement); R25e inner ignore files loaded for every walked directory; R25h every outer ignore source tried; R25i same-name options forwarded from the parameter of that name. R25j sub-directories dropped only by the ignore test, on a path built from the walked directory.",
    "C27": "R27d copy() deep-copies; R27e nested_combine stores every key; R27f unset command-line options do not override config files.",
    "C28": "R28d per-variant tree output; R28e record values set in the iteration that uses them; R28f comment / non-comment lists partition the children; R28g type and text printed in full. R28h machine-readable output keeps the key order; R28i only an empty tuple becomes null.",
    "C29": "R29c matchable class references; R29d a dialect module changes only its own dialect object.",
    "C30": "R30j the flush loop is conditioned on the head starting strictly before the patch; R30e same-range patches conflict unless identical; R30f / R30h the slicer's equality pop (after the flush, on the equality only); R30g dedupe key = range + text. R30i overlap test symmetric.",
    "C31": "R31c also: an unrecognised newline finder is judged for splitlines() before the table rule gives up. R31d serialised create fixes collapse every coordinate onto the kept end.",
    "C32": "R32d templater objects keep nothing from a file; R32e keyed memos identify every input; R32f setattr only on per-call objects. R32g memoised config loaders keyed on absolute paths.",
    "C33": "R33a also: the seen set only grows; R33c variant / templated-file coherence; R33d CLI listing sorted at the print site; R33e noqa filters preserve order. R33f descriptions embed no templated-file coordinates.",
    "C34": "R34b limit read from the file's own config; R34d skip-fail escalation on every exit.",
    "C06": "R06d prune_options drops only on a failed raw and type test; R06e next_match candidate order; R06f cache keys fresh per matcher; R06g a plain GREEDY sequence is never a prunable option.",
    "C13": "R13c nested re-parse validation runs under the file's node budget. R13d the re-parse oracle: positive answers of validate_segment_with_reparse are dominated by full re-match and unparsable-subset tests, no positive answer from a handler.",
    "C17": "R17d CP01 and CP05 own disjoint tokens.",
    "C26": "R26c also: a mask on the carried-over mode keeps all twelve mode bits.",
}
