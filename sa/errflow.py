"""May-raise flow of exception types over a supplemented call graph (used by C04).

``sa/excflow.py`` (DESIGN 2.5) walks the plain call graph.  For the parse / lint /
fix path that graph loses exactly the edges that matter for "never crash":

* decorated functions      ``@large_file_check def process`` is entered through the
                           decorator's wrapper, which may raise itself and whose
                           handlers sit between caller and callee;
* properties               ``self.dbt_manifest`` is a call of a ``cached_property``;
* closures                 ``render_func`` is built in one function, returned in a
                           tuple and invoked (or handed on) somewhere else;
* deferred callables       ``functools.partial(self.linter.lint_rendered, ..)`` is
                           created in a generator and invoked as ``partial()`` /
                           ``task()`` by the runners;
* aliases / unions         ``Lexer = get_lexer_class()`` -> ``type[Union[PyLexer, ..]]``.

This module turns call-graph edges into *surfaces* (caller, AST node at which an
exception of the callee becomes visible in the caller, callee), adds surfaces
for the five constructs above and solves the may-escape fixpoint with a
pluggable view on handlers:

* a handler *covers* T when it names T, a base class of T (builtin bases
  included: ``SQLBaseError`` is a ``ValueError``) or is bare;
* a covering handler that re-raises the caught object (anywhere in its body,
  optionally under ``isinstance(<caught>, K)``) lets it propagate outward;
* otherwise the exception is *absorbed* there; every absorption is recorded so
  that the rule can classify the handler (converting / verdict / log-only).

Nothing here runs sqlfluff: it is ``ast`` + the source-level call graph.
"""

from __future__ import annotations

import ast
import builtins
from typing import Dict, Iterable, List, Optional, Set, Tuple

from .callgraph import EXTERNAL, CallGraph, FuncInfo, _strip_annotation
from .index import FuncNode, Repo, call_name, enclosing_function, norm, parent, walk_local

SCOPE = (
    "src/sqlfluff/core/",
    "src/sqlfluff/api/",
    "src/sqlfluff/cli/",
    "src/sqlfluff/utils/",
    "src/sqlfluff/rules/",
    "plugins/",
)

PROPERTY_DECOS = ("property", "cached_property", "functools.cached_property")


# ---------------------------------------------------------------------------
# exception type lattice: in-tree classes + the builtin hierarchy
# ---------------------------------------------------------------------------


class ExcTypes:
    def __init__(self, repo: Repo):
        self.repo = repo
        self.bases: Dict[str, List[str]] = {}
        for m in repo.modules.values():
            if "Error" not in m.text and "Exception" not in m.text:
                continue
            for q, c in m.classes():
                if c.bases and c.name not in self.bases:
                    self.bases[c.name] = [norm(b).split(".")[-1] for b in c.bases]
        self._anc: Dict[str, Set[str]] = {}

    def ancestors(self, t: str) -> Set[str]:
        got = self._anc.get(t)
        if got is not None:
            return got
        out: Set[str] = set()
        stack = [t]
        while stack:
            x = stack.pop()
            if x in out:
                continue
            out.add(x)
            if x in self.bases:
                stack.extend(self.bases[x])
            else:
                b = getattr(builtins, x, None)
                if isinstance(b, type) and issubclass(b, BaseException):
                    out.update(k.__name__ for k in b.__mro__ if k is not object)
        self._anc[t] = out
        return out

    def is_exception(self, name: str) -> bool:
        return "BaseException" in self.ancestors(name)

    def covers(self, handler_type: Optional[ast.expr], t: str) -> bool:
        if handler_type is None:
            return True
        hs = handler_type.elts if isinstance(handler_type, ast.Tuple) else [handler_type]
        anc = self.ancestors(t)
        return any(norm(h).split(".")[-1] in anc for h in hs)

    def is_broad(self, handler_type: Optional[ast.expr]) -> bool:
        if handler_type is None:
            return True
        hs = handler_type.elts if isinstance(handler_type, ast.Tuple) else [handler_type]
        return any(norm(h).split(".")[-1] in ("Exception", "BaseException") for h in hs)


# ---------------------------------------------------------------------------
# handlers
# ---------------------------------------------------------------------------


def _walk_handler(h: ast.ExceptHandler):
    for s in h.body:
        yield s
        yield from walk_local(s)


def reraise_filter(et: ExcTypes, h: ast.ExceptHandler) -> Optional[List[Optional[ast.expr]]]:
    """None when the handler never re-raises the caught object; otherwise the
    list of ``isinstance`` type filters under which it does (``None`` element =
    unconditional / not type-filtered)."""
    out: List[Optional[ast.expr]] = []
    for n in _walk_handler(h):
        if not isinstance(n, ast.Raise):
            continue
        e = n.exc
        same = e is None
        if isinstance(e, ast.Name) and e.id == h.name:
            same = True
        if isinstance(e, ast.Call) and isinstance(e.func, ast.Attribute) and isinstance(e.func.value, ast.Name) and e.func.value.id == h.name:
            same = True  # raise e.with_traceback(..)
        if not same:
            continue
        # a nested try inside the handler that would itself catch the re-raise is not modelled
        flt: Optional[ast.expr] = None
        child, p = n, parent(n)
        while p is not None and p is not h:
            if isinstance(p, ast.If) and child in p.body:
                t = p.test
                if isinstance(t, ast.Call) and call_name(t) == "isinstance" and len(t.args) == 2 and isinstance(t.args[0], ast.Name) and t.args[0].id == h.name:
                    flt = t.args[1]
            child, p = p, parent(p)
        out.append(flt)
    return out or None


def propagates(et: ExcTypes, h: ast.ExceptHandler, t: str) -> bool:
    fl = reraise_filter(et, h)
    if fl is None:
        return False
    return any(f is None or et.covers(f, t) for f in fl)


def always_reraises(h: ast.ExceptHandler) -> bool:
    """Top-level unconditional re-raise (the handler is transparent)."""
    for s in h.body:
        if isinstance(s, ast.Raise):
            e = s.exc
            if e is None or (isinstance(e, ast.Name) and e.id == h.name):
                return True
            if isinstance(e, ast.Call) and isinstance(e.func, ast.Attribute) and isinstance(e.func.value, ast.Name) and e.func.value.id == h.name:
                return True
        if isinstance(s, (ast.Return, ast.Continue, ast.Break)):
            return False
    return False


def handlers_around(node: ast.AST, func: ast.AST) -> List[Tuple[ast.Try, ast.ExceptHandler]]:
    """(try, handler) pairs whose try *body* contains node, innermost first."""
    out = []
    child, p = node, parent(node)
    while p is not None and child is not func:
        if isinstance(p, ast.Try) and any(child is s for s in p.body):
            for h in p.handlers:
                out.append((p, h))
        child, p = p, parent(p)
    return out


# ---------------------------------------------------------------------------
# surfaces
# ---------------------------------------------------------------------------


class Surface:
    __slots__ = ("caller", "node", "target", "how")

    def __init__(self, caller: FuncInfo, node: ast.AST, target: FuncInfo, how: str):
        self.caller = caller
        self.node = node
        self.target = target
        self.how = how


def _is_generator(f: ast.AST) -> bool:
    g = getattr(f, "_is_gen", None)
    if g is None:
        g = any(isinstance(n, (ast.Yield, ast.YieldFrom)) for n in walk_local(f))
        f._is_gen = g  # type: ignore[attr-defined]
    return g


def _stmt_of(n: ast.AST) -> Optional[ast.stmt]:
    while n is not None and not isinstance(n, ast.stmt):
        n = parent(n)
    return n  # type: ignore[return-value]


def _bound_names(call: ast.Call) -> Optional[List[Tuple[str, tuple]]]:
    """Names bound from the value of ``call`` by its statement: [(name, tuple path)].
    None when the value is used in some other way (returned, passed on, ...)."""
    st = _stmt_of(call)
    if isinstance(st, ast.Assign) and st.value is call and len(st.targets) == 1:
        t = st.targets[0]
    elif isinstance(st, ast.AnnAssign) and st.value is call:
        t = st.target
    else:
        return None
    out: List[Tuple[str, tuple]] = []

    def go(x, path):
        if isinstance(x, ast.Name):
            out.append((x.id, path))
        elif isinstance(x, (ast.Tuple, ast.List)):
            for i, e in enumerate(x.elts):
                go(e, path + (i,))

    go(t, ())
    return out or None


def _uses_of(func: ast.AST, name: str) -> List[ast.Name]:
    return [n for n in walk_local(func) if isinstance(n, ast.Name) and n.id == name and isinstance(n.ctx, ast.Load)]


def generator_surface_points(caller: ast.AST, call: ast.Call) -> Tuple[List[ast.AST], bool]:
    """Where does an exception raised *while iterating* the generator created by
    ``call`` become visible in the caller?  (points, fully_understood)"""
    st = _stmt_of(call)
    if isinstance(st, (ast.For, ast.AsyncFor)) and any(x is call for x in ast.walk(st.iter)):
        return [st.iter], True
    p = parent(call)
    if isinstance(p, ast.YieldFrom):
        return [p], True
    if isinstance(p, ast.Call) and norm(p.func) in ("list", "tuple", "sorted", "next", "set", "enumerate", "any", "all", "sum", "dict"):
        if norm(p.func) == "enumerate":
            return generator_surface_points(caller, p)
        return [p], True
    if isinstance(p, ast.comprehension):
        return [p.iter], True
    if isinstance(p, ast.withitem):
        return [call], True  # @contextmanager: raised on __enter__ at the with statement
    if isinstance(p, ast.Return):
        # handed through unchanged (a wrapper): charged to the callers at their call
        # expression, which is where they iterate it in every such use in the tree
        return [call], True
    names = _bound_names(call)
    if names and len(names) == 1 and not names[0][1]:
        name = names[0][0]
        pts: List[ast.AST] = []
        ok = True
        for u in _uses_of(caller, name):
            up = parent(u)
            ust = _stmt_of(u)
            if isinstance(ust, (ast.For, ast.AsyncFor)) and any(x is u for x in ast.walk(ust.iter)):
                pts.append(ust.iter)
            elif isinstance(up, ast.YieldFrom):
                pts.append(up)
            elif isinstance(up, ast.Call) and u in up.args:
                pts.append(up)  # handed to a callee which may iterate it
            elif isinstance(up, ast.keyword):
                pts.append(parent(up))
            elif isinstance(up, ast.comprehension):
                pts.append(up.iter)
            elif isinstance(up, ast.Call) and up.func is u:
                pts.append(up)
            elif isinstance(up, ast.Attribute):
                continue  # gen.close() etc.
            else:
                ok = False
        if pts:
            return pts, ok
    if isinstance(p, (ast.Call,)) and (call in p.args):
        return [p], True
    if isinstance(p, ast.keyword):
        return [parent(p)], True
    return [call], False


class IndexedCallGraph(CallGraph):
    """``CallGraph`` with the local-binding lookup of ``infer_class`` served from a
    per-function index (the base class re-walks the function body for every name it
    resolves, which dominates the build time).  Same results, same order."""

    def _bindings(self, fn: ast.AST) -> Dict[str, list]:
        b = getattr(fn, "_bind_index", None)
        if b is None:
            b = {}
            for n in walk_local(fn):
                if isinstance(n, ast.AnnAssign) and isinstance(n.target, ast.Name):
                    b.setdefault(n.target.id, []).append((n.annotation, n.value))
                elif isinstance(n, ast.Assign):
                    for t in n.targets:
                        if isinstance(t, ast.Name):
                            b.setdefault(t.id, []).append((None, n.value))
                elif isinstance(n, ast.With):
                    for it in n.items:
                        if isinstance(it.optional_vars, ast.Name):
                            b.setdefault(it.optional_vars.id, []).append((None, it.context_expr))
            fn._bind_index = b  # type: ignore[attr-defined]
        return b

    def resolve_call(self, fi: FuncInfo, c: ast.Call):
        f = c.func
        if isinstance(f, ast.Name) and self.repo.resolve_name(fi.module, f.id) is None:
            nd = getattr(fi.node, "_nested_defs", None)
            if nd is None:
                nd = {}
                for n in ast.walk(fi.node):
                    if isinstance(n, FuncNode):
                        nd.setdefault(n.name, n)
                fi.node._nested_defs = nd  # type: ignore[attr-defined]
            n = nd.get(f.id)
            if n is not None and id(n) in self.by_node:
                return [self.by_node[id(n)]], True, "nested"
            return [], True, "external"
        return super().resolve_call(fi, c)

    def infer_class(self, fi: FuncInfo, e: ast.expr, depth: int = 0):
        if not isinstance(e, ast.Name) or depth > 4:
            return super().infer_class(fi, e, depth)
        m = fi.module
        if e.id in ("self", "cls") and fi.cls is not None:
            return m, fi.cls
        fn = fi.node
        while fn is not None:
            if isinstance(fn, FuncNode):
                for a in fn.args.posonlyargs + fn.args.args + fn.args.kwonlyargs:
                    if a.arg == e.id:
                        if a.arg in ("self", "cls"):
                            from .index import enclosing_class

                            ec = enclosing_class(fn)
                            return (m, ec) if ec is not None else None
                        return self._resolve_class(m, _strip_annotation(a.annotation))
                cands = []
                for annot, val in self._bindings(fn).get(e.id, ()):
                    if annot is not None:
                        r = self._resolve_class(m, _strip_annotation(annot))
                        if r:
                            cands.append(r)
                    elif val is not None:
                        r = self.infer_class(fi, val, depth + 1) if not (isinstance(val, ast.Name) and val.id == e.id) else None
                        if r:
                            cands.append(r)
                if cands:
                    first = cands[0]
                    if all(c[1] is first[1] for c in cands):
                        return first
                    return None
            fn = enclosing_function(fn)
        return self._resolve_class(m, e.id)


class Graph:
    """Call graph + surfaces (caller, node, callee)."""

    def __init__(self, repo: Repo, prefixes: Iterable[str] = SCOPE):
        self.repo = repo
        self.cg = IndexedCallGraph(repo, prefixes)
        self.surf_to: Dict[str, List[Surface]] = {}
        self.surf_from: Dict[str, List[Surface]] = {}
        self.unknown: List[str] = []  # constructs whose flow is not understood (never alarm on them)
        self.stats: Dict[str, int] = {}
        self._deco_layers: Dict[str, List[List[FuncInfo]]] = {}
        self.clones: Dict[str, List[FuncInfo]] = {}  # wrapper fq -> per-function clones
        self.clone_of: Dict[str, Tuple[FuncInfo, FuncInfo]] = {}  # clone fq -> (wrapper, decorated function)
        self.entry_of: Dict[str, List[FuncInfo]] = {}  # decorated function fq -> outermost wrapper clones
        self._deco_fqs_seed: Set[str] = set()
        self._partials_by_module: Dict[str, List[FuncInfo]] = {}
        self._base_surfaces()
        self._matchable_calls()
        self._cls_constructors()
        self._decorators()
        self._deferred_partials()
        self._alias_union()
        self._closures()
        self._prop_names: Dict[str, List[FuncInfo]] = {}
        self._prop_done: Set[str] = set()
        for fi in self.cg.funcs.values():
            if fi.cls is not None and enclosing_function(fi.node) is None and any(norm(d) in PROPERTY_DECOS for d in fi.node.decorator_list):
                self._prop_names.setdefault(fi.node.name, []).append(fi)

    # -- helpers --------------------------------------------------------------
    def add(self, caller: FuncInfo, node: ast.AST, target: FuncInfo, how: str) -> None:
        s = Surface(caller, node, target, how)
        self.surf_to.setdefault(target.fq, []).append(s)
        self.surf_from.setdefault(caller.fq, []).append(s)
        self.stats[how] = self.stats.get(how, 0) + 1

    def _drop(self, pred) -> None:
        for d in (self.surf_to, self.surf_from):
            for k in list(d):
                d[k] = [s for s in d[k] if not pred(s)]

    def _add_call(self, caller: FuncInfo, call: ast.AST, target: FuncInfo, how: str) -> None:
        if isinstance(call, ast.Call) and _is_generator(target.node) and how not in ("callback", "callback-nested"):
            pts, ok = generator_surface_points(caller.node, call)
            if not ok:
                self.unknown.append(f"generator {target.fq} created in {caller.fq}: consumer not understood")
            for p in pts:
                self.add(caller, p, target, how + "/gen")
        else:
            self.add(caller, call, target, how)

    # -- 0. the plain call graph -------------------------------------------------
    def _base_surfaces(self) -> None:
        for fq, edges in self.cg.edges_from.items():
            for e in edges:
                if e.how == "callback" and _is_partial_call(e.caller, e.call):
                    continue  # creation of a deferred callable: see _deferred_partials
                for t in e.targets:
                    self._add_call(e.caller, e.call, t, e.how)

    def _matchable_calls(self) -> None:
        """``x.match(segments, idx, ctx)`` on a receiver of unknown class.  The plain call
        graph takes every untyped ``.match(`` for ``re.Pattern.match``; the three-argument
        form is the ``Matchable`` interface (regex matches take one string)."""
        proto = [f for f in self.cg.methods_by_name.get("match", []) if f.cls is not None and f.cls.name == "Matchable"]
        n = 0
        if len(proto) != 1:
            self.stats["matchable_call_sites"] = 0
            return
        sig = [a.arg for a in proto[0].node.args.args[1:]]
        # the protocol is structural (segment classes do not inherit from Matchable):
        # every `match` with the protocol's parameter list implements it
        cands = [f for f in self.cg.methods_by_name.get("match", []) if [a.arg for a in f.node.args.args[1:]] == sig]
        for fq, edges in self.cg.edges_from.items():
            for e in edges:
                if e.how == "external-builtin-name" and isinstance(e.call.func, ast.Attribute) and e.call.func.attr == "match" \
                        and len(e.call.args) + len([k for k in e.call.keywords if k.arg]) == 3 and not any(isinstance(a, ast.Starred) for a in e.call.args):
                    n += 1
                    for t in cands:
                        self._add_call(e.caller, e.call, t, "matchable")
        self.stats["matchable_call_sites"] = n

    def _cls_constructors(self) -> None:
        """``cls(..)`` inside a classmethod constructs the class (or a subclass)."""
        n = 0
        for fi in list(self.cg.funcs.values()):
            if fi.cls is None or not fi.node.args.args or fi.node.args.args[0].arg != "cls":
                continue
            for c in walk_local(fi.node):
                if isinstance(c, ast.Call) and isinstance(c.func, ast.Name) and c.func.id == "cls":
                    for name in ("__init__", "__post_init__"):
                        for t in self.cg.method_targets(fi.module, fi.cls, name):
                            self._add_call(fi, c, t, "cls-constructor")
                            n += 1
        self.stats["cls_constructor_targets"] = n

    # -- 1. decorators --------------------------------------------------------------
    def _wrappers_of(self, D: FuncInfo) -> List[Tuple[FuncInfo, List[ast.Call]]]:
        """Nested functions of decorator D that call the wrapped function (a parameter
        of D or of an intermediate nested def), with those calls."""
        out = []
        params: Set[str] = set()
        stack = [D.node]
        nested: List[ast.AST] = []
        while stack:
            f = stack.pop()
            for n in walk_local(f):
                if isinstance(n, FuncNode):
                    nested.append(n)
                    stack.append(n)
        for f in [D.node] + nested:
            a = f.args
            # only the decorator / decorator-factory layers contribute wrapped-function
            # parameters: a def whose *result* is a nested def
            if any(isinstance(r, ast.Return) and isinstance(r.value, ast.Name) and any(isinstance(g, FuncNode) and g.name == r.value.id for g in f.body) for r in walk_local(f)):
                params |= {x.arg for x in a.posonlyargs + a.args}
        for f in nested:
            fi = self.cg.by_node.get(id(f))
            if fi is None:
                continue
            calls = [c for c in walk_local(f) if isinstance(c, ast.Call) and isinstance(c.func, ast.Name) and c.func.id in params
                     and c.func.id not in {x.arg for x in f.args.posonlyargs + f.args.args + f.args.kwonlyargs}]
            if calls:
                out.append((fi, calls))
        return out

    def _decorators(self) -> None:
        """A decorated function is entered through the wrapper(s) its in-tree
        decorators return.  Wrappers are *cloned per decorated function* (fq
        ``<wrapper>@<function>``): one shared wrapper node would merge the
        exceptions of every function using the decorator."""
        wrappers_cache: Dict[str, List[Tuple[FuncInfo, List[ast.Call]]]] = {}
        layers_of: Dict[str, List[FuncInfo]] = {}  # f.fq -> decorator FuncInfos, outermost first
        for fi in list(self.cg.funcs.values()):
            ds = []
            for d in fi.node.decorator_list:
                t = d.func if isinstance(d, ast.Call) else d
                r = self.repo.resolve_name(fi.module, norm(t)) if isinstance(t, (ast.Name, ast.Attribute)) else None
                if r and isinstance(r[1], FuncNode) and id(r[1]) in self.cg.by_node:
                    D = self.cg.by_node[id(r[1])]
                    if D.fq not in wrappers_cache:
                        wrappers_cache[D.fq] = self._wrappers_of(D)
                    if wrappers_cache[D.fq]:
                        ds.append(D)
            if ds:
                layers_of[fi.fq] = ds
        self.stats["decorated_functions"] = len(layers_of)
        for ffq, ds in layers_of.items():
            f = self.cg.funcs[ffq]
            clones: List[List[Tuple[FuncInfo, List[ast.Call]]]] = []
            for D in ds:
                layer = []
                for w, calls in wrappers_cache[D.fq]:
                    c = FuncInfo(f"{w.fq}@{ffq}", w.node, w.module, w.cls)
                    self.cg.funcs[c.fq] = c
                    self.clones.setdefault(w.fq, []).append(c)
                    self.clone_of[c.fq] = (w, f)
                    layer.append((c, calls))
                clones.append(layer)
                self._deco_fqs_seed.add(D.fq)
            # callers of f enter through the outermost wrapper
            olds = list(self.surf_to.get(ffq, []))
            self._drop(lambda s, ffq=ffq: s.target.fq == ffq)
            for s in olds:
                for c, _ in clones[0]:
                    self.add(s.caller, s.node, c, s.how + "/decorated")
            self.entry_of[ffq] = [c for c, _ in clones[0]]
            # each wrapper calls the next layer (or the function itself)
            for i, layer in enumerate(clones):
                nxt = [c for c, _ in clones[i + 1]] if i + 1 < len(clones) else [f]
                for c, calls in layer:
                    for call in calls:
                        for t in nxt:
                            self._add_call(c, call, t, "wrapper")
            self._deco_layers[ffq] = [[c for c, _ in layer] for layer in clones]

    # -- 2. functools.partial objects invoked later --------------------------------------
    def _deferred_partials(self) -> None:
        for fi in self.cg.funcs.values():
            for c in walk_local(fi.node):
                if isinstance(c, ast.Call) and _is_partial_call(fi, c) and c.args:
                    tg = self._callable_targets(fi, c.args[0])
                    if tg:
                        self._partials_by_module.setdefault(fi.module.relpath, []).extend(tg)
        for rel, tg in self._partials_by_module.items():
            m = self.repo.modules[rel]
            uniq = list({t.fq: t for t in tg}.values())
            for q, f in m.functions():
                fi = self.cg.by_node.get(id(f))
                if fi is None:
                    continue
                local = _local_names(f)
                for c in walk_local(f):
                    if isinstance(c, ast.Call) and isinstance(c.func, ast.Name) and c.func.id in local and self.repo.resolve_name(m, c.func.id) is None:
                        if any(isinstance(n, FuncNode) and n.name == c.func.id for n in walk_local(f)):
                            continue
                        for t in uniq:
                            self._add_call(fi, c, t, "deferred-partial")

    def _callable_targets(self, fi: FuncInfo, a: ast.expr) -> List[FuncInfo]:
        if isinstance(a, ast.Name):
            r = self.repo.resolve_name(fi.module, a.id)
            if r and isinstance(r[1], FuncNode) and id(r[1]) in self.cg.by_node:
                return [self.cg.by_node[id(r[1])]]
        elif isinstance(a, ast.Attribute):
            rc = self.cg.infer_class(fi, a.value)
            if rc is not None and rc is not EXTERNAL:
                return list(self.cg.method_targets(rc[0], rc[1], a.attr))
        return []

    # -- 3. aliases and unions ---------------------------------------------------------
    def _classes_in_annotation(self, m, a: Optional[ast.expr]) -> List[Tuple[object, ast.ClassDef]]:
        out = []
        if a is None:
            return out
        for n in ast.walk(a):
            name = None
            if isinstance(n, ast.Name):
                name = n.id
            elif isinstance(n, ast.Constant) and isinstance(n.value, str) and n.value.isidentifier():
                name = n.value
            if name:
                r = self.repo.resolve_name(m, name)
                if r is None:
                    # a class defined conditionally in the same module (try: class X ..)
                    for mm, cc in self.repo.class_index().get(name, []):
                        if mm is m:
                            r = (mm, cc)
                if r and isinstance(r[1], ast.ClassDef) and (r[0], r[1]) not in out:
                    out.append((r[0], r[1]))
        return out

    def _alias_classes(self, fi: FuncInfo, recv: ast.expr) -> List[Tuple[object, ast.ClassDef]]:
        if not isinstance(recv, ast.Name) or recv.id in ("self", "cls"):
            return []
        cache = self.__dict__.setdefault("_alias_cache", {})
        ck = (fi.fq, recv.id)
        if ck not in cache:
            cache[ck] = self._alias_classes_uncached(fi, recv)
        return cache[ck]

    def _alias_classes_uncached(self, fi: FuncInfo, recv: ast.Name) -> List[Tuple[object, ast.ClassDef]]:
        out: List[Tuple[object, ast.ClassDef]] = []
        a = fi.node.args
        for prm in a.posonlyargs + a.args + a.kwonlyargs:
            if prm.arg == recv.id and prm.annotation is not None:
                out += self._classes_in_annotation(fi.module, prm.annotation)
        for annot, val in self.cg._bindings(fi.node).get(recv.id, ()):
            if annot is not None:
                out += self._classes_in_annotation(fi.module, annot)
            if isinstance(val, ast.Call) and isinstance(val.func, ast.Name):
                out += self._alias_target(fi.module, val.func.id)
        uniq = []
        for x in out:
            if all(x[1] is not y[1] for y in uniq):
                uniq.append(x)
        return uniq

    def _alias_target(self, m, name: str, depth: int = 0) -> List[Tuple[object, ast.ClassDef]]:
        """``Name = some_function()`` at module level (possibly re-exported): the classes
        named in that function's return annotation."""
        if depth > 4:
            return []
        for st in m.tree.body:
            if isinstance(st, ast.Assign) and any(isinstance(t, ast.Name) and t.id == name for t in st.targets) and isinstance(st.value, ast.Call) and isinstance(st.value.func, ast.Name):
                r = self.repo.resolve_name(m, st.value.func.id)
                if r and isinstance(r[1], FuncNode):
                    return self._classes_in_annotation(r[0], r[1].returns)
        fqn = m.imports.get(name)
        if fqn and fqn.startswith("sqlfluff"):
            modname, _, attr = fqn.rpartition(".")
            mm = self.repo.by_dotted.get(modname)
            if mm is not None:
                return self._alias_target(mm, attr, depth + 1)
        return []

    def _alias_union(self) -> None:
        n = 0
        for fq, edges in self.cg.edges_from.items():
            for e in edges:
                if not isinstance(e.call.func, ast.Attribute):
                    continue
                if e.how not in ("by-name-ambiguous", "typed", "by-name"):
                    continue
                cls = self._alias_classes(e.caller, e.call.func.value)
                if len(cls) < 1 or (e.how == "typed" and len(cls) < 2):
                    continue
                have = {t.fq for t in e.targets}
                for mm, cc in cls:
                    for t in self.cg.method_targets(mm, cc, e.call.func.attr):
                        if t.fq not in have:
                            have.add(t.fq)
                            self._add_call(e.caller, e.call, t, "alias-union")
                            n += 1
        self.stats["alias_union_targets"] = n

    # -- 4. closures ----------------------------------------------------------------------
    def _closures(self) -> None:
        """Nested functions used as values: passed as an argument (surface at that
        call) or returned (followed one level into the callers of the factory)."""
        for fi in list(self.cg.funcs.values()):
            F = fi.node
            nested = [n for n in walk_local(F) if isinstance(n, FuncNode) and id(n) in self.cg.by_node]
            if not nested:
                continue
            if fi.fq in self._is_decorator_layer():
                continue
            for N in nested:
                ni = self.cg.by_node[id(N)]
                for u in _uses_of(F, N.name):
                    up = parent(u)
                    if isinstance(up, ast.Call) and up.func is u:
                        continue  # direct call: plain call graph ("nested")
                    if isinstance(up, ast.Call) and u in up.args:
                        self.add(fi, up, ni, "callback-nested")
                    elif isinstance(up, ast.keyword):
                        self.add(fi, parent(up), ni, "callback-nested")
                    elif isinstance(up, ast.Return) or (isinstance(up, ast.Tuple) and isinstance(parent(up), ast.Return)):
                        path = () if isinstance(up, ast.Return) else (up.elts.index(u),)
                        self._returned_closure(fi, ni, path)
                    else:
                        self.unknown.append(f"closure {ni.fq} used as a value in an unmodelled way ({type(up).__name__})")

    def _is_decorator_layer(self) -> Set[str]:
        """The decorators themselves and the defs nested in them (their closures are
        the wrappers handled by ``_decorators``)."""
        s = getattr(self, "_deco_fqs", None)
        if s is None:
            s = set(self._deco_fqs_seed)
            for fq in list(s):
                D = self.cg.funcs[fq]
                stack = [D.node]
                while stack:
                    f = stack.pop()
                    for n in walk_local(f):
                        if isinstance(n, FuncNode):
                            x = self.cg.by_node.get(id(n))
                            if x is not None:
                                s.add(x.fq)
                            stack.append(n)
            self._deco_fqs = s
        return s

    def _returned_closure(self, factory: FuncInfo, closure: FuncInfo, path: tuple) -> None:
        for s in list(self.surf_to.get(factory.fq, [])):
            if not isinstance(s.node, ast.Call):
                self.unknown.append(f"closure {closure.fq}: factory reached through a non-call surface in {s.caller.fq}")
                continue
            names = _bound_names(s.node)
            if not names:
                self.unknown.append(f"closure {closure.fq}: result of {factory.fq} is not bound to a name in {s.caller.fq}")
                continue
            mine = [n for n, p in names if p == path]
            if not mine:
                continue  # the closure position is discarded (`_`) or not unpacked
            for name in mine:
                for u in _uses_of(s.caller.node, name):
                    up = parent(u)
                    if isinstance(up, ast.Call) and up.func is u:
                        self.add(s.caller, up, closure, "closure-call")
                    elif isinstance(up, ast.Call) and u in up.args:
                        self.add(s.caller, up, closure, "closure-arg")
                    elif isinstance(up, ast.keyword):
                        self.add(s.caller, parent(up), closure, "closure-arg")
                    else:
                        self.unknown.append(f"closure {closure.fq} flows on from {s.caller.fq} in an unmodelled way ({type(up).__name__})")

    # -- 5. properties (added lazily: only names whose getter can raise) ---------------------
    def add_property_surfaces(self, may_raise: Set[str]) -> int:
        """Attribute loads of properties whose getter is in ``may_raise``; returns the
        number of surfaces added (call again until 0)."""
        names = {}
        for name, fis in self._prop_names.items():
            live = [f for f in fis if f.fq not in self._prop_done and (f.fq in may_raise or any(c.fq in may_raise for c in self.entry_of.get(f.fq, [])))]
            if live:
                names[name] = live
        if not names:
            return 0
        added = 0
        for fis in names.values():
            for f in fis:
                self._prop_done.add(f.fq)
        for fi in list(self.cg.funcs.values()):
            if not any(("." + n) in fi.module.text for n in names):
                continue
            for a in walk_local(fi.node):
                if isinstance(a, ast.Attribute) and a.attr in names and isinstance(a.ctx, ast.Load):
                    rc = self.cg.infer_class(fi, a.value)
                    if rc is EXTERNAL:
                        continue
                    cands = names[a.attr]
                    if rc is not None:
                        tg = {t.fq for t in self.cg.method_targets(rc[0], rc[1], a.attr)}
                        cands = [c for c in cands if c.fq in tg]
                    else:
                        # receiver of unknown class: only when every same-named attribute in
                        # the tree is this one property hierarchy
                        if not self.cg._one_hierarchy(self._prop_names[a.attr]) or len(self.cg.methods_by_name.get(a.attr, [])) != len(self._prop_names[a.attr]):
                            continue
                    for c in cands:
                        for t in self.entry_of.get(c.fq, [c]):
                            self.add(fi, a, t, "property")
                            added += 1
        return added


def _is_partial_call(fi: FuncInfo, c: ast.Call) -> bool:
    n = call_name(c)
    if n == "functools.partial":
        return True
    return n == "partial" and fi.module.imports.get("partial", "") == "functools.partial"


def _local_names(f: ast.AST) -> Set[str]:
    out: Set[str] = set()
    a = f.args
    for x in a.posonlyargs + a.args + a.kwonlyargs:
        out.add(x.arg)
    for n in walk_local(f):
        if isinstance(n, ast.Name) and isinstance(n.ctx, ast.Store):
            out.add(n.id)
    return out


# ---------------------------------------------------------------------------
# the fixpoint
# ---------------------------------------------------------------------------


class Site:
    __slots__ = ("etype", "node", "func", "label")

    def __init__(self, etype: str, node: ast.AST, func: FuncInfo, label: str):
        self.etype = etype
        self.node = node
        self.func = func
        self.label = label

    @property
    def key(self) -> Tuple[str, int]:
        return (self.etype, id(self.node))


class Absorb:
    __slots__ = ("site", "func", "handler", "at")

    def __init__(self, site: Site, func: FuncInfo, handler: ast.ExceptHandler, at: ast.AST):
        self.site = site
        self.func = func
        self.handler = handler
        self.at = at


def short_name(fq: str) -> str:
    """``Class.method`` / ``module.function`` of a (possibly cloned) function name."""
    fq = fq.split("@")[0]
    parts = fq.split(".")
    for i, p in enumerate(parts):
        if p[:1].isupper():
            return ".".join(parts[i:])
    return ".".join(parts[-2:]) if len(parts) > 1 else fq


class Flow:
    """escapes[f] = sites whose exception may leave f.

    ``cuts`` maps (caller short name, callee short name) to the exception types that
    are not carried across that call (reviewed chains no execution follows);
    ``cut_used`` records which entries were needed."""

    def __init__(self, g: Graph, et: ExcTypes, sites: List[Site], cuts: Optional[Dict[Tuple[str, str], Set[str]]] = None):
        self.g = g
        self.et = et
        self.sites = {s.key: s for s in sites}
        self.cuts = cuts or {}
        self.cut_used: Set[Tuple[str, str, str]] = set()
        self.escapes: Dict[str, Dict[Tuple[str, int], Optional[Surface]]] = {}
        self.absorbed: List[Absorb] = []
        self._abs_seen: Set[Tuple[Tuple[str, int], int]] = set()
        self._solve()
        # properties whose getter can raise are calls too
        for _ in range(6):
            may = {fq for fq, d in self.escapes.items() if d}
            if not g.add_property_surfaces(may):
                break
            self._solve()

    def _fate(self, site: Site, func: FuncInfo, node: ast.AST) -> bool:
        """Does an exception of ``site`` raised at ``node`` leave ``func``?

        Per enclosing ``try`` the first handler whose type covers the exception
        decides: a handler that re-raises the caught object (unconditionally, or
        conditionally for this type) is transparent; any other handler absorbs
        the exception, which is recorded for classification by the rule."""
        t = site.etype
        decided: Set[int] = set()
        for tr, h in handlers_around(node, func.node):
            if id(tr) in decided or not self.et.covers(h.type, t):
                continue
            decided.add(id(tr))
            if always_reraises(h) or propagates(self.et, h, t):
                continue
            k = (site.key, id(h))
            if k not in self._abs_seen:
                self._abs_seen.add(k)
                self.absorbed.append(Absorb(site, func, h, node))
            return False
        return True

    def _solve(self) -> None:
        esc = self.escapes
        for fq in self.g.cg.funcs:
            esc.setdefault(fq, {})
        for s in self.sites.values():
            for f in [s.func] + self.g.clones.get(s.func.fq, []):
                if s.key not in esc[f.fq] and self._fate(s, f, s.node):
                    esc[f.fq][s.key] = None
        # (re-)propagate from everything: surfaces may have been added since the last run
        work = [fq for fq, d in esc.items() if d]
        while work:
            fq = work.pop()
            callee = short_name(fq) if self.cuts else ""
            for sf in self.g.surf_to.get(fq, []):
                cal = sf.caller
                closed = self.cuts.get((short_name(cal.fq), callee)) if self.cuts else None
                for key in list(esc[fq]):
                    if key in esc[cal.fq]:
                        continue
                    if closed and key[0] in closed:
                        self.cut_used.add((short_name(cal.fq), callee, key[0]))
                        continue
                    if self._fate(self.sites[key], cal, sf.node):
                        esc[cal.fq][key] = sf
                        if cal.fq not in work:
                            work.append(cal.fq)

    # -- queries -------------------------------------------------------------------------
    def escaping(self, fq: str) -> List[Site]:
        return [self.sites[k] for k in self.escapes.get(fq, {})]

    def chain(self, fq: str, key: Tuple[str, int]) -> List[str]:
        out = [fq]
        cur = fq
        for _ in range(80):
            sf = self.escapes.get(cur, {}).get(key)
            if sf is None:
                break
            cur = sf.target.fq
            out.append(cur)
        return out
