"""Discharging ``assert`` statements in rule code (used by C05 / R05g).

``judge(cx, a, m)`` decides whether the condition of ``assert <cond>`` is implied by what is
known where the assert stands.  It returns ``(group, idiom, explanation)`` with group
``"discharged"`` / ``"typing"`` or ``(None, None, why-not)``.

The condition and everything known at the assert are turned into *propositions about values*.
A value is identified structurally: local names are replaced by their (single) reaching
definition, so ``child = seg.get_child(e)`` and an earlier ``if seg.get_child(e):`` talk about
the same value, as do a boolean local and the test it holds; a name with several reaching
definitions is identified by that set of definitions.  Propositions:

    T(v)        v is truthy                     N(v)      v is not None
    has(v, t)   segment v carries type t        P(..)     any other test, by structure
                (``v.is_type(a, b)`` = has(v,a) or has(v,b); ``S.all(sp.is_type(..))`` /
                ``S.select(sp.is_type(..))`` with S = FunctionalContext(ctx).segment likewise)

Known facts (each a formula over these propositions):

``branch``       every dominating branch condition with its outcome (real dominance on the CFG:
                 early return / continue / raise and for-else included), whole formula, so
                 ``not (a is None and b is None)`` plus ``not a`` gives ``b``
``assert``       every dominating earlier ``assert`` (it is judged on its own)
``short-circuit``/``conditional-expression``/``comprehension``  inside the statement
``for``          ``for x in Y.recursive_crawl(T..)`` / ``Y.get_children(T..)`` / ``Y.children(sp.is_type(T..))``:
                 has(x, T..); ``for .. in X``: T(X) in the body
``crawler``      ``<ctx>.segment`` where <ctx> is the rule context (second parameter of ``_eval``, or the
                 parameter of a helper method to which every in-class caller passes its own context): has(.., t)
                 for the types t of the ``SegmentSeekerCrawler({..})`` of every rule class that runs the
                 function (``RootOnlyCrawler()``: "file")
axioms           T(v) -> N(v);  T(X) -> N(X.get()), N <-> T for the result of ``.get()`` / ``.get_child(..)``
                 (segments define no ``__bool__`` / ``__len__``: checked by the caller);
                 T(X.children()/first()/last()/select()/..) -> T(X) (the functional API returns an empty
                 result for an empty receiver);  N(Y.get_child(T..)) -> has(Y.get_child(T..), T..);
                 ``"t" in Y.direct_descendant_type_set`` <-> N(Y.get_child("t"));
                 T(FunctionalContext(ctx).segment) (it is ``Segments(ctx.segment)``: one element)

The condition follows when it is true under every truth assignment that satisfies the facts
(enumerated; at most 16 propositions that are connected to the condition are considered).

Other idioms:

``try``          the assert stands in a ``try`` whose handler catches AssertionError / Exception and
                 does not re-raise
``contract``     the condition speaks about parameters only and holds -- by the same inference -- at
                 every call site of the function in the tree (methods: ``self.f`` / ``cls.f`` /
                 ``Class.f``; functions: every module in which the name resolves to it); at least one
                 call site must exist
``caller-constants``  ``p in (c1, c2)`` / ``p == c`` for a parameter p that every call site passes as
                 a literal from the set (or omits, with a default from the set)
``construction`` T/N of the value of a call to a class constructor or to a method/function of the
                 tree whose return annotation is not Optional
``typing``       ``X.pos_marker`` (truthy / ``is not None``), also through a local: position markers are
                 set on every segment of a parsed tree (the lexer builds every raw segment with one,
                 ``BaseSegment.__init__`` derives a parent's marker from its children, and
                 ``LintedFile`` / ``apply_fixes`` re-position the tree after every fix loop); X must not
                 be a segment constructed in the same function (an inserted segment has no marker)
"""

from __future__ import annotations

import ast
import itertools
from typing import Dict, List, Optional, Tuple

from .cfg import Branch, atoms, cfg_of
from .index import FuncNode, call_name, enclosing_class, enclosing_function, last_attr, norm, qualname, walk_local
from . import subscripts as _subs

A_SCOPES = ("src/sqlfluff/rules/", "src/sqlfluff/utils/")
A_EXCLUDE = ("src/sqlfluff/utils/testing/",)

_CATCH = {"AssertionError", "Exception", "BaseException"}
_PRESERVING = {"children", "first", "last", "select", "reversed", "recursive_crawl", "get", "any", "iterate_segments"}
_MAX_VARS = 18


# ---------------------------------------------------------------------------
# context / caches
# ---------------------------------------------------------------------------


class Ctx(_subs.Ctx):
    def __init__(self, repo):
        super().__init__(repo)
        self._calls: Optional[Dict[str, list]] = None
        self._ctxparams: Dict[int, set] = {}
        self._crawl: Dict[int, Optional[frozenset]] = {}

    def calls_named(self, name: str) -> list:
        """Every call in src/sqlfluff whose callee's last name is ``name``: (module, call)."""
        if self._calls is None:
            idx: Dict[str, list] = {}
            for m in self.repo.iter_modules("src/sqlfluff/"):
                # dialect modules define grammar only and never call into rules/ or utils/
                if m.relpath.startswith(A_EXCLUDE) or m.relpath.startswith("src/sqlfluff/dialects/"):
                    continue
                for n in ast.walk(m.tree):
                    if isinstance(n, ast.Call):
                        la = last_attr(n)
                        if la:
                            idx.setdefault(la, []).append((m, n))
            self._calls = idx
        return self._calls.get(name, [])


def _real_function(n: ast.AST):
    f = enclosing_function(n)
    while f is not None and isinstance(f, ast.Lambda):
        f = enclosing_function(f)
    return f


# ---------------------------------------------------------------------------
# structural identity of values
# ---------------------------------------------------------------------------


def _pos(n) -> tuple:
    """Stable stand-in for the identity of a node (keys must not depend on id())."""
    n = getattr(n, "stmt", n)  # Branch
    return (getattr(n, "lineno", 0), getattr(n, "col_offset", 0))


def _impure(e: ast.AST) -> bool:
    return any(isinstance(c, ast.Call) and last_attr(c) in _subs._IMPURE for c in ast.walk(e))


class Env:
    """Evaluation context of one function: CFG + reaching definitions + substitution of parameters."""

    def __init__(self, cx: Ctx, f, m, subst: Optional[Dict[str, tuple]] = None):
        self.cx, self.f, self.m = cx, f, m
        self.cfg = cfg_of(f)
        self.rd = self.cfg.reaching()
        self.subst = subst or {}
        self.changed = cx.shrunk_names(f)

    def key(self, e: ast.AST, at, depth: int = 0) -> tuple:
        """Structural key of the value of ``e`` evaluated at (the start of) statement ``at``."""
        if depth > 60:
            return ("text", norm(e), _pos(at))
        if isinstance(e, ast.Name):
            ds = self.rd.IN.get(at, {}).get(e.id, set()) if at is not None else set()
            if len(ds) == 1:
                (d,) = ds
                if d.kind == "param":
                    return self.subst.get(e.id, ("param", e.id))
                if d.kind in ("assign", "walrus") and not d.path and d.value is not None and d.stmt is not None and d.stmt is not at and not _impure(d.value):
                    if isinstance(d.stmt, ast.AnnAssign) or isinstance(d.stmt, ast.Assign) or d.kind == "walrus":
                        return self.key(d.value, d.stmt, depth + 1)
                return ("def", e.id, _pos(d.node))
            if not ds:
                return ("global", e.id)
            return ("defs", e.id, tuple(sorted(_pos(d.node) for d in ds)))
        if isinstance(e, ast.Constant):
            return ("const", repr(e.value))
        if isinstance(e, ast.Attribute):
            k = ("attr", self.key(e.value, at, depth + 1), e.attr)
            t = norm(e)
            if any(_subs._affects(c, t) for c in self.changed):
                return k + (_pos(at),)  # re-assigned in this function: not the same value elsewhere
            return k
        if isinstance(e, ast.Call):
            if isinstance(e.func, ast.Name) and e.func.id == "cast" and len(e.args) == 2 and not e.keywords:
                return self.key(e.args[1], at, depth + 1)
            if isinstance(e.func, ast.Attribute):
                fk = ("attr", self.key(e.func.value, at, depth + 1), e.func.attr)
            else:
                fk = self.key(e.func, at, depth + 1)
            k = ("call", fk, tuple(self.key(a, at, depth + 1) for a in e.args), tuple(sorted((kw.arg or "**", self.key(kw.value, at, depth + 1)) for kw in e.keywords)))
            if _impure(e):
                return k + (_pos(e),)
            return k
        if isinstance(e, ast.Starred):
            return ("star", self.key(e.value, at, depth + 1))
        if isinstance(e, ast.Subscript):
            return ("sub", self.key(e.value, at, depth + 1), self.key(e.slice, at, depth + 1))
        if isinstance(e, (ast.Tuple, ast.List, ast.Set)):
            return ("seq", tuple(self.key(x, at, depth + 1) for x in e.elts))
        if isinstance(e, ast.UnaryOp) and isinstance(e.op, ast.USub) and isinstance(e.operand, ast.Constant):
            return ("const", repr(-e.operand.value) if isinstance(e.operand.value, (int, float)) else norm(e))
        # anything else: by text, with the local names resolved
        names = sorted({n.id for n in ast.walk(e) if isinstance(n, ast.Name)})
        return ("text", norm(e), tuple((n, self.key(ast.Name(id=n, ctx=ast.Load()), at, depth + 1)) for n in names))

    def definition(self, e: ast.AST, at, depth: int = 0):
        """(expr, stmt) the value of ``e`` is computed by, following single plain definitions."""
        while isinstance(e, ast.Name) and depth < 12:
            ds = self.rd.IN.get(at, {}).get(e.id, set()) if at is not None else set()
            if len(ds) != 1:
                break
            (d,) = ds
            if d.kind in ("assign", "walrus") and not d.path and d.value is not None and d.stmt is not None and d.stmt is not at:
                e, at = d.value, d.stmt
                depth += 1
                continue
            break
        if isinstance(e, ast.Call) and isinstance(e.func, ast.Name) and e.func.id == "cast" and len(e.args) == 2:
            return self.definition(e.args[1], at, depth + 1)
        return e, at


# ---------------------------------------------------------------------------
# formulas
# ---------------------------------------------------------------------------
# ("var", prop) | ("not", f) | ("and", (f..)) | ("or", (f..)) | ("true",) | ("false",)

TRUE, FALSE = ("true",), ("false",)


def Var(p):
    return ("var", p)


def Not(f):
    if f == TRUE:
        return FALSE
    if f == FALSE:
        return TRUE
    if f[0] == "not":
        return f[1]
    return ("not", f)


def And(*fs):
    fs = [f for f in fs if f != TRUE]
    if any(f == FALSE for f in fs):
        return FALSE
    if not fs:
        return TRUE
    return fs[0] if len(fs) == 1 else ("and", tuple(fs))


def Or(*fs):
    fs = [f for f in fs if f != FALSE]
    if any(f == TRUE for f in fs):
        return TRUE
    if not fs:
        return FALSE
    return fs[0] if len(fs) == 1 else ("or", tuple(fs))


def Implies(a, b):
    return Or(Not(a), b)


def _vars(f, out: set) -> set:
    if f[0] == "var":
        out.add(f[1])
    elif f[0] == "not":
        _vars(f[1], out)
    elif f[0] in ("and", "or"):
        for x in f[1]:
            _vars(x, out)
    return out


def _ev(f, env: dict) -> bool:
    t = f[0]
    if t == "var":
        return env[f[1]]
    if t == "not":
        return not _ev(f[1], env)
    if t == "and":
        return all(_ev(x, env) for x in f[1])
    if t == "or":
        return any(_ev(x, env) for x in f[1])
    return t == "true"


def entails(facts: List[tuple], goal: tuple) -> bool:
    """Is ``goal`` true under every assignment satisfying all ``facts``?  Only facts connected to the
    goal through shared propositions are used (dropping a fact is sound)."""
    if goal == TRUE:
        return True
    gv = _vars(goal, set())
    if not gv:
        return False
    fvs = [(f, _vars(f, set())) for f in facts if f != TRUE]
    conn, used, changed = set(gv), [], True
    rest = list(fvs)
    while changed:
        changed = False
        nxt = []
        # nearest first: facts that bring in the fewest new propositions
        for f, vs in sorted(rest, key=lambda fv: (len(fv[1] - conn), repr(fv[0]))):
            if vs & conn:
                if len(conn | vs) > _MAX_VARS:
                    continue
                conn |= vs
                used.append(f)
                changed = True
            else:
                nxt.append((f, vs))
        rest = nxt
    if any(f == FALSE for f in used):
        return True
    # truth tables as integers: bit i of a table = value under assignment number i
    vs = sorted(conn, key=repr)
    n = len(vs)
    full = (1 << (1 << n)) - 1
    table = {}
    for i, v in enumerate(vs):
        block = ((1 << (1 << i)) - 1) << (1 << i)
        table[v] = block * (full // ((1 << (1 << (i + 1))) - 1))

    def tt(f) -> int:
        t = f[0]
        if t == "var":
            return table[f[1]]
        if t == "not":
            return full & ~tt(f[1])
        if t == "and":
            r = full
            for x in f[1]:
                r &= tt(x)
            return r
        if t == "or":
            r = 0
            for x in f[1]:
                r |= tt(x)
            return r
        return full if t == "true" else 0

    models = full
    for f in used:
        models &= tt(f)
        if not models:
            return True
    return (models & ~tt(goal)) == 0


# ---------------------------------------------------------------------------
# expressions -> formulas
# ---------------------------------------------------------------------------


def _const_strs(cx: Ctx, m, e: ast.AST) -> Optional[List[str]]:
    """String constants an ``is_type`` argument denotes: literal, ``*CONST`` (module-level tuple of
    literals, also imported), ``SomeSegment.type`` (class attribute of a class of the tree)."""
    if isinstance(e, ast.Constant) and isinstance(e.value, str):
        return [e.value]
    if isinstance(e, ast.Starred):
        return _const_seq(cx, m, e.value)
    if isinstance(e, ast.Attribute) and e.attr == "type" and isinstance(e.value, ast.Name):
        r = cx.repo.resolve_name(m, e.value.id)
        if r and isinstance(r[1], ast.ClassDef):
            for mm, cc in cx.repo.mro(r[0], r[1]):
                for item in cc.body:
                    if isinstance(item, ast.Assign) and any(isinstance(t, ast.Name) and t.id == "type" for t in item.targets):
                        if isinstance(item.value, ast.Constant) and isinstance(item.value.value, str):
                            return [item.value.value]
                        return None
    return None


def _const_seq(cx: Ctx, m, e: ast.AST, depth: int = 0) -> Optional[List[str]]:
    if depth > 3:
        return None
    if isinstance(e, (ast.Tuple, ast.List, ast.Set)):
        out: List[str] = []
        for x in e.elts:
            v = _const_strs(cx, m, x)
            if v is None:
                return None
            out += v
        return out
    if isinstance(e, ast.Call) and isinstance(e.func, ast.Name) and e.func.id in ("set", "tuple", "list", "frozenset", "sorted") and len(e.args) == 1:
        return _const_seq(cx, m, e.args[0], depth + 1)
    if isinstance(e, ast.Name):
        r = _find_const(cx, m, e.id)
        if r is not None:
            return _const_seq(cx, r[0], r[1], depth + 1)
    return None


def _find_const(cx: Ctx, m, name: str, depth: int = 0):
    """(module, value expression) of the module-level constant ``name`` (followed through imports)."""
    if depth > 4:
        return None
    for st in m.tree.body:
        if isinstance(st, ast.Assign) and len(st.targets) == 1 and isinstance(st.targets[0], ast.Name) and st.targets[0].id == name:
            return m, st.value
        if isinstance(st, ast.AnnAssign) and isinstance(st.target, ast.Name) and st.target.id == name and st.value is not None:
            return m, st.value
    fq = m.imports.get(name)
    if fq and "." in fq:
        modname, _, attr = fq.rpartition(".")
        mm = cx.repo.by_dotted.get(modname)
        if mm is not None and mm is not m:
            return _find_const(cx, mm, attr, depth + 1)
    return None


def _type_args(cx: Ctx, m, args) -> Optional[List[str]]:
    out: List[str] = []
    for a in args:
        v = _const_strs(cx, m, a)
        if v is None:
            return None
        out += v
    return out or None


def _is_type_pred(e: ast.AST) -> Optional[ast.Call]:
    """``sp.is_type(..)`` / ``is_type(..)`` used as a predicate of the functional API."""
    if isinstance(e, ast.Call) and last_attr(e) == "is_type" and (isinstance(e.func, ast.Name) or (isinstance(e.func, ast.Attribute) and isinstance(e.func.value, ast.Name) and e.func.value.id in ("sp", "segment_predicates"))):
        return e
    return None


def _functional_single(env: Env, e: ast.AST, at) -> Optional[tuple]:
    """Key of the one segment held by ``FunctionalContext(ctx).segment`` / ``Segments(x)`` (through locals)."""
    d, d_at = env.definition(e, at)
    if isinstance(d, ast.Attribute) and d.attr == "segment":
        inner, inner_at = env.definition(d.value, d_at)
        if isinstance(inner, ast.Call) and call_name(inner) == "FunctionalContext" and len(inner.args) == 1:
            return ("attr", env.key(inner.args[0], inner_at), "segment")
    if isinstance(d, ast.Call) and isinstance(d.func, ast.Name) and d.func.id == "Segments" and len(d.args) == 1 and not isinstance(d.args[0], ast.Starred):
        return env.key(d.args[0], d_at)
    return None


def _len_cmp(e: ast.Compare):
    """(subject, op, const) for ``len(X) <op> c`` / ``c <op> len(X)``."""
    if len(e.ops) != 1:
        return None
    l, r, op = e.left, e.comparators[0], type(e.ops[0])

    def is_len(x):
        return isinstance(x, ast.Call) and isinstance(x.func, ast.Name) and x.func.id == "len" and len(x.args) == 1 and not x.keywords

    if is_len(l) and _subs._int(r) is not None:
        return l.args[0], op, _subs._int(r)
    if is_len(r) and _subs._int(l) is not None and op in _subs._SWAP:
        return r.args[0], _subs._SWAP[op], _subs._int(l)
    return None


def formula(env: Env, e: ast.AST, at) -> tuple:
    """Formula of the truth value of ``e`` evaluated at statement ``at``."""
    cx, m = env.cx, env.m
    if isinstance(e, ast.UnaryOp) and isinstance(e.op, ast.Not):
        return Not(formula(env, e.operand, at))
    if isinstance(e, ast.BoolOp):
        parts = [formula(env, v, at) for v in e.values]
        return And(*parts) if isinstance(e.op, ast.And) else Or(*parts)
    if isinstance(e, ast.NamedExpr):
        return formula(env, e.value, at)
    if isinstance(e, ast.Constant):
        return TRUE if e.value else FALSE
    if isinstance(e, ast.Name):
        # a boolean local that holds a test: the test, evaluated where it was assigned
        d, d_at = env.definition(e, at)
        if d is not e and isinstance(d, (ast.Compare, ast.BoolOp, ast.UnaryOp)) and not _impure(d):
            return formula(env, d, d_at)
        if d is not e and isinstance(d, ast.Call) and not _impure(d):
            return formula(env, d, d_at)
        return Var(("T", env.key(e, at)))
    if isinstance(e, ast.Compare) and len(e.ops) == 1:
        l, r, op = e.left, e.comparators[0], e.ops[0]
        if isinstance(op, (ast.Is, ast.IsNot, ast.Eq, ast.NotEq)) and isinstance(r, ast.Constant) and r.value is None:
            v = Var(("N", env.key(l, at)))
            return v if isinstance(op, (ast.IsNot, ast.NotEq)) else Not(v)
        lc = _len_cmp(e)
        if lc is not None:
            subj, lop, c = lc
            t = Var(("T", env.key(subj, at)))
            if (lop is ast.Gt and c == 0) or (lop is ast.GtE and c == 1) or (lop is ast.NotEq and c == 0):
                return t
            if (lop is ast.Eq and c == 0) or (lop is ast.Lt and c == 1) or (lop is ast.LtE and c == 0):
                return Not(t)
            kk = env.key(subj, at)
            p = Var(("P", ("len", kk, lop.__name__, c)))
            return p
        if isinstance(op, (ast.In, ast.NotIn)) and isinstance(l, ast.Constant) and isinstance(l.value, str) and isinstance(r, ast.Attribute) and r.attr == "direct_descendant_type_set":
            k = ("call", ("attr", env.key(r.value, at), "get_child"), (("const", repr(l.value)),), ())
            v = Var(("N", k))
            return v if isinstance(op, ast.In) else Not(v)
        if isinstance(op, (ast.Eq, ast.NotEq)):
            kl, kr = env.key(l, at), env.key(r, at)
            if repr(kl) > repr(kr):
                kl, kr = kr, kl
            v = Var(("P", ("eq", kl, kr)))
            return v if isinstance(op, ast.Eq) else Not(v)
        if isinstance(op, (ast.In, ast.NotIn)):
            v = Var(("P", ("in", env.key(l, at), env.key(r, at))))
            return v if isinstance(op, ast.In) else Not(v)
        return Var(("P", env.key(e, at)))
    if isinstance(e, ast.Call):
        la = last_attr(e)
        if isinstance(e.func, ast.Name) and e.func.id in ("bool", "len") and len(e.args) == 1 and not e.keywords:
            return formula(env, e.args[0], at) if e.func.id == "bool" else Var(("T", env.key(e.args[0], at)))
        if isinstance(e.func, ast.Attribute) and la == "is_type" and not e.keywords:
            ts = _type_args(cx, m, e.args)
            if ts:
                k = env.key(e.func.value, at)
                return Or(*[Var(("has", k, t)) for t in ts])
        if isinstance(e.func, ast.Attribute) and la in ("all", "select", "any") and len(e.args) == 1 and not e.keywords:
            p = _is_type_pred(e.args[0])
            single = _functional_single(env, e.func.value, at) if p is not None else None
            if p is not None and single is not None:
                ts = _type_args(cx, m, p.args)
                if ts:
                    return Or(*[Var(("has", single, t)) for t in ts])
        if isinstance(e.func, ast.Name) and e.func.id == "isinstance" and len(e.args) == 2:
            return Var(("P", ("isinstance", env.key(e.args[0], at), norm(e.args[1]))))
        return Var(("T", env.key(e, at)))
    return Var(("T", env.key(e, at)))


# ---------------------------------------------------------------------------
# axioms about the values that occur
# ---------------------------------------------------------------------------


def _subkeys(k, out: set) -> set:
    if isinstance(k, tuple):
        if k and k[0] in ("call", "attr", "sub", "param", "def", "defs", "global"):
            out.add(k)
        for x in k:
            _subkeys(x, out)
    return out


def _call_parts(k):
    """(receiver key, method, args, kwargs) of a method-call key."""
    if isinstance(k, tuple) and len(k) >= 4 and k[0] == "call" and isinstance(k[1], tuple) and k[1][0] == "attr":
        return k[1][1], k[1][2], k[2], k[3]
    return None


def _const_key_strs(args) -> Optional[List[str]]:
    out = []
    for a in args:
        if isinstance(a, tuple) and a[0] == "const":
            try:
                v = ast.literal_eval(a[1])
            except Exception:
                return None
            if not isinstance(v, str):
                return None
            out.append(v)
        else:
            return None
    return out or None


def axioms(keys: set) -> List[tuple]:
    out: List[tuple] = []
    for k in keys:
        out.append(Implies(Var(("T", k)), Var(("N", k))))
        if len(k) == 3 and k[0] == "attr" and k[2] == "segment" and isinstance(k[1], tuple) and k[1][:2] == ("call", ("global", "FunctionalContext")):
            out.append(Var(("T", k)))  # FunctionalContext(ctx).segment == Segments(ctx.segment): one element
        cp = _call_parts(k)
        if cp is None:
            continue
        recv, meth, args, kws = cp
        if meth in _PRESERVING and not (meth == "get" and any(n in ("default", "**") for n, _ in kws)):
            out.append(Implies(Var(("T", k)), Var(("T", recv))))
        if meth == "get" and not kws and (args == () or args == (("const", "0"),)):
            # Segments.get(): the first element when there is one; a segment is always truthy
            out.append(Implies(Var(("T", recv)), Var(("N", k))))
            out.append(Implies(Var(("N", k)), Var(("T", k))))
        if meth == "get_child" and not kws:
            out.append(Implies(Var(("N", k)), Var(("T", k))))
            ts = _const_key_strs(args)
            if ts:
                out.append(Implies(Var(("N", k)), Or(*[Var(("has", k, t)) for t in ts])))
    return out


# ---------------------------------------------------------------------------
# facts known at a statement
# ---------------------------------------------------------------------------


def _crawl_source(cx: Ctx, m, it: ast.AST) -> Optional[List[str]]:
    """Types every element of the iterable carries: ``Y.recursive_crawl(T..)``, ``Y.get_children(T..)``,
    ``Y.children(sp.is_type(T..))`` / ``.select(sp.is_type(T..))``."""
    it = _subs._iter_collection(it)
    if not (isinstance(it, ast.Call) and isinstance(it.func, ast.Attribute)):
        return None
    la = it.func.attr
    if la in ("recursive_crawl", "get_children"):
        pos = [a for a in it.args]
        return _type_args(cx, m, pos) if pos else None
    if la in ("children", "select", "first", "last") and it.args:
        p = _is_type_pred(it.args[0])
        if p is not None:
            return _type_args(cx, m, p.args)
    return None


def flow_facts(env: Env, st, site: Optional[ast.AST] = None) -> List[Tuple[tuple, str]]:
    """(formula, kind) for everything known when statement ``st`` (expression ``site`` in it) is evaluated."""
    cfg, cx, m = env.cfg, env.cx, env.m
    out: List[Tuple[tuple, str]] = []
    if st is None:
        return out
    for g in cfg.dominators().get(st, set()):
        if isinstance(g, Branch):
            s = g.stmt
            if isinstance(s, (ast.If, ast.While)):
                fm = formula(env, s.test, s)
                out.append((fm if g.polarity else Not(fm), "branch"))
            elif isinstance(s, (ast.For, ast.AsyncFor)) and g.polarity:
                coll = _subs._iter_collection(s.iter)
                out.append((Var(("T", env.key(coll, s))), "for"))
                ts = _crawl_source(cx, m, s.iter)
                if ts and isinstance(s.target, ast.Name):
                    # the loop variable, as seen by the statements of the body
                    k = None
                    for d in env.rd.gen.get(s, []):
                        if d.kind == "for" and d.name == s.target.id and not d.path:
                            k = ("def", d.name, _pos(d.node))
                    if k is not None:
                        out.append((Or(*[Var(("has", k, t)) for t in ts]), "for"))
        elif isinstance(g, ast.Assert) and g is not st:
            out.append((formula(env, g.test, g), "assert"))
    if site is not None:
        for fa in _subs._local_facts(site, st):
            fm = formula(env, fa.expr, st)
            out.append((fm if fa.truth else Not(fm), fa.kind))
    return out


# ---------------------------------------------------------------------------
# the rule context and the crawler guarantee
# ---------------------------------------------------------------------------


def _positional(f) -> List[str]:
    return [a.arg for a in f.args.posonlyargs + f.args.args]


def _family(cx: Ctx, m, c, f) -> list:
    """Rule classes (module, class) whose ``f.name`` resolves to ``f``."""
    out = []
    for mm, cc in [(m, c)] + [(a, b) for a, b in cx.rule_subclasses(c) if b is not c]:
        r = cx.repo.lookup_method(mm, cc, f.name)
        if r and r[1] is f:
            out.append((mm, cc))
    return out


def context_params(cx: Ctx, f, m, _stack=()) -> set:
    """Parameters of method ``f`` that always hold the RuleContext the crawler produced."""
    got = cx._ctxparams.get(id(f))
    if got is not None:
        return got
    res: set = set()
    c = enclosing_class(f)
    if isinstance(f, FuncNode) and c is not None and getattr(c, "_parent", None) is m.tree and f not in _stack:
        pos = _positional(f)
        if f.name == "_eval":
            if len(pos) >= 2:
                res = {pos[1]}
        else:
            # every call self.<name>(..) in the classes of the family passes its own context
            fam_classes = {id(cc) for _, cc in _family(cx, m, c, f)}
            sites = []
            for cm, call in cx.calls_named(f.name):
                if not (isinstance(call.func, ast.Attribute) and isinstance(call.func.value, ast.Name) and call.func.value.id in ("self", "cls")):
                    continue
                cc = enclosing_class(call)
                if cc is None:
                    continue
                # the caller's class must share the method
                r = cx.repo.lookup_method(cm, cc, f.name)
                if not r or r[1] is not f:
                    continue
                sites.append((cm, call))
            if sites and fam_classes:
                cand = set(pos[1:]) | {a.arg for a in f.args.kwonlyargs}
                for cm, call in sites:
                    caller = _real_function(call)
                    cps = context_params(cx, caller, cm, _stack + (f,)) if caller is not None else set()
                    ok_here = set()
                    for i, a in enumerate(call.args):
                        if isinstance(a, ast.Name) and a.id in cps and i + 1 < len(pos):
                            ok_here.add(pos[i + 1])
                    for kw in call.keywords:
                        if kw.arg and isinstance(kw.value, ast.Name) and kw.value.id in cps:
                            ok_here.add(kw.arg)
                    cand &= ok_here
                res = cand
    if not _stack:
        cx._ctxparams[id(f)] = res
    return res


def crawler_types(cx: Ctx, f, m) -> Optional[frozenset]:
    """Union of the segment types the crawlers of all rule classes running ``f`` seek."""
    if id(f) in cx._crawl:
        return cx._crawl[id(f)]
    res: Optional[frozenset] = None
    c = enclosing_class(f)
    if c is not None and getattr(c, "_parent", None) is m.tree:
        types: set = set()
        fam = _family(cx, m, c, f)
        ok = bool(fam)
        for mm, cc in fam:
            cb = None
            cbm = None
            for am, ac in cx.repo.mro(mm, cc):
                for item in ac.body:
                    if isinstance(item, ast.Assign) and any(isinstance(t, ast.Name) and t.id == "crawl_behaviour" for t in item.targets):
                        cb, cbm = item.value, am
                    elif isinstance(item, ast.AnnAssign) and isinstance(item.target, ast.Name) and item.target.id == "crawl_behaviour" and item.value is not None:
                        cb, cbm = item.value, am
                    if cb is not None:
                        break
                if cb is not None:
                    break
            if cb is None:
                # abstract helper class without a crawler of its own (never instantiated as a rule)
                if any(b is not cc for _, b in cx.rule_subclasses(cc)):
                    continue
                ok = False
                break
            if isinstance(cb, ast.Call) and call_name(cb) == "RootOnlyCrawler":
                types.add("file")
            elif isinstance(cb, ast.Call) and call_name(cb) == "SegmentSeekerCrawler" and cb.args:
                ts = _const_seq(cx, cbm, cb.args[0])
                if not ts:
                    ok = False
                    break
                types.update(ts)
            else:
                ok = False
                break
        if ok and types:
            res = frozenset(types)
    cx._crawl[id(f)] = res
    return res


def crawler_facts(env: Env, keys: set) -> List[tuple]:
    """has(<ctx>.segment, ..) for every context parameter of the function that occurs in ``keys``."""
    out = []
    cps = context_params(env.cx, env.f, env.m)
    if not cps:
        return out
    ts = crawler_types(env.cx, env.f, env.m)
    if not ts:
        return out
    for p in cps:
        k = ("attr", env.subst.get(p, ("param", p)), "segment")
        if k in keys:
            out.append(Or(*[Var(("has", k, t)) for t in sorted(ts)]))
    return out


# ---------------------------------------------------------------------------
# single conjunct
# ---------------------------------------------------------------------------


def _prove(env: Env, goal: tuple, st, site=None) -> Optional[str]:
    facts = flow_facts(env, st, site)
    fs = [f for f, _ in facts]
    keys: set = set()
    for f in fs + [goal]:
        for v in _vars(f, set()):
            for part in v[1:]:
                _subkeys(part, keys)
    ax = axioms(keys)
    cf = crawler_facts(env, keys)
    if entails(fs + ax + cf, goal):
        if cf and not entails(fs + ax, goal):
            return "crawler"
        kinds = sorted({k for _, k in facts}) or ["axiom"]
        # name the weakest set of fact kinds that suffices
        for kind in ("branch", "assert", "for", "short-circuit", "conditional-expression", "comprehension"):
            sub = [f for f, k in facts if k == kind]
            if sub and entails(sub + ax, goal):
                return kind
        return "+".join(kinds)
    return None


def _is_constructor_call(e: ast.AST) -> bool:
    return isinstance(e, ast.Call) and isinstance(e.func, ast.Name) and e.func.id[:1].isupper() and e.func.id not in ("Segments", "FunctionalContext")


def _typing_pos_marker(env: Env, e: ast.AST, at) -> Optional[str]:
    """``X.pos_marker`` / ``X.pos_marker is not None`` (through a local), X not built here."""
    if isinstance(e, ast.Compare) and len(e.ops) == 1 and isinstance(e.ops[0], (ast.IsNot, ast.NotEq)) and isinstance(e.comparators[0], ast.Constant) and e.comparators[0].value is None:
        e = e.left
    d, d_at = env.definition(e, at)
    if not (isinstance(d, ast.Attribute) and d.attr == "pos_marker"):
        return None
    owner, o_at = env.definition(d.value, d_at)
    if _is_constructor_call(owner):
        return None
    # every reaching definition of a local owner must be something other than a constructor call
    if isinstance(d.value, ast.Name):
        for dd in env.rd.IN.get(d_at, {}).get(d.value.id, set()):
            if dd.kind in ("assign", "walrus") and dd.value is not None and _is_constructor_call(dd.value):
                return None
    return norm(d.value)


_OPTIONAL_WORDS = ("Optional", "None", "Any")


def _non_optional_return(cx: Ctx, env: Env, call: ast.Call) -> Optional[str]:
    fn = call.func
    target = None
    if isinstance(fn, ast.Name):
        if fn.id[:1].isupper():
            r = cx.repo.resolve_name(env.m, fn.id)
            if r and isinstance(r[1], ast.ClassDef):
                return f"{fn.id}(..) constructs an object"
            return None
        r = cx.repo.resolve_name(env.m, fn.id)
        if r and isinstance(r[1], FuncNode):
            target = r[1]
    elif isinstance(fn, ast.Attribute) and isinstance(fn.value, ast.Name) and fn.value.id in ("self", "cls"):
        c = enclosing_class(call)
        if c is not None:
            r = cx.repo.lookup_method(env.m, c, fn.attr)
            if r:
                target = r[1]
    if target is None or target.returns is None:
        return None
    ann = norm(target.returns)
    if any(w in ann for w in _OPTIONAL_WORDS) or ann in ("bool", "int", "str", "float"):
        return None
    if any(isinstance(n, ast.Return) and (n.value is None or (isinstance(n.value, ast.Constant) and n.value.value is None)) for n in walk_local(target)):
        return None
    return f"{norm(fn)}(..) is annotated -> {ann}"


def _construction(cx: Ctx, env: Env, e: ast.AST, at) -> Optional[str]:
    if isinstance(e, ast.Compare) and len(e.ops) == 1 and isinstance(e.ops[0], (ast.IsNot, ast.NotEq)) and isinstance(e.comparators[0], ast.Constant) and e.comparators[0].value is None:
        e = e.left
    d, d_at = env.definition(e, at)
    if isinstance(d, ast.Call):
        return _non_optional_return(cx, env, d)
    return None


# ---------------------------------------------------------------------------
# call sites (contract / caller-constants)
# ---------------------------------------------------------------------------


def call_sites(cx: Ctx, f, m) -> Optional[list]:
    """(module, call) of every call of ``f`` in the tree, or None when they cannot be told apart from
    calls of other functions of the same name."""
    name = f.name
    c = enclosing_class(f)
    out = []
    if c is None:
        if getattr(f, "_parent", None) is not m.tree:
            return None  # nested function
        for cm, call in cx.calls_named(name):
            if isinstance(call.func, ast.Name):
                r = cx.repo.resolve_name(cm, name)
                if r and r[1] is f:
                    out.append((cm, call))
            elif isinstance(call.func, ast.Attribute) and len(cx.defs_named(name)) > 1:
                # mod.f(..) with several functions of that name in the tree
                base = call.func.value
                if isinstance(base, ast.Name):
                    r = cx.repo.resolve_name(cm, base.id + "." + name)
                    if r and r[1] is f:
                        out.append((cm, call))
            elif isinstance(call.func, ast.Attribute):
                out.append((cm, call))
        return out
    others = [d for d in cx.defs_named(name) if d is not f]
    for cm, call in cx.calls_named(name):
        fn = call.func
        if isinstance(fn, ast.Name):
            continue
        recv = fn.value
        if isinstance(recv, ast.Name) and recv.id in ("self", "cls"):
            cc = enclosing_class(call)
            if cc is None:
                return None
            r = cx.repo.lookup_method(cm, cc, name)
            if r and r[1] is f:
                out.append((cm, call))
            continue
        if isinstance(recv, ast.Name):
            r = cx.repo.resolve_name(cm, recv.id)
            if r and isinstance(r[1], ast.ClassDef):
                rr = cx.repo.lookup_method(r[0], r[1], name)
                if rr and rr[1] is f:
                    out.append((cm, call))
                continue
        if isinstance(recv, ast.Call) and call_name(recv) == "super":
            continue
        if others:
            return None  # receiver of unknown class and the name is not unique
        out.append((cm, call))
    return out


def _bind(f, call: ast.Call) -> Optional[Dict[str, ast.AST]]:
    """Parameter name -> argument expression (None when the call uses * / **)."""
    if any(isinstance(a, ast.Starred) for a in call.args) or any(k.arg is None for k in call.keywords):
        return None
    pos = _positional(f)
    c = enclosing_class(f)
    is_static = any(norm(d) == "staticmethod" for d in f.decorator_list)
    skip = 1 if (c is not None and not is_static and isinstance(call.func, ast.Attribute)) else 0
    bound: Dict[str, ast.AST] = {}
    for i, a in enumerate(call.args):
        if i + skip >= len(pos):
            return None
        bound[pos[i + skip]] = a
    for k in call.keywords:
        bound[k.arg] = k.value
    # defaults
    defaults = f.args.defaults
    for name, dv in zip(pos[len(pos) - len(defaults):], defaults):
        bound.setdefault(name, dv)
    for a, dv in zip(f.args.kwonlyargs, f.args.kw_defaults):
        if dv is not None:
            bound.setdefault(a.arg, dv)
    return bound


def _param_names(goal: tuple) -> set:
    out = set()

    def walk(k):
        if isinstance(k, tuple):
            if len(k) == 2 and k[0] == "param":
                out.add(k[1])
            for x in k:
                walk(x)

    for v in _vars(goal, set()):
        walk(v)
    return out


def _only_params(goal: tuple) -> bool:
    """Does the goal speak about parameters (and constants) only -- no local state of the callee?"""
    bad = []

    def walk(k):
        if isinstance(k, tuple):
            if k and k[0] in ("def", "defs", "global", "text"):
                bad.append(k)
            for x in k:
                walk(x)

    for v in _vars(goal, set()):
        walk(v)
    return not bad


def _contract(cx: Ctx, f, m, test: ast.AST, st, depth: int = 0) -> Optional[str]:
    if depth > 1 or not isinstance(f, FuncNode):
        return None
    env0 = Env(cx, f, m)
    g0 = formula(env0, test, st)
    params = _param_names(g0)
    if not params or not _only_params(g0):
        return None
    # the parameters must not be re-assigned before the assert
    for p in params:
        ds = env0.rd.IN.get(st, {}).get(p, set())
        if len(ds) != 1 or next(iter(ds)).kind != "param":
            return None
    sites = call_sites(cx, f, m)
    if not sites:
        return None
    for cm, call in sites:
        caller = _real_function(call)
        if caller is None or not isinstance(caller, FuncNode):
            return None
        bound = _bind(f, call)
        if bound is None or any(p not in bound for p in params):
            return None
        cenv = Env(cx, caller, cm)
        cst = cenv.cfg.stmt_of(call)
        if cst is None:
            return None
        in_lambda = _subs._in_lambda(call, caller) is not None
        subst = {}
        for p in params:
            a = bound[p]
            subst[p] = cenv.key(a, cst) if a is not None else ("const", "None")
        # the callee's condition, phrased over the caller's values
        senv = Env(cx, f, m, subst=subst)
        goal = formula(senv, test, st)
        if in_lambda:
            return None
        if _prove(cenv, goal, cst, call) is None:
            return None
    return f"holds at all {len(sites)} call site(s)"


def _caller_constants(cx: Ctx, f, m, e: ast.AST, st) -> Optional[str]:
    if not isinstance(f, FuncNode):
        return None
    if not (isinstance(e, ast.Compare) and len(e.ops) == 1 and isinstance(e.left, ast.Name)):
        return None
    op, r = e.ops[0], e.comparators[0]
    if isinstance(op, ast.In) and isinstance(r, (ast.Tuple, ast.List, ast.Set)) and all(isinstance(x, ast.Constant) or _subs._int(x) is not None for x in r.elts):
        allowed = {repr(_subs._int(x)) if _subs._int(x) is not None else repr(x.value) for x in r.elts}
    elif isinstance(op, ast.Eq) and (isinstance(r, ast.Constant) or _subs._int(r) is not None):
        allowed = {repr(_subs._int(r)) if _subs._int(r) is not None else repr(r.value)}
    else:
        return None
    p = e.left.id
    rd = cfg_of(f).reaching()
    ds = rd.IN.get(st, {}).get(p, set())
    if len(ds) != 1 or next(iter(ds)).kind != "param":
        return None
    sites = call_sites(cx, f, m)
    if not sites:
        return None
    for cm, call in sites:
        bound = _bind(f, call)
        if bound is None or p not in bound:
            return None
        a = bound[p]
        v = repr(_subs._int(a)) if _subs._int(a) is not None else (repr(a.value) if isinstance(a, ast.Constant) else None)
        if v is None or v not in allowed:
            return None
    return f"all {len(sites)} call site(s) pass a literal from the set"


# ---------------------------------------------------------------------------
# the judge
# ---------------------------------------------------------------------------


def judge(cx: Ctx, a: ast.Assert, m) -> Tuple[Optional[str], Optional[str], str]:
    f = _real_function(a)
    if f is None or not isinstance(f, FuncNode):
        return None, None, "module level"
    h = _subs._in_try_catching(a, f, _CATCH)
    if h is not None and not any(isinstance(x, ast.Raise) for x in ast.walk(h)):
        return "discharged", "try", "inside try/except AssertionError"
    env = Env(cx, f, m)
    st = a
    if not env.cfg.reachable(st):
        return "discharged", "unreachable", "statement not reachable"
    idioms: List[str] = []
    group = "discharged"
    for e, truth in atoms(a.test, True):
        goal = formula(env, e, st)
        if not truth:
            goal = Not(goal)
        how = _prove(env, goal, st, None)
        if how is not None:
            idioms.append(how)
            continue
        if not truth:
            return None, None, f"nothing known here implies `not {norm(e)[:80]}`"
        tp = _typing_pos_marker(env, e, st)
        if tp is not None:
            idioms.append("typing:pos_marker")
            group = "typing"
            continue
        cc = _caller_constants(cx, f, m, e, st)
        if cc is not None:
            idioms.append("caller-constants")
            continue
        cn = _construction(cx, env, e, st)
        if cn is not None:
            idioms.append("construction")
            continue
        ct = _contract(cx, f, m, e, st)
        if ct is not None:
            idioms.append("contract")
            continue
        return None, None, f"nothing known here implies `{norm(e)[:80]}`"
    kinds = sorted(set(idioms))
    if group == "typing" and kinds != ["typing:pos_marker"]:
        kinds = [k for k in kinds if k != "typing:pos_marker"] + ["typing:pos_marker"]
    return group, "+".join(kinds), "implied"


def sites(repo):
    for scope in A_SCOPES:
        for m in repo.iter_modules(scope):
            if m.relpath.startswith(A_EXCLUDE):
                continue
            for n in ast.walk(m.tree):
                if isinstance(n, ast.Assert):
                    yield m, n


def site_key(m, a: ast.Assert) -> Tuple[str, str, str]:
    f = _real_function(a)
    return (m.relpath[len("src/sqlfluff/"):], qualname(f) if f is not None else "<module>", norm(a.test))


def segment_truthiness_overrides(repo) -> list:
    """``__bool__`` / ``__len__`` defined by a segment class: would break 'a segment is always truthy'."""
    out = []
    for m in repo.iter_modules("src/sqlfluff/core/parser/segments/"):
        for q, c in m.classes():
            for item in c.body:
                if isinstance(item, FuncNode) and item.name in ("__bool__", "__len__"):
                    out.append((m, c, item))
    return out
