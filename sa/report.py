"""Verdict protocol, evidence files, known-findings handling (DESIGN.md 2.9/2.10)."""

from __future__ import annotations

import ast
import json
import os
import time
from typing import Any, Dict, List, Optional

from .index import AnalysisError, Repo, module_of, enclosing_function, qualname, short

VERIF = os.path.dirname(os.path.dirname(os.path.abspath(__file__)))
KNOWN_FILE = os.path.join(VERIF, "known_findings.json")


class Finding:
    def __init__(self, rule: str, construct: str, detail: str, message: str, loc: str, extra=None):
        self.rule = rule
        self.construct = construct  # qualified symbol, position independent
        self.detail = detail  # normalised statement text / instance name
        self.message = message
        self.loc = loc
        self.extra = extra or {}

    @property
    def key(self) -> str:
        return f"{self.rule}|{self.construct}|{self.detail}"

    def to_dict(self) -> Dict[str, Any]:
        return {
            "rule": self.rule,
            "construct": self.construct,
            "detail": self.detail,
            "message": self.message,
            "loc": self.loc,
            "key": self.key,
            **({"extra": self.extra} if self.extra else {}),
        }


def construct_of(node: ast.AST) -> str:
    m = module_of(node)
    f = node if hasattr(node, "_qualname") else enclosing_function(node)
    while f is not None and not hasattr(f, "_qualname"):
        f = enclosing_function(f)
    return f"{m.relpath}::{qualname(f) if f is not None else '<module>'}"


class Check:
    """Collects obligations, findings and evidence for one property run."""

    def __init__(self, pid: str, repo: Repo, tier: str, seed: int = 0):
        self.pid = pid
        self.repo = repo
        self.tier = tier
        self.seed = seed
        self.t0 = time.time()
        self.findings: List[Finding] = []
        self.obligations = 0
        self.discharged = 0
        self.instances: Dict[str, int] = {}
        self.samples: List[Any] = []
        self.notes: List[str] = []
        self.rules: Dict[str, str] = {}
        self.constructs: set = set()
        self.assumptions: List[str] = []
        self.exhaustive: Optional[bool] = None
        self.extra: Dict[str, Any] = {}

    # -- declaring what is checked -------------------------------------
    def rule(self, rid: str, text: str) -> None:
        self.rules[rid] = text

    def count(self, name: str, n: int = 1) -> None:
        self.instances[name] = self.instances.get(name, 0) + n

    def floor(self, name: str, minimum: int) -> None:
        """Instance floor: a rule that matches fewer sites than confirmed by hand
        would pass vacuously, so that is an analysis error."""
        got = self.instances.get(name, 0)
        if got < minimum:
            raise AnalysisError(
                f"instance floor not met for '{name}': found {got}, expected >= {minimum} "
                f"(anchor refactored? update the rule after reading the new code)"
            )

    def sample(self, obj: Any, limit: int = 12) -> None:
        if len(self.samples) < limit:
            self.samples.append(obj)

    def note(self, text: str) -> None:
        self.notes.append(text)

    # -- obligations -----------------------------------------------------
    def ok(self, rule: str, construct: str, what: str = "") -> None:
        self.obligations += 1
        self.discharged += 1
        self.constructs.add((rule, construct, what))

    def fail(
        self,
        rule: str,
        node: Optional[ast.AST],
        message: str,
        detail: Optional[str] = None,
        construct: Optional[str] = None,
        loc: Optional[str] = None,
        extra=None,
    ) -> Finding:
        self.obligations += 1
        if node is not None:
            construct = construct or construct_of(node)
            if detail is None:
                detail = short(node, 160)
            loc = loc or f"{module_of(node).relpath}:{getattr(node, 'lineno', 0)}"
        f = Finding(rule, construct or "?", detail or "", message, loc or "?", extra)
        self.constructs.add((rule, f.construct, f.detail))
        # do not report the same keyed finding twice
        if all(x.key != f.key for x in self.findings):
            self.findings.append(f)
        return f

    def require(self, cond: bool, rule: str, node: Optional[ast.AST], message: str, **kw) -> bool:
        if cond:
            c = kw.get("construct") or (construct_of(node) if node is not None else "?")
            d = kw.get("detail") or (short(node, 160) if node is not None else "")
            self.ok(rule, c, d)
        else:
            self.fail(rule, node, message, **kw)
        return cond

    # -- finishing ---------------------------------------------------------
    def finish(self) -> int:
        known = load_known()
        listed = {e["key"]: e for e in known.get("findings", []) if e.get("property") == self.pid}
        new, old = [], []
        for f in self.findings:
            (old if f.key in listed else new).append(f)
        for f in old:
            e = listed[f.key]
            print(f"KNOWN-FINDING: property={self.pid} {f.rule} {f.construct}: {e.get('what', f.message)}")
        seen_keys = {f.key for f in self.findings}
        stale = [k for k in listed if k not in seen_keys]
        for k in stale:
            print(f"note: listed finding no longer observed (stale entry, not an error): {k}")
        replay_paths = []
        if new:
            rdir = os.path.join(self.evidence_dir(), "replay")
            os.makedirs(rdir, exist_ok=True)
            for i, f in enumerate(new):
                p = os.path.join(rdir, f"{self.pid}-{i}.json")
                with open(p, "w") as fh:
                    json.dump({"property": self.pid, "root": self.repo.root, **f.to_dict()}, fh, indent=1)
                replay_paths.append(p)
                print(f"{f.loc}: [{f.rule}] {f.message}")
                print(f"    construct: {f.construct}")
                print(f"    instance : {f.detail}")
                print(f"VIOLATION property={self.pid} replay={p}")
        self.write_evidence(len(new), [f.to_dict() for f in old], stale)
        print(
            f"{self.pid} [{self.tier}] obligations={self.obligations} discharged={self.discharged} "
            f"new_findings={len(new)} known_findings={len(old)} wall={time.time() - self.t0:.2f}s"
        )
        return 1 if new else 0

    def evidence_dir(self) -> str:
        """/verif/evidence for runs against /repo itself; runs against a scratch root
        (--root: self-tests, seeded changes, refactor probes) must never overwrite the
        evidence of the real tree, so they write to a scratch directory instead."""
        d = os.environ.get("VERIF_EVIDENCE_DIR")
        if d:
            return d
        if os.path.realpath(self.repo.root) == os.path.realpath(os.environ.get("VERIF_REPO", "/repo")):
            return os.path.join(VERIF, "evidence")
        import tempfile

        return os.path.join(tempfile.gettempdir(), "verif-evidence-scratch")

    def write_evidence(self, n_viol: int, known_seen: List[dict], stale: List[str]) -> None:
        os.makedirs(self.evidence_dir(), exist_ok=True)
        expl = (
            "Static analysis of the current source tree (no SQL is lexed, parsed, linted or fixed). "
            "Rules applied: "
            + " ".join(f"[{k}] {v}" for k, v in sorted(self.rules.items()))
        )
        if self.notes:
            expl += " Notes: " + " ".join(self.notes)
        coverage: Dict[str, Any] = {
            "explanation": expl,
            "evaluations": max(self.obligations, 1),
            "distinct_nontrivial": len(self.constructs),
            "rule": "one evaluation = one rule instance (site / node / path obligation) examined; distinct = "
            "distinct (rule, construct, instance) triples carrying an obligation",
            "obligations": self.obligations,
            "discharged": self.discharged,
            "instances": dict(sorted(self.instances.items())),
            "samples": self.samples or [{"note": "no instance sampled"}],
            "analysed": {
                "root": self.repo.root,
                "modules": len(self.repo.modules),
                "lines": self.repo.n_lines,
                "source_digest": self.repo.digest[:16],
            },
            "known_findings_seen": known_seen,
            "stale_known_entries": stale,
        }
        if self.exhaustive is not None:
            coverage["exhaustive"] = self.exhaustive
        coverage.update(self.extra)
        ev = {
            "property_id": self.pid,
            "tier": self.tier,
            "seed": self.seed,
            "level": "other",
            "coverage": coverage,
            "assumptions": self.assumptions
            or ["CPython ast gives the program's syntax faithfully; rule tables in /verif/sa/tables.py were reviewed by hand"],
            "wall_s": round(time.time() - self.t0, 3),
            "violations": n_viol,
        }
        with open(os.path.join(self.evidence_dir(), f"{self.pid}.json"), "w") as fh:
            json.dump(ev, fh, indent=1, default=str)


def load_known() -> Dict[str, Any]:
    if not os.path.exists(KNOWN_FILE):
        return {"findings": [], "fixed": []}
    with open(KNOWN_FILE) as fh:
        return json.load(fh)
