"""Small def-use / must-pass helpers shared by the fix-pipeline checkers
(C10, C13, C30, C33).  Everything here is built on ``sa.index`` and ``sa.cfg``;
nothing is matched on names of locals or on line numbers.
"""

from __future__ import annotations

import ast
from typing import Callable, Iterable, Iterator, List, Optional, Sequence, Set, Tuple

from .cfg import CFG, Branch, origins
from .index import FuncNode, Module, Repo, call_name, kwarg, last_attr, norm, short, walk_local

MUTATORS = ("append", "extend", "insert", "sort", "reverse", "pop", "remove", "clear", "__setitem__", "__iadd__")


def attr_chain(node: ast.AST) -> Optional[Tuple[str, ...]]:
    """``a.b.c`` -> ('a', 'b', 'c'); None when the base is not a plain name."""
    parts: List[str] = []
    while isinstance(node, ast.Attribute):
        parts.append(node.attr)
        node = node.value
    if isinstance(node, ast.Name):
        parts.append(node.id)
        return tuple(reversed(parts))
    return None


def chain_base(node: ast.AST) -> Optional[ast.Name]:
    while isinstance(node, ast.Attribute):
        node = node.value
    return node if isinstance(node, ast.Name) else None


def callee(repo: Repo, call: ast.Call) -> Optional[Tuple[Module, ast.AST]]:
    """Definition a call refers to (module level names, imports, ``self/cls/Class.meth``)."""
    m: Module = call._module  # type: ignore[attr-defined]
    name = call_name(call)
    if not name or name.startswith("?") or "()" in name:
        return None
    r = repo.resolve_name(m, name)
    if r is not None:
        return r
    head, _, rest = name.partition(".")
    if head in ("self", "cls") and rest and "." not in rest:
        c = _enclosing_class(call)
        if c is not None:
            return repo.lookup_method(m, c, rest)
    return None


def _enclosing_class(node: ast.AST) -> Optional[ast.ClassDef]:
    p = getattr(node, "_parent", None)
    while p is not None and not isinstance(p, ast.ClassDef):
        p = getattr(p, "_parent", None)
    return p


def calls_to(repo: Repo, target: ast.AST, prefix: str = "") -> Iterator[ast.Call]:
    """Every call in the tree whose callee resolves to the definition ``target``."""
    tname = getattr(target, "name", None)
    for m in repo.iter_modules(prefix):
        if tname and tname not in m.text:
            continue
        for node in ast.walk(m.tree):
            if isinstance(node, ast.Call) and last_attr(node) == tname:
                r = callee(repo, node)
                if r is not None and r[1] is target:
                    yield node


def is_shadowed(call: ast.Call) -> bool:
    """The callee's plain name is a parameter/local of the enclosing function."""
    if not isinstance(call.func, ast.Name):
        return False
    p = getattr(call, "_parent", None)
    while p is not None:
        if isinstance(p, FuncNode):
            a = p.args
            if any(x.arg == call.func.id for x in a.posonlyargs + a.args + a.kwonlyargs):
                return True
        p = getattr(p, "_parent", None)
    return False


def for_origin(cfg: CFG, name: ast.AST, at=None) -> Optional[Tuple[ast.AST, tuple]]:
    """(for statement, tuple path) when ``name`` is exactly a loop variable."""
    if not isinstance(name, ast.Name):
        return None
    os_ = origins(cfg, name, at)
    if len(os_) == 1 and os_[0].kind == "for":
        return os_[0].stmt, os_[0].path
    return None


def param_origin(cfg: CFG, name: ast.AST, at=None) -> Optional[str]:
    """Parameter name when ``name`` can only be that (unmodified) parameter."""
    if not isinstance(name, ast.Name):
        return None
    os_ = origins(cfg, name, at)
    if os_ and all(o.kind == "param" for o in os_) and len({o.expr.arg for o in os_}) == 1:
        return os_[0].expr.arg
    return None


def sole_expr_origin(cfg: CFG, node: ast.AST, at=None) -> Optional[ast.AST]:
    """The one expression a value can come from (names expanded), else None."""
    if not isinstance(node, ast.Name):
        return node
    os_ = origins(cfg, node, at)
    if len(os_) == 1 and os_[0].kind == "expr" and not os_[0].path:
        return os_[0].expr
    return None


def is_fresh_list(e: ast.AST) -> bool:
    if isinstance(e, ast.List) and not e.elts:
        return True
    return isinstance(e, ast.Call) and call_name(e) == "list" and not e.args


def is_fresh_set(e: ast.AST) -> bool:
    return isinstance(e, ast.Call) and call_name(e) == "set" and not e.args


def mutations_of(func: ast.AST, var: str) -> List[Tuple[str, ast.AST]]:
    """(kind, node) for every in-place change of local ``var`` inside ``func``."""
    out: List[Tuple[str, ast.AST]] = []
    for n in walk_local(func):
        if isinstance(n, ast.Call) and isinstance(n.func, ast.Attribute) and isinstance(n.func.value, ast.Name) and n.func.value.id == var:
            if n.func.attr in MUTATORS:
                out.append((n.func.attr, n))
        elif isinstance(n, ast.AugAssign) and isinstance(n.target, ast.Name) and n.target.id == var:
            out.append(("augassign", n))
        elif isinstance(n, (ast.Assign, ast.AugAssign, ast.Delete)):
            tg = n.targets if isinstance(n, (ast.Assign, ast.Delete)) else [n.target]
            for t in tg:
                if isinstance(t, ast.Subscript) and isinstance(t.value, ast.Name) and t.value.id == var:
                    out.append(("setitem", n))
    return out


def must_pass(cfg: CFG, start, goal, via: Iterable[object]) -> bool:
    """Every path start -> goal passes a node of ``via`` (vacuously true if unreachable)."""
    vs = set(map(id, via))
    return not cfg.paths_avoiding(start, goal, lambda n: id(n) in vs)


def branch_of(cfg: CFG, stmt: ast.AST, polarity: bool) -> Optional[Branch]:
    for s in cfg.succ.get(stmt, []):
        if isinstance(s, Branch) and s.stmt is stmt and s.polarity is polarity:
            return s
    return None


def enclosing_loops(node: ast.AST, stop: ast.AST) -> List[ast.AST]:
    out = []
    p = getattr(node, "_parent", None)
    while p is not None and p is not stop:
        if isinstance(p, (ast.For, ast.While)):
            out.append(p)
        p = getattr(p, "_parent", None)
    return out


def within(node: ast.AST, block: Sequence[ast.AST]) -> bool:
    p = node
    ids = set(map(id, block))
    while p is not None:
        if id(p) in ids:
            return True
        p = getattr(p, "_parent", None)
    return False


class SortedInfo:
    """Facts about a ``sorted(iterable, key=lambda x: ...)`` call."""

    def __init__(self, call: ast.Call):
        self.call = call
        self.iterable = call.args[0] if call.args else None
        self.reverse = kwarg(call, "reverse")
        key = kwarg(call, "key")
        self.key = key
        self.components: Optional[List[str]] = None  # normalised with the lambda parameter as '$'
        if isinstance(key, ast.Lambda) and len(key.args.args) == 1:
            p = key.args.args[0].arg
            body = key.body
            elts = list(body.elts) if isinstance(body, ast.Tuple) else [body]
            self.components = [_subst(e, p) for e in elts]

    @property
    def ascending(self) -> bool:
        return self.reverse is None or (isinstance(self.reverse, ast.Constant) and not self.reverse.value)


def _subst(e: ast.AST, param: str) -> str:
    import copy

    e2 = copy.deepcopy(e)
    for n in ast.walk(e2):
        if isinstance(n, ast.Name) and n.id == param:
            n.id = "$"
    return norm(e2)


def sorted_info(e: ast.AST) -> Optional[SortedInfo]:
    if isinstance(e, ast.Call) and call_name(e) == "sorted" and e.args:
        return SortedInfo(e)
    return None


def compare_atoms(cfg: CFG, stmt) -> List[Tuple[ast.Compare, bool]]:
    return [(e, pol) for e, pol in cfg.conditions(stmt) if isinstance(e, ast.Compare) and len(e.ops) == 1]


def describe_origin(o) -> str:
    e = o.expr
    if o.kind == "param":
        return f"parameter {e.arg}"
    t = short(e, 70) if isinstance(e, ast.AST) else str(e)
    if o.path:
        t += "".join(f"[{p}]" for p in o.path)
    return t if o.kind == "expr" else f"{o.kind} {t}"
