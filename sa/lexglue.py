"""Token adjacency under the layout configuration, and re-lexing of glued token texts (C12).

Three pieces, all over *declared data* of the analysed tree (no SQL input is lexed, parsed,
linted or fixed through sqlfluff):

``LayoutConfig``   the ``[sqlfluff:layout:type:*]`` sections of ``core/default_config.cfg`` read
                   the way ``core/config/ini.py`` reads them (``configparser`` with ``=`` as the
                   only delimiter, no interpolation, case-sensitive options).  A spacing value is
                   reduced to the three classes the respacing code distinguishes:
                   ``T`` (``touch`` / ``touch:inline`` / deprecated ``inline``), ``A`` (``any``),
                   ``O`` (everything else: ``single``, ``single:inline``, ``align...``).

``LexTable``       the dialect's ordered matcher table (``DialectGraph.lexer`` as serialised by
                   ``sa/grammar_frontend.py``) turned into the function "which matcher takes
                   which prefix of this string": ``StringLexer`` = ``startswith(template)``,
                   ``RegexLexer`` = ``regex.compile(template, regex.DOTALL).match`` with a
                   non-empty match, first matcher in table order wins, then again from the top
                   (``PyLexer.lex_match``).  The pattern strings are compiled with the ``regex``
                   module (the library the lexer itself uses) and evaluated on strings built by
                   concatenating two *token texts taken from the tables themselves* (at most a
                   dozen characters).  This evaluates the declared table; it is the regex
                   counterpart of reading a literal and is stated here so nobody mistakes it for
                   a dynamic test of sqlfluff.

``Adjacency``      for one dialect: an OVER-approximation of the set of ordered pairs (a, b) of leaf
                   tokens such that some parse tree has a immediately followed by b (only
                   non-code in between, *and a gap is allowed there*) while the layout
                   configuration asks for no whitespace between them ("touch pairs").

Model of the parse tree (what the analysis assumes of the parser; each point is an
over-approximation, i.e. may add pairs, never loses one):

* a leaf is what a ``StringParser`` / ``MultiStringParser`` / ``TypedParser`` / ``RegexParser``
  node produces: a raw segment whose class types are those of its ``raw_class`` plus the
  node's ``instance_types``; its text is the template (fixed), one of the texts of the lexer
  matchers that produce the typed token (fixed when those are ``StringLexer`` or a finite
  regex language), or *variable*;
* ``Anything``, segment classes with their own ``match`` and unknown matchers may leave any
  lexer token in the tree, with the types the lexer gave it ("lexer leaves");
* ``Sequence`` (and ``Bracketed``, which wraps ``start, elements.., end`` into a
  ``bracketed`` segment): element i may be followed by element j > i when every element in
  between may match nothing (meta, ``Conditional``, ``optional``/``min_times=0``, EPS);
  ``AnyNumberOf``/``AnySetOf``: any element may follow any element unless ``max_times == 1``;
  ``Delimited``: element-delimiter-element (and element-element with ``optional_delimiter``);
  ``OneOf``: no junction; ``exclude``, ``terminators``, anti-templates, precedence and
  ``parse_mode`` are ignored (they only remove trees);
* a junction of a grammar with ``allow_gaps=False`` is not a touch pair: no whitespace can
  stand there in a tree that parsed, so none can be deleted;
* the *immediate common parent* of the two leaves of a junction is the nearest segment class
  (or ``bracketed``) that encloses the grammar node where the junction arises.

Model of the layout configuration (``ReflowConfig.get_block_config``, ``ReflowBlock.from_config``,
``determine_constraints``, ``handle_respace__inline_with_space``; the rules of c12.py check that
the code still has this shape):

* spacing *after* leaf a = the value configured for one of a's own class types; else the value
  of the OUTERMOST ancestor segment that a is the last code leaf of and that has a
  configured ``spacing_after``; else ``single``.  Same for *before* b with "first code leaf";
* ``spacing_within`` of the immediate common parent: ``touch`` turns both sides into touch
  unless a side is ``any``; ``any`` turns both into ``any``;
* the whitespace between a and b is deleted iff neither side is ``any`` and one side is
  ``touch``.  Several configured types on one segment (set iteration order decides in the
  code) are all considered.
"""

from __future__ import annotations

import configparser
import os
from typing import Dict, FrozenSet, Iterable, List, Optional, Sequence, Set, Tuple

from .grammar import DialectGraph, Grammar, field
from .grammar_analyses import Kinds, sccs
from .index import AnalysisError

DEFAULT_CONFIG = "src/sqlfluff/core/default_config.cfg"
LAYOUT_PREFIX = "sqlfluff:layout:type:"
SPACING_KEYS = ("spacing_before", "spacing_after", "spacing_within")
NON_CODE_TYPES = frozenset(("whitespace", "newline", "comment", "indent", "dedent", "end_of_file", "placeholder", "template_loop"))


# -- layout configuration ---------------------------------------------------------------------


def spacing_class(value: str) -> str:
    """T / A / O: the three cases ``_unpack_constraint`` + the respace handlers distinguish."""
    v = value.strip()
    if v == "inline":  # deprecated spelling of touch:inline
        return "T"
    if v.startswith("align"):
        return "O"
    head = v.partition(":")[0]
    if head == "touch":
        return "T"
    if head == "any":
        return "A"
    return "O"


class LayoutConfig:
    """type -> {spacing_before/after/within: raw value} of the default configuration."""

    def __init__(self, text: str):
        cp = configparser.ConfigParser(delimiters="=", interpolation=None)
        cp.optionxform = lambda option: option  # type: ignore[method-assign]
        try:
            cp.read_string(text)
        except configparser.Error as e:
            raise AnalysisError(f"{DEFAULT_CONFIG} cannot be read as an ini file: {e}")
        self.types: Dict[str, Dict[str, str]] = {}
        self.n_sections = 0
        for sec in cp.sections():
            if not sec.startswith(LAYOUT_PREFIX):
                continue
            self.n_sections += 1
            t = sec[len(LAYOUT_PREFIX):]
            ent = {k: v for k, v in cp.items(section=sec) if k in SPACING_KEYS and v.strip()}
            if ent:
                self.types[t] = ent

    @classmethod
    def of_repo(cls, repo) -> "LayoutConfig":
        text = getattr(repo, "overlay", {}).get(DEFAULT_CONFIG)
        if text is None:
            path = os.path.join(repo.root, DEFAULT_CONFIG)
            if not os.path.exists(path):
                raise AnalysisError(f"anchor file not found: {DEFAULT_CONFIG}")
            with open(path, encoding="utf-8") as fh:
                text = fh.read()
        return cls(text)

    def classes(self, types: Iterable[str], key: str) -> FrozenSet[str]:
        """Spacing classes configured under ``key`` for any of ``types`` (empty: not configured)."""
        return frozenset(spacing_class(self.types[t][key]) for t in types if t in self.types and key in self.types[t])

    def values(self, types: Iterable[str], key: str) -> List[str]:
        return sorted(f"{t}.{key}={self.types[t][key]}" for t in types if t in self.types and key in self.types[t])

    def configured(self, types: Iterable[str]) -> FrozenSet[str]:
        return frozenset(t for t in types if t in self.types)


# -- the lexer table as a function ----------------------------------------------------------------


class _Matcher:
    def __init__(self, rec: dict, rx_mod):
        self.rec = rec
        self.name: str = rec["name"]
        self.kind: str = rec["kind"]
        self.template: str = rec["template"]
        self.rx = None
        if self.kind == "RegexLexer":
            try:
                self.rx = rx_mod.compile(self.template, rx_mod.DOTALL)
            except Exception as e:  # a pattern the lexer itself could not compile: C29's business
                raise AnalysisError(f"lexer pattern of matcher {self.name!r} does not compile: {e}")
        elif self.kind != "StringLexer":
            raise AnalysisError(f"lexer matcher {self.name!r} has unknown class {self.kind!r}; read core/parser/lexer.py again")

    def take(self, s: str) -> Optional[str]:
        if self.rx is None:
            return self.template if s.startswith(self.template) else None
        m = self.rx.match(s)
        if m and m.group(0):
            return m.group(0)
        return None


class LexTable:
    """``PyLexer.lex_match`` over a dialect's matcher table (top-level token boundaries only:
    sub-dividers split comment/whitespace matches, which never are one of the two tokens)."""

    def __init__(self, lexer_records: Sequence[dict]):
        try:
            import regex as rx_mod  # the module RegexLexer compiles with
        except ImportError:  # pragma: no cover
            raise AnalysisError("the 'regex' module is not importable; run under /venv/bin/python")
        self.matchers = [_Matcher(r, rx_mod) for r in lexer_records]
        self.evaluations = 0

    def lex(self, s: str) -> List[Tuple[str, str]]:
        """[(text, matcher name)]; text no matcher takes is one ``<unlexable>`` element."""
        out: List[Tuple[str, str]] = []
        while s:
            self.evaluations += 1
            for m in self.matchers:
                t = m.take(s)
                if t:
                    out.append((t, m.name))
                    s = s[len(t):]
                    break
            else:
                out.append((s, "<unlexable>"))
                break
        return out


# -- leaves ---------------------------------------------------------------------------------------


def _case_invariant(text: str) -> bool:
    return text.upper() == text.lower()


class Leaf:
    """Abstract leaf token: all parser nodes with the same text set and the same own layout."""

    __slots__ = ("idx", "label", "texts", "types", "own_before", "own_after", "nodes", "origin", "desc")

    def __init__(self, idx, label, texts, types, own_before, own_after, origin, desc):
        self.idx: int = idx
        self.label: str = label
        self.texts: Optional[Tuple[str, ...]] = texts  # None: variable text
        self.types: FrozenSet[str] = types  # configured class types only
        self.own_before: FrozenSet[str] = own_before
        self.own_after: FrozenSet[str] = own_after
        self.nodes: List[int] = []
        self.origin: str = origin  # "parser" | "lexer"
        self.desc: str = desc

    def show(self) -> str:
        t = "|".join(self.texts) if self.texts is not None else self.desc
        return f"{t}[{','.join(sorted(self.types)) or '-'}]"


class Adjacency:
    """Touch pairs of one dialect (see the module docstring for the model)."""

    def __init__(self, d: DialectGraph, g: Grammar, kinds: Kinds, cfg: LayoutConfig, finite_texts):
        """``finite_texts(lexer record) -> tuple of texts | None`` (finite language of the matcher)."""
        self.d = d
        self.g = g
        self.cfg = cfg
        self.nodes = d.nodes
        n = len(self.nodes)
        self.role = [kinds.role(x) for x in self.nodes]
        _ft_memo: Dict[tuple, Optional[Tuple[str, ...]]] = {}

        def _ft(rec: dict):
            k = (rec["name"], rec["kind"], rec["template"])
            if k not in _ft_memo:
                _ft_memo[k] = finite_texts(rec)
            return _ft_memo[k]

        self._finite_texts = _ft
        # class types of raw classes (library segment classes without grammar)
        self.class_types: Dict[str, FrozenSet[str]] = {}
        for x in self.nodes:
            if x["kind"] in ("segment", "meta") and x.get("class_types"):
                self.class_types.setdefault(x["name"], frozenset(x["class_types"]))
        self.leaves: List[Leaf] = []
        self._leaf_key: Dict[tuple, int] = {}
        self.leaf_of_node: Dict[int, List[int]] = {}
        self.unknown_raw_classes: Set[str] = set()
        self._lexer_leaves: List[int] = []
        self._build_lexer_leaves()
        # nodes whose tokens can end up in a tree: reachable from the root through matchers that
        # consume (terminators / exclude only look ahead)
        self._succ = [self._children(i) for i in range(n)]
        self.reachable: Set[int] = set()
        stack = [d.root] if d.root is not None else []
        while stack:
            i = stack.pop()
            if i in self.reachable:
                continue
            self.reachable.add(i)
            stack.extend(self._succ[i])
        for i in sorted(self.reachable):
            if self.role[i] == "parser":
                self.leaf_of_node[i] = self._parser_leaves(self.nodes[i])
        self.wild_mask = 0
        for li in self._lexer_leaves:
            self.wild_mask |= 1 << li
        self.n_wild_nodes = 0
        # ---- skippable / EPS ------------------------------------------------------------------
        self.eps = [False] * n
        self._compute_eps()
        # ---- FIRST / LAST as (T, O, A) bit masks over leaves -----------------------------------
        self.own_fixed_before = 0
        self.own_fixed_after = 0
        for lf in self.leaves:
            if lf.own_before:
                self.own_fixed_before |= 1 << lf.idx
            if lf.own_after:
                self.own_fixed_after |= 1 << lf.idx
        self.first = self._fixpoint(front=True)
        self.last = self._fixpoint(front=False)
        # ---- junctions -> touch matrix ---------------------------------------------------------
        self.touch: Dict[int, int] = {}  # leaf idx -> bit mask of leaves that may follow touching
        self.why: Dict[Tuple[int, int], Tuple[int, int, int, str]] = {}
        # junctions that ask two keyword-like (template with letters) leaves to touch: the
        # collapsed "<word>" leaves are made concrete per junction (``edge_words``)
        self.word_mask = 0
        for lf in self.leaves:
            if lf.origin == "parser" and lf.desc == "<word>":
                self.word_mask |= 1 << lf.idx
        self.word_junctions: List[Tuple[int, int, int, str, str, str]] = []
        self._wj_seen: Set[Tuple[int, int, str, str]] = set()
        self.n_junctions = 0
        self.n_gapless = 0
        self._walk_junctions()

    # -- leaves ---------------------------------------------------------------------------------
    def _intern(self, texts, types: FrozenSet[str], origin: str, desc: str) -> int:
        conf = self.cfg.configured(types)
        ob = self.cfg.classes(conf, "spacing_before")
        oa = self.cfg.classes(conf, "spacing_after")
        key = (texts if texts is not None else ("<var>", desc), conf, origin)
        i = self._leaf_key.get(key)
        if i is None:
            i = len(self.leaves)
            self._leaf_key[key] = i
            self.leaves.append(Leaf(i, desc, texts, conf, ob, oa, origin, desc))
        return i

    def _raw_class_types(self, name: Optional[str], fallback: Optional[str]) -> FrozenSet[str]:
        if name and name in self.class_types:
            return self.class_types[name]
        if name:
            self.unknown_raw_classes.add(name)
        return frozenset(t for t in (fallback,) if t)

    def _matcher_types(self, rec: dict) -> FrozenSet[str]:
        """Class types of the token a lexer matcher constructs (``StringLexer.construct_segment``)."""
        ct = set(self._raw_class_types(rec.get("segment_class"), rec.get("segment_type")))
        kw = rec.get("segment_kwargs") or {}
        if kw.get("type"):
            ct.add(kw["type"])
        elif kw.get("instance_types"):
            ct.update(kw["instance_types"])
        elif rec["name"] not in ct:
            ct.add(rec["name"])
        return frozenset(ct)

    def _build_lexer_leaves(self) -> None:
        self.matcher_types: Dict[str, FrozenSet[str]] = {}
        for rec in self.d.lexer:
            ct = self._matcher_types(rec)
            # (a few tables have two matchers of one name: their types are united)
            self.matcher_types[rec["name"]] = self.matcher_types.get(rec["name"], frozenset()) | ct
            if ct & NON_CODE_TYPES:
                continue
            texts = self._finite_texts(rec)
            li = self._intern(tuple(sorted(texts)) if texts is not None else None, ct, "lexer", f"<lexer:{rec['name']}>")
            if li not in self._lexer_leaves:
                self._lexer_leaves.append(li)

    def _parser_leaves(self, n: dict) -> List[int]:
        k = n["kind"]
        is_ = self.g.kind_is
        types = set(self._raw_class_types(n.get("raw_class"), n.get("raw_class_type")))
        types.update(n.get("instance_types") or ())
        ft = frozenset(types)
        out: List[int] = []
        if is_(k, "MultiStringParser") or is_(k, "StringParser"):
            tmpls = [str(t) for t in (n.get("templates") or ())] if is_(k, "MultiStringParser") else [str(n.get("template"))]
            fixed = tuple(sorted(t for t in tmpls if _case_invariant(t)))
            if fixed:
                for t in fixed:
                    out.append(self._intern((t,), ft, "parser", t))
            if len(fixed) != len(tmpls):
                out.append(self._intern(None, ft, "parser", "<word>"))
        elif is_(k, "TypedParser"):
            want = n.get("template")
            texts: Optional[Set[str]] = set()
            hit = False
            for rec in self.d.lexer:
                if want in self.matcher_types[rec["name"]]:
                    hit = True
                    ts = self._finite_texts(rec)
                    if ts is None:
                        texts = None
                        break
                    texts.update(ts)
            if not hit:
                texts = None  # typed after the lexer (e.g. by another parser): text unknown
            if texts is not None and all(_case_invariant(t) for t in texts):
                for t in sorted(texts):
                    out.append(self._intern((t,), ft, "parser", t))
            else:
                out.append(self._intern(None, ft, "parser", f"<{want}>"))
        else:
            tm = n.get("template")
            out.append(self._intern(None, ft, "parser", f"<{k}:{tm}>" if isinstance(tm, str) else f"<{k}>"))
        for li in out:
            self.leaves[li].nodes.append(n["id"])
        return out

    # -- EPS ------------------------------------------------------------------------------------
    def _children(self, i: int) -> Tuple[int, ...]:
        """Sub-matchers whose tokens become part of what node ``i`` matches."""
        n = self.nodes[i]
        r = self.role[i]
        if r == "ref":
            t = self.d.library.get(n.get("ref"))
            return (t,) if t is not None else ()
        if r == "segment":
            mg = n.get("match_grammar")
            return (mg,) if mg is not None and not n.get("own_match") else ()
        if r in ("sequence", "anynumberof"):
            return tuple(n.get("elements") or ())
        if r == "delimited":
            out = tuple(n.get("elements") or ())
            return out + ((n["delimiter"],) if n.get("delimiter") is not None else ())
        if r == "bracketed":
            out = tuple(n.get("elements") or ())
            s, e = self.brackets(i)
            return out + tuple(x for x in (s, e) if x is not None)
        return ()

    def brackets(self, i: int) -> Tuple[Optional[int], Optional[int]]:
        n = self.nodes[i]
        ent = self.d.bracket_entry(i)
        s = n.get("start_bracket")
        e = n.get("end_bracket")
        if s is None and ent is not None:
            s = self.d.library.get(ent[1])
        if e is None and ent is not None:
            e = self.d.library.get(ent[2])
        return s, e

    def skippable(self, e: int) -> bool:
        return self.role[e] in ("meta", "conditional") or self.eps[e] or bool(field(self.nodes[e], "is_optional"))

    def _compute_eps(self) -> None:
        n = len(self.nodes)
        succ = self._succ
        for comp in sccs(n, lambda i: succ[i]):
            cyclic = len(comp) > 1 or comp[0] in succ[comp[0]]
            while True:
                changed = False
                for i in comp:
                    v = self._eps_of(i)
                    if v and not self.eps[i]:
                        self.eps[i] = True
                        changed = True
                if not cyclic or not changed:
                    break

    def _eps_of(self, i: int) -> bool:
        r = self.role[i]
        n = self.nodes[i]
        if r in ("meta", "conditional"):
            return True
        if r in ("ref", "segment"):
            return any(self.eps[c] for c in self._succ[i])
        if r == "sequence":
            els = n.get("elements") or ()
            return bool(els) and all(self.skippable(e) for e in els)
        return False

    # -- FIRST / LAST ---------------------------------------------------------------------------
    def _edge_elements(self, i: int, front: bool) -> List[int]:
        """Children that can provide the first (last) code leaf of node ``i``."""
        n = self.nodes[i]
        r = self.role[i]
        if r in ("ref", "segment"):
            return list(self._succ[i])
        if r == "bracketed":
            s, e = self.brackets(i)
            x = s if front else e
            return [x] if x is not None else []
        if r == "sequence":
            els = list(n.get("elements") or ())
            if not front:
                els.reverse()
            out = []
            for e in els:
                if self.role[e] in ("meta", "conditional"):
                    continue
                out.append(e)
                if not self.skippable(e):
                    break
            return out
        if r == "anynumberof":
            return list(n.get("elements") or ())
        if r == "delimited":
            out = list(n.get("elements") or ())
            if not front and field(n, "allow_trailing") and n.get("delimiter") is not None:
                out.append(n["delimiter"])
            return out
        return []

    def is_wild(self, i: int) -> bool:
        r = self.role[i]
        n = self.nodes[i]
        if r in ("anything", "other", "unknown-grammar"):
            return True
        if r == "segment" and (n.get("own_match") or n.get("match_grammar") is None):
            return True
        if r == "bracketed" and None in self.brackets(i):
            return True
        return False

    def segment_types(self, i: int) -> FrozenSet[str]:
        n = self.nodes[i]
        if self.role[i] == "bracketed":
            return self.class_types.get("BracketedSegment", frozenset(("bracketed",)))
        return frozenset(n.get("class_types") or ((n.get("type"),) if n.get("type") else ()))

    def _fixpoint(self, front: bool) -> List[Tuple[int, int, int]]:
        n = len(self.nodes)
        key = "spacing_before" if front else "spacing_after"
        own_fixed = self.own_fixed_before if front else self.own_fixed_after
        edges = [tuple(self._edge_elements(i, front)) if i in self.reachable else () for i in range(n)]
        val: List[Tuple[int, int, int]] = [(0, 0, 0)] * n
        # per node: classes a parent segment (or bracketed wrapper) imposes on its edge leaf
        imposed: List[FrozenSet[str]] = [frozenset()] * n
        for i in range(n):
            if self.role[i] in ("segment", "bracketed"):
                imposed[i] = self.cfg.classes(self.segment_types(i), key)

        def leaf_masks(i: int) -> Tuple[int, int, int]:
            t = o = a = 0
            for li in self.leaf_of_node.get(i, ()):
                lf = self.leaves[li]
                own = lf.own_before if front else lf.own_after
                bit = 1 << li
                if not own:
                    o |= bit
                else:
                    if "T" in own:
                        t |= bit
                    if "O" in own:
                        o |= bit
                    if "A" in own:
                        a |= bit
            return t, o, a

        wild = self._wild_triplet(front)

        def transfer(i: int) -> Tuple[int, int, int]:
            r = self.role[i]
            if r == "parser":
                return leaf_masks(i)
            if self.is_wild(i):
                return wild
            t = o = a = 0
            for c in edges[i]:
                ct, co, ca = val[c]
                t |= ct
                o |= co
                a |= ca
            imp = imposed[i]
            if imp:
                # the outermost configured ancestor wins over inner ancestors; a leaf's own
                # configured type wins over every ancestor
                free = (t | o | a) & ~own_fixed
                t &= own_fixed
                o &= own_fixed
                a &= own_fixed
                # leaves with an own configuration keep their own classes
                if "T" in imp:
                    t |= free
                if "O" in imp:
                    o |= free
                if "A" in imp:
                    a |= free
            return t, o, a

        for comp in sccs(n, lambda i: edges[i]):
            cyclic = len(comp) > 1 or comp[0] in edges[comp[0]]
            while True:
                changed = False
                for i in comp:
                    v = transfer(i)
                    if v != val[i]:
                        val[i] = v
                        changed = True
                if not cyclic or not changed:
                    break
        return val

    # -- junctions ------------------------------------------------------------------------------
    def _junctions_of(self, i: int) -> Tuple[List[Tuple[int, int]], bool]:
        """([(x, y)]: element x may be directly followed by element y inside node i, gaps allowed?)"""
        n = self.nodes[i]
        r = self.role[i]
        gaps = bool(field(n, "allow_gaps"))
        out: List[Tuple[int, int]] = []
        if r in ("sequence", "bracketed"):
            els = [e for e in (n.get("elements") or ()) if self.role[e] not in ("meta", "conditional")]
            if r == "bracketed":
                s, e = self.brackets(i)
                if s is None or e is None:
                    return [], gaps
                els = [s] + els + [e]
            for a in range(len(els)):
                for b in range(a + 1, len(els)):
                    out.append((els[a], els[b]))
                    if not self.skippable(els[b]) or (r == "bracketed" and b == len(els) - 1):
                        break
        elif r == "anynumberof":
            els = list(n.get("elements") or ())
            mx = n.get("max_times")
            if mx != 1 and len(els) >= 1:
                once = n.get("max_times_per_element") == 1
                for a in els:
                    for b in els:
                        if once and a == b:
                            continue
                        out.append((a, b))
        elif r == "delimited":
            els = list(n.get("elements") or ())
            dl = n.get("delimiter")
            if dl is not None:
                for a in els:
                    out.append((a, dl))
                    out.append((dl, a))
            if dl is None or field(n, "optional_delimiter"):
                for a in els:
                    for b in els:
                        out.append((a, b))
        return out, gaps

    def _walk_junctions(self) -> None:
        """Visit every (grammar node, spacing_within classes of the enclosing segment)."""
        seen: Set[Tuple[int, FrozenSet[str]]] = set()
        work: List[Tuple[int, FrozenSet[str], int]] = []
        for i in sorted(self.reachable):
            if self.role[i] == "segment" and not self.is_wild(i):
                w = self.cfg.classes(self.segment_types(i), "spacing_within")
                for c in self._succ[i]:
                    work.append((c, w, i))
            if self.is_wild(i):
                self.n_wild_nodes += 1
        wild_done: Set[FrozenSet[str]] = set()
        while work:
            i, w, owner = work.pop()
            if (i, w) in seen:
                continue
            seen.add((i, w))
            r = self.role[i]
            if r == "segment" or r == "parser":
                continue  # a nested segment is walked with its own spacing_within
            if self.is_wild(i):
                # any lexer token may follow any lexer token inside
                if w not in wild_done:
                    wild_done.add(w)
                    self._add(self._wild_triplet(False), self._wild_triplet(True), w, i, i, owner, "wild")
                continue
            inner_w = w
            inner_owner = owner
            if r == "bracketed":
                inner_w = self.cfg.classes(self.segment_types(i), "spacing_within")
                inner_owner = i
            pairs, gaps = self._junctions_of(i)
            if pairs:
                if gaps:
                    for x, y in pairs:
                        self.n_junctions += 1
                        self._add(self.last[x], self.first[y], inner_w, x, y, inner_owner, self.nodes[i]["kind"])
                else:
                    self.n_gapless += len(pairs)
            for c in self._succ[i]:
                work.append((c, inner_w, inner_owner))

    def _wild_triplet(self, front: bool) -> Tuple[int, int, int]:
        t = o = a = 0
        for li in self._lexer_leaves:
            lf = self.leaves[li]
            own = lf.own_before if front else lf.own_after
            bit = 1 << li
            if not own or "O" in own:
                o |= bit
            if "T" in own:
                t |= bit
            if "A" in own:
                a |= bit
        return t, o, a

    def _add(self, last3, first3, w: FrozenSet[str], x: int, y: int, owner: int, how: str) -> None:
        lt, lo, la = last3
        ft, fo, fa = first3
        rows: List[Tuple[int, int, str, str]] = []
        ws = w or frozenset(("-",))
        for wc in ws:
            if wc == "A":
                continue
            if wc == "T":
                rows.append((lt | lo, ft | fo, "TO", "TO"))
            else:
                rows.append((lt, ft | fo, "T", "TO"))
                rows.append((lo, ft, "O", "T"))
        for amask, bmask, acls, bcls in rows:
            if not amask or not bmask:
                continue
            if amask & self.word_mask and bmask & self.word_mask and (x, y, acls, bcls) not in self._wj_seen:
                self._wj_seen.add((x, y, acls, bcls))
                self.word_junctions.append((x, y, owner, how + ("/within" if "T" in ws else ""), acls, bcls))
            m = amask
            while m:
                low = m & -m
                ai = low.bit_length() - 1
                m ^= low
                old = self.touch.get(ai, 0)
                new = old | bmask
                if new != old:
                    self.touch[ai] = new
                    fresh = new & ~old
                    while fresh:
                        lb = fresh & -fresh
                        bi = lb.bit_length() - 1
                        fresh ^= lb
                        self.why.setdefault((ai, bi), (x, y, owner, how + ("/within" if "T" in ws else "")))

    # -- concrete keyword texts at the edge of a node ----------------------------------------------
    def edge_words(self, i: int, front: bool, limit: int = 4000) -> Set[Tuple[str, str]]:
        """{(template, spacing class)} of the keyword-like leaves that can be the first (last)
        code leaf of node ``i``; same class rules as the fixpoint (own type, else the outermost
        configured ancestor on the way down, else O)."""
        key = "spacing_before" if front else "spacing_after"
        out: Set[Tuple[str, str]] = set()
        seen: Set[Tuple[int, FrozenSet[str]]] = set()
        stack: List[Tuple[int, FrozenSet[str]]] = [(i, frozenset())]
        is_ = self.g.kind_is
        while stack and len(out) < limit:
            j, outer = stack.pop()
            if (j, outer) in seen:
                continue
            seen.add((j, outer))
            r = self.role[j]
            if r == "parser":
                n = self.nodes[j]
                k = n["kind"]
                if is_(k, "MultiStringParser"):
                    tmpls = [str(t) for t in (n.get("templates") or ())]
                elif is_(k, "StringParser"):
                    tmpls = [str(n.get("template"))]
                else:
                    continue
                for li in self.leaf_of_node.get(j, ()):
                    lf = self.leaves[li]
                    if not (self.word_mask >> li) & 1:
                        continue
                    own = lf.own_before if front else lf.own_after
                    classes = own or outer or frozenset(("O",))
                    for t in tmpls:
                        if not _case_invariant(t):
                            for c in classes:
                                out.add((t, c))
                continue
            if self.is_wild(j):
                continue
            inner = outer
            if not outer and r in ("segment", "bracketed"):
                inner = self.cfg.classes(self.segment_types(j), key)
            for c in self._edge_elements(j, front):
                stack.append((c, inner))
        return out

    # -- queries --------------------------------------------------------------------------------
    def touch_pairs(self) -> Iterable[Tuple[Leaf, Leaf]]:
        for ai in sorted(self.touch):
            m = self.touch[ai]
            while m:
                low = m & -m
                bi = low.bit_length() - 1
                m ^= low
                yield self.leaves[ai], self.leaves[bi]

    def name_of(self, i: int) -> str:
        """Position-independent description of a node: its own name, else kind + nearest named owner."""
        if self.d.is_named(i) or self.nodes[i]["kind"] == "Ref" or "template" in self.nodes[i]:
            return self.d.display(i)
        own = [o for o in self.d.owners(i) if o != i]
        k = self.nodes[i]["kind"]
        return f"{k} of {self.d.display(own[0])}" if own else k

    def site(self, x: int, y: int, owner: int, how: str) -> str:
        return f"{how} in {self.name_of(owner)}: {self.name_of(x)} -> {self.name_of(y)}"

    def explain(self, a: Leaf, b: Leaf) -> str:
        w = self.why.get((a.idx, b.idx))
        if not w:
            return "?"
        return self.site(*w)
