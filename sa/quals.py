"""Qualifier ("kind") inference: one small abstract interpreter (DESIGN.md 2.6).

Values carry a kind from a finite flat lattice  BOT < k1, k2, ... < TOP.
Kinds come from repository facts supplied by the instantiation (which calls
produce which kind, which attribute names carry which kind), never from the
names of local variables.  Anything touching TOP is silent: the analysis never
alarms on what it cannot classify.

Abstract values:
  * a kind string (``"ABS"``, ``"SRC"``, ... / ``TOP`` / ``BOT`` / ``NEUTRAL``),
  * ``Tup([v0, v1, ...])`` – fixed-length tuple, tracked per position,
  * ``Seq(v)`` – list / iterator / generator whose elements are ``v``.

The interpreter is flow-insensitive inside a function (every local is the join
of everything assigned to it; iterated to a fixpoint) and context-sensitive
across functions of the analysed module set (a callee is re-analysed for each
distinct tuple of argument values; memoised; depth bounded).
"""

from __future__ import annotations

import ast
from typing import Callable, Dict, List, Optional, Tuple

from .index import FuncNode, norm, call_name, walk_local

TOP = "TOP"
BOT = "BOT"
NEUTRAL = "NEUTRAL"  # carries no kind and does not disturb the kind of what it is combined with


class Tup:
    def __init__(self, items):
        self.items = list(items)

    def __eq__(self, o):
        return isinstance(o, Tup) and self.items == o.items

    def __hash__(self):
        return hash(("Tup", tuple(self.items)))

    def __repr__(self):
        return "(" + ", ".join(map(repr, self.items)) + ")"


class Seq:
    def __init__(self, elem):
        self.elem = elem

    def __eq__(self, o):
        return isinstance(o, Seq) and self.elem == o.elem

    def __hash__(self):
        return hash(("Seq", self.elem))

    def __repr__(self):
        return f"[{self.elem!r}*]"


def join(a, b):
    if a == b:
        return a
    if a == BOT:
        return b
    if b == BOT:
        return a
    if isinstance(a, Tup) and isinstance(b, Tup) and len(a.items) == len(b.items):
        return Tup([join(x, y) for x, y in zip(a.items, b.items)])
    if isinstance(a, Seq) and isinstance(b, Seq):
        return Seq(join(a.elem, b.elem))
    if a == NEUTRAL and isinstance(b, str):
        return b
    if b == NEUTRAL and isinstance(a, str):
        return a
    return TOP


def combine(vals):
    """Kind of a value built from several parts (concatenation, path join …)."""
    out = NEUTRAL
    for v in vals:
        if not isinstance(v, str):
            return TOP
        if v in (NEUTRAL, BOT):
            continue
        if out == NEUTRAL:
            out = v
        elif out != v:
            return TOP
    return out


def is_known(v) -> bool:
    return isinstance(v, str) and v not in (TOP, BOT, NEUTRAL)


class Report:
    def __init__(self, node, left, right, func, what):
        self.node, self.left, self.right, self.func, self.what = node, left, right, func, what


class KindInterp:
    """Instantiate with hooks; call :meth:`analyse` on an entry function."""

    MAX_DEPTH = 6

    def __init__(self, functions: Dict[str, ast.AST], tables: Optional[Dict[str, List[str]]] = None):
        # functions: local name -> FunctionDef (the analysed module set)
        self.functions = functions
        self.tables = tables or {}  # name of module-level dict -> list of function names (table dispatch)
        self.memo: Dict[Tuple, object] = {}
        self.reports: List[Report] = []
        self.sinks_seen = 0  # comparison / sink sites evaluated with at least one known kind
        self.sites: List[Tuple[ast.AST, object, object]] = []
        self._stack: List[Tuple] = []

    # ---- hooks to override --------------------------------------------
    def call_kind(self, call: ast.Call, name: str, args: List[object], ev: Callable) -> Optional[object]:
        """Return the value of a call to a *non-analysed* function, or None for default (TOP)."""
        return None

    def attr_kind(self, node: ast.Attribute, base: object) -> Optional[object]:
        return None

    def check_compare(self, node: ast.AST, left, right, func, what: str) -> None:
        if is_known(left) or is_known(right):
            self.sinks_seen += 1
            self.sites.append((node, left, right))
        if is_known(left) and is_known(right) and left != right:
            self.reports.append(Report(node, left, right, func, what))

    def check_call_sink(self, call: ast.Call, name: str, args: List[object], func, ev=None) -> None:
        """Extra sinks (constructor fields, converters)."""

    # ---- driver ---------------------------------------------------------
    def analyse(self, fname: str, args: List[object]):
        return self._call_local(fname, args)

    def _call_local(self, fname: str, args: List[object]):
        func = self.functions[fname]
        key = (fname, tuple(args))
        if key in self.memo:
            return self.memo[key]
        if key in self._stack or len(self._stack) >= self.MAX_DEPTH:
            return TOP
        self._stack.append(key)
        self.memo[key] = BOT
        try:
            res = self._analyse_body(func, args)
        finally:
            self._stack.pop()
        self.memo[key] = res
        return res

    def _analyse_body(self, func: ast.AST, args: List[object]):
        env: Dict[str, object] = {}
        a = func.args
        params = [x.arg for x in a.posonlyargs + a.args]
        if params and params[0] in ("self", "cls") and len(args) < len(params):
            args = [TOP] + list(args)
        for i, p in enumerate(params):
            env[p] = args[i] if i < len(args) else TOP
        for x in a.kwonlyargs:
            env[x.arg] = TOP
        ret = BOT
        is_gen = False
        stmts = sorted(
            (n for n in walk_local(func)),
            key=lambda n: (getattr(n, "lineno", 0), getattr(n, "col_offset", 0)),
        )
        # locals that are assigned somewhere start at BOT (values only grow);
        # names never bound in the function (globals, builtins) are TOP.
        assigned = set()
        for n in stmts:
            if isinstance(n, ast.Name) and isinstance(n.ctx, (ast.Store, ast.Del)):
                assigned.add(n.id)
        env["__assigned__"] = assigned  # type: ignore[assignment]
        # fixpoint over the flow-insensitive environment (reports only in last pass)
        for it in range(8):
            before = dict(env)
            self._quiet = True
            ret, is_gen = self._pass(func, stmts, env)
            if env == before:
                break
        self._quiet = False
        ret, is_gen = self._pass(func, stmts, env)
        return Seq(ret) if is_gen else ret

    def _pass(self, func, nodes, env):
        ret = BOT
        is_gen = False

        def ev(e):
            return self._eval(e, env, func)

        def bind(target, val):
            if isinstance(target, ast.Name):
                env[target.id] = join(env.get(target.id, BOT), val)
            elif isinstance(target, (ast.Tuple, ast.List)):
                for i, t in enumerate(target.elts):
                    if isinstance(val, Tup) and i < len(val.items) and not isinstance(t, ast.Starred):
                        bind(t, val.items[i])
                    elif val == BOT:
                        bind(t.value if isinstance(t, ast.Starred) else t, BOT)
                    else:
                        bind(t.value if isinstance(t, ast.Starred) else t, TOP)
            # attribute / subscript stores are not tracked

        for n in nodes:
            if isinstance(n, ast.Assign):
                v = ev(n.value)
                for t in n.targets:
                    bind(t, v)
            elif isinstance(n, ast.AnnAssign) and n.value is not None:
                bind(n.target, ev(n.value))
            elif isinstance(n, ast.AugAssign):
                bind(n.target, combine([ev(n.target), ev(n.value)]) if isinstance(n.op, ast.Add) else TOP)
            elif isinstance(n, (ast.For, ast.comprehension)):
                it = ev(n.iter)
                bind(n.target, it.elem if isinstance(it, Seq) else (BOT if it == BOT else TOP))
            elif isinstance(n, ast.Return) and n.value is not None:
                ret = join(ret, ev(n.value))
            elif isinstance(n, (ast.Yield,)):
                is_gen = True
                if n.value is not None:
                    ret = join(ret, ev(n.value))
            elif isinstance(n, ast.YieldFrom):
                is_gen = True
                v = ev(n.value)
                ret = join(ret, v.elem if isinstance(v, Seq) else TOP)
            elif isinstance(n, ast.Expr):
                ev(n.value)
            elif isinstance(n, (ast.If, ast.While)):
                ev(n.test)
            elif isinstance(n, ast.Assert):
                ev(n.test)
            elif isinstance(n, ast.NamedExpr):
                bind(n.target, ev(n.value))
            elif isinstance(n, ast.withitem):
                if n.optional_vars is not None:
                    bind(n.optional_vars, TOP)
        return ret, is_gen

    # ---- expression evaluation -----------------------------------------
    def _eval(self, e: ast.AST, env, func):
        if isinstance(e, ast.Constant):
            return NEUTRAL
        if isinstance(e, ast.JoinedStr):
            return combine([self._eval(v.value, env, func) for v in e.values if isinstance(v, ast.FormattedValue)])
        if isinstance(e, ast.Name):
            if e.id in env:
                return env[e.id]
            return BOT if e.id in env.get("__assigned__", ()) else TOP
        if isinstance(e, ast.Tuple):
            return Tup([self._eval(x, env, func) for x in e.elts])
        if isinstance(e, (ast.List, ast.Set)):
            v = BOT
            for x in e.elts:
                v = join(v, self._eval(x, env, func))
            return Seq(v)
        if isinstance(e, (ast.ListComp, ast.GeneratorExp, ast.SetComp)):
            return Seq(self._eval(e.elt, env, func))
        if isinstance(e, ast.IfExp):
            self._eval(e.test, env, func)
            return join(self._eval(e.body, env, func), self._eval(e.orelse, env, func))
        if isinstance(e, ast.BoolOp):
            v = BOT
            for x in e.values:
                v = join(v, self._eval(x, env, func))
            return v
        if isinstance(e, ast.UnaryOp):
            v = self._eval(e.operand, env, func)
            return NEUTRAL if isinstance(e.op, ast.Not) else v
        if isinstance(e, ast.BinOp):
            l, r = self._eval(e.left, env, func), self._eval(e.right, env, func)
            return self.binop(e, l, r, func)
        if isinstance(e, ast.Compare):
            vals = [self._eval(e.left, env, func)] + [self._eval(c, env, func) for c in e.comparators]
            if not getattr(self, "_quiet", False):
                for i, op in enumerate(e.ops):
                    l, r = vals[i], vals[i + 1]
                    if isinstance(op, (ast.In, ast.NotIn)) and isinstance(r, Seq):
                        r = r.elem
                    self.check_compare(e, l, r, func, type(op).__name__)
            return NEUTRAL
        if isinstance(e, ast.Subscript):
            base = self._eval(e.value, env, func)
            if isinstance(e.slice, ast.Slice):
                for part in (e.slice.lower, e.slice.upper, e.slice.step):
                    if part is not None:
                        self._eval(part, env, func)
                return self.slice_of(e, base, env, func)
            idx = e.slice
            self._eval(idx, env, func)
            if isinstance(base, Tup) and isinstance(idx, ast.Constant) and isinstance(idx.value, int):
                if -len(base.items) <= idx.value < len(base.items):
                    return base.items[idx.value]
            if isinstance(base, Seq):
                return base.elem
            return self.index_of(e, base, env, func)
        if isinstance(e, ast.Attribute):
            base = self._eval(e.value, env, func)
            v = self.attr_kind(e, base)
            return TOP if v is None else v
        if isinstance(e, ast.Call):
            return self._eval_call(e, env, func)
        if isinstance(e, ast.Starred):
            return self._eval(e.value, env, func)
        if isinstance(e, ast.NamedExpr):
            v = self._eval(e.value, env, func)
            env[e.target.id] = join(env.get(e.target.id, BOT), v)
            return v
        if isinstance(e, ast.Lambda):
            return TOP
        for c in ast.iter_child_nodes(e):
            if isinstance(c, ast.expr):
                self._eval(c, env, func)
        return TOP

    def binop(self, e, l, r, func):
        if isinstance(e.op, ast.Add):
            return combine([l, r])
        return TOP

    def slice_of(self, e, base, env, func):
        if isinstance(base, Seq):
            return base
        return base if isinstance(base, str) else TOP

    def index_of(self, e, base, env, func):
        return TOP

    def _eval_call(self, e: ast.Call, env, func):
        name = call_name(e)
        args = [self._eval(a, env, func) for a in e.args]
        kws = {k.arg: self._eval(k.value, env, func) for k in e.keywords}
        quiet = getattr(self, "_quiet", False)
        # method calls on tracked sequences
        if isinstance(e.func, ast.Attribute):
            recv = self._eval(e.func.value, env, func)
            m = e.func.attr
            if m in ("append", "add") and isinstance(e.func.value, ast.Name) and args:
                cur = env.get(e.func.value.id, BOT)
                cur = cur if isinstance(cur, Seq) else Seq(BOT)
                env[e.func.value.id] = Seq(join(cur.elem, args[0]))
                return NEUTRAL
            if m in ("extend",) and isinstance(e.func.value, ast.Name) and args and isinstance(args[0], Seq):
                cur = env.get(e.func.value.id, BOT)
                cur = cur if isinstance(cur, Seq) else Seq(BOT)
                env[e.func.value.id] = Seq(join(cur.elem, args[0].elem))
                return NEUTRAL
            if m in ("startswith", "endswith") and args:
                a0 = args[0]
                if not quiet:
                    self.check_compare(e, recv, a0, func, m)
                return NEUTRAL
            if m in ("remove", "index", "count") and isinstance(recv, Seq) and args:
                if not quiet:
                    self.check_compare(e, recv.elem, args[0], func, m)
                return NEUTRAL
        # table dispatch: TABLE[k](...)
        if isinstance(e.func, ast.Subscript) and isinstance(e.func.value, ast.Name) and e.func.value.id in self.tables:
            v = BOT
            for fn in self.tables[e.func.value.id]:
                if fn in self.functions:
                    v = join(v, self._call_local(fn, args))
                else:
                    v = TOP
            return v
        local = name if name in self.functions else (name.split(".", 1)[1] if name.startswith("self.") and name.split(".", 1)[1] in self.functions else None)
        if local is not None:
            fdef = self.functions[local]
            full = self._bind_args(fdef, args, kws)
            res = self._call_local(local, full)
            if not quiet:
                self.check_call_sink(e, name, args, func, (lambda x: self._eval(x, env, func)))
            return res
        if not quiet:
            self.check_call_sink(e, name, args, func, (lambda x: self._eval(x, env, func)))
        v = self.call_kind(e, name, args, lambda x: self._eval(x, env, func))
        if v is not None:
            return v
        if name in ("sorted", "list", "tuple", "set", "frozenset", "reversed", "iter") and args:
            return args[0] if isinstance(args[0], Seq) else TOP
        if name in ("str",) and args:
            return args[0] if isinstance(args[0], str) else TOP
        if name in ("len", "bool", "isinstance", "any", "all"):
            return NEUTRAL
        return TOP

    def _bind_args(self, fdef, args, kws):
        a = fdef.args
        params = [x.arg for x in a.posonlyargs + a.args]
        skip = 1 if params and params[0] in ("self", "cls") else 0
        names = params[skip:]
        full = list(args) + [None] * max(0, len(names) - len(args))
        for i, n in enumerate(names):
            if i >= len(args):
                full[i] = kws.get(n, TOP if True else None)
        # defaults: constants are NEUTRAL, anything else TOP
        ndef = len(a.defaults)
        for i, n in enumerate(names):
            if i >= len(args) and n not in kws:
                di = (i + skip) - (len(params) - ndef)
                if 0 <= di < ndef and isinstance(a.defaults[di], ast.Constant):
                    full[i] = NEUTRAL
                else:
                    full[i] = TOP
        return full[: len(names)]
