"""Structural def-use helpers for "what is this key made of" questions (used by C06).

Everything sits on ``sa.cfg`` (reaching definitions).  Two notions:

``flatten``  the *components* of a tuple-like key expression: local names are expanded through
             their reaching definitions, tuple/list displays and ``+`` concatenations are
             flattened, ``hash(x)`` / ``tuple(x)`` are looked through, and a call to a plain
             function of the same module whose ``return`` values are such expressions is
             inlined (its parameters stay bound to the caller's arguments).  A component is
             a whole element of the key, so "the key contains X" means "X is one of the
             values compared when two keys are compared" - unlike a derivation cone, a
             component cannot silently lose information (``max_idx % 2`` is not ``max_idx``).
``canon``    a canonical description of where a plain value comes from (parameter of which
             function, loop variable of which ``for``, which expression node); two expressions
             denote the same value when their canonical descriptions are equal.

Several reaching definitions (branches) give several *alternatives*; a fact about a key has
to hold in every alternative.
"""

from __future__ import annotations

import ast
from typing import Dict, FrozenSet, List, Optional, Tuple

from .cfg import CFG, cfg_of, origins
from .flow import bind_args, is_method_bound
from .index import FuncNode, Repo, call_name, module_of, walk_local

MAX_ALTERNATIVES = 24


class Frame:
    """One activation: a function, its CFG and how its parameters are bound by the caller."""

    __slots__ = ("func", "cfg", "bind", "parent", "at")

    def __init__(self, func: ast.AST, bind: Optional[Dict[str, ast.AST]] = None, parent: Optional["Frame"] = None, at=None):
        self.func = func
        self.cfg: CFG = cfg_of(func)
        self.bind = bind or {}
        self.parent = parent
        self.at = at  # statement of the call in the parent frame

    def depth(self) -> int:
        return 0 if self.parent is None else 1 + self.parent.depth()


class Leaf:
    __slots__ = ("expr", "frame", "at", "path")

    def __init__(self, expr, frame: Frame, at, path=()):
        self.expr = expr  # ast.expr, or ast.arg for an unbound parameter
        self.frame = frame
        self.at = at
        self.path = tuple(path)  # remaining tuple path that could not be descended

    def __repr__(self):
        try:
            t = ast.unparse(self.expr)
        except Exception:
            t = str(self.expr)
        return f"Leaf({t}{''.join(f'[{p}]' for p in self.path)})"


def expand(expr: ast.AST, frame: Frame, at=None, path=(), _seen=None) -> List[Leaf]:
    """Expand a plain name through reaching definitions (and parameter bindings) down to
    expressions that are not plain names.  Anything else is returned as it is."""
    _seen = _seen if _seen is not None else set()
    if not isinstance(expr, ast.Name):
        return [Leaf(expr, frame, at, path)]
    if at is None:
        at = frame.cfg.stmt_of(expr)
    out: List[Leaf] = []
    for o in origins(frame.cfg, expr, at, None, tuple(path)):
        key = (id(o.expr), o.path, id(frame))
        if key in _seen:
            continue
        _seen.add(key)
        if o.kind == "param":
            name = o.expr.arg
            if name in frame.bind and frame.parent is not None:
                out += expand(frame.bind[name], frame.parent, frame.at, o.path, _seen)
            else:
                out.append(Leaf(o.expr, frame, None, o.path))
        elif o.kind == "expr":
            out += expand(o.expr, frame, o.stmt, o.path, _seen) if isinstance(o.expr, ast.Name) else [Leaf(o.expr, frame, o.stmt, o.path)]
        else:
            # for / with / except / aug / unknown: opaque, described by the defining statement
            out.append(Leaf(_Opaque(o.kind, o.stmt, o.expr), frame, o.stmt, o.path))
    return out


class _Opaque(ast.AST):
    """Stand-in for a value bound by a ``for``/``with``/... statement."""

    _fields = ()

    def __init__(self, kind, stmt, expr):
        super().__init__()
        self.kind = kind
        self.stmt = stmt
        self.value_expr = expr


def canon(expr: ast.AST, frame: Frame, at=None) -> FrozenSet[tuple]:
    """Canonical origin description of a plain value (see module docstring)."""
    out = set()
    for lf in expand(expr, frame, at):
        e = lf.expr
        if isinstance(e, ast.arg):
            out.add(("param", id(lf.frame.func), e.arg, lf.path))
        elif isinstance(e, _Opaque):
            out.add((e.kind, id(e.stmt), lf.path))
        else:
            out.add(("expr", id(e), lf.path))
    return frozenset(out)


def same_value(a: Tuple[ast.AST, Frame, object], b: Tuple[ast.AST, Frame, object]) -> bool:
    ca, cb = canon(*a), canon(*b)
    return bool(ca) and ca == cb


def _local_callee(repo: Repo, call: ast.Call) -> Optional[ast.AST]:
    """A plain-name call that resolves to a function of the analysed tree."""
    if not isinstance(call.func, ast.Name):
        return None
    m = module_of(call)
    r = repo.resolve_name(m, call.func.id)
    if r and isinstance(r[1], FuncNode):
        return r[1]
    return None


def flatten(repo: Repo, expr: ast.AST, frame: Frame, at=None, _depth: int = 0) -> List[List[Leaf]]:
    """Alternatives of component lists of a tuple-like key expression."""
    if at is None and not isinstance(expr, ast.arg):
        at = frame.cfg.stmt_of(expr)

    def product(parts: List[List[List[Leaf]]]) -> List[List[Leaf]]:
        acc: List[List[Leaf]] = [[]]
        for alts in parts:
            nxt = []
            for a in acc:
                for b in alts:
                    nxt.append(a + b)
                    if len(nxt) >= MAX_ALTERNATIVES:
                        break
                if len(nxt) >= MAX_ALTERNATIVES:
                    break
            acc = nxt or acc
        return acc

    if isinstance(expr, ast.Name):
        alts: List[List[Leaf]] = []
        for lf in expand(expr, frame, at):
            if isinstance(lf.expr, (ast.arg, _Opaque)) or lf.path or isinstance(lf.expr, ast.Name):
                alts.append([lf])
            else:
                alts += flatten(repo, lf.expr, lf.frame, lf.at, _depth)
        return alts[:MAX_ALTERNATIVES] or [[]]
    if isinstance(expr, (ast.Tuple, ast.List)):
        return product([flatten(repo, e, frame, at, _depth) for e in expr.elts])
    if isinstance(expr, ast.BinOp) and isinstance(expr.op, ast.Add):
        return product([flatten(repo, expr.left, frame, at, _depth), flatten(repo, expr.right, frame, at, _depth)])
    if isinstance(expr, ast.Call):
        name = call_name(expr)
        if name in ("hash", "tuple") and len(expr.args) == 1 and not expr.keywords:
            return flatten(repo, expr.args[0], frame, at, _depth)
        callee = _local_callee(repo, expr) if _depth < 2 else None
        if callee is not None:
            rets = [r for r in walk_local(callee) if isinstance(r, ast.Return) and r.value is not None]
            if rets and all(isinstance(r.value, (ast.Tuple, ast.Name, ast.BinOp)) for r in rets):
                sub = Frame(callee, bind_args(expr, callee, bound=is_method_bound(expr, callee)), frame, at)
                alts = []
                for r in rets:
                    alts += flatten(repo, r.value, sub, r, _depth + 1)
                return alts[:MAX_ALTERNATIVES] or [[]]
    return [[Leaf(expr, frame, at)]]
