"""Regex syntax-tree helpers for the lexer checks (DESIGN.md 2.8, R01a).

``analyse(pattern, flags)`` parses a pattern with the stdlib parser (``re._parser``) and
computes, over exact code-point interval sets:

* ``nullable``   – the pattern can match the empty string;
* ``first``      – OVER-approximation of the characters a non-empty match can start with;
* ``single``     – UNDER-approximation of ``{c : the one-character string c is in the
                   language}`` (no look-around / anchor / back-reference / atomic construct is
                   involved in accepting it);
* ``consumes``   – UNDER-approximation of ``{c : on EVERY input that starts with c the
                   engine's match at position 0 is non-empty}``.  For a non-nullable pattern
                   this is ``single`` (a match exists because the prefix ``c`` is in the
                   language, and no match is empty).  For a nullable pattern only the shape
                   ``X*`` / ``X+`` / ``X{0,n}`` (greedy, X not nullable) is understood:
                   ``single(X)``; a lazy repeat prefers the empty match: nothing.
* ``exact``      – False when a construct was met that makes ``single``/``consumes``
                   deliberately smaller than the truth (so "not covered" is not a proof).

Patterns the stdlib parser rejects (``regex``-module-only syntax) give ``status ==
"unknown"``: they contribute nothing and must never alarm by themselves.
"""

from __future__ import annotations

import re
from typing import Dict, Iterable, List, Optional, Tuple

try:  # Python >= 3.11
    from re import _constants as C
    from re import _parser as P
except ImportError:  # pragma: no cover
    import sre_constants as C  # type: ignore
    import sre_parse as P  # type: ignore

MAXCP = 0x10FFFF


class CharSet:
    """Immutable set of code points as sorted disjoint inclusive intervals."""

    __slots__ = ("iv",)

    def __init__(self, intervals: Iterable[Tuple[int, int]] = ()):
        iv = sorted((lo, hi) for lo, hi in intervals if lo <= hi)
        out: List[Tuple[int, int]] = []
        for lo, hi in iv:
            if out and lo <= out[-1][1] + 1:
                if hi > out[-1][1]:
                    out[-1] = (out[-1][0], hi)
            else:
                out.append((lo, hi))
        self.iv = tuple(out)

    @classmethod
    def of(cls, *chars: str) -> "CharSet":
        return cls((ord(c), ord(c)) for c in chars)

    @classmethod
    def all(cls) -> "CharSet":
        return cls([(0, MAXCP)])

    def __contains__(self, c) -> bool:
        cp = ord(c) if isinstance(c, str) else c
        lo, hi = 0, len(self.iv)
        while lo < hi:
            mid = (lo + hi) // 2
            a, b = self.iv[mid]
            if cp < a:
                hi = mid
            elif cp > b:
                lo = mid + 1
            else:
                return True
        return False

    def __or__(self, other: "CharSet") -> "CharSet":
        return CharSet(self.iv + other.iv)

    def complement(self) -> "CharSet":
        out = []
        prev = 0
        for lo, hi in self.iv:
            if lo > prev:
                out.append((prev, lo - 1))
            prev = hi + 1
        if prev <= MAXCP:
            out.append((prev, MAXCP))
        return CharSet(out)

    def __and__(self, other: "CharSet") -> "CharSet":
        return (self.complement() | other.complement()).complement()

    def __sub__(self, other: "CharSet") -> "CharSet":
        return self & other.complement()

    def __bool__(self) -> bool:
        return bool(self.iv)

    def __eq__(self, other) -> bool:
        return isinstance(other, CharSet) and self.iv == other.iv

    def __hash__(self) -> int:
        return hash(self.iv)

    def __len__(self) -> int:
        return sum(hi - lo + 1 for lo, hi in self.iv)

    def sample(self, n: int = 8) -> List[str]:
        out = []
        for lo, hi in self.iv:
            for cp in range(lo, hi + 1):
                out.append(chr(cp))
                if len(out) >= n:
                    return out
        return out

    def chars(self, limit: int = 100000) -> List[str]:
        if len(self) > limit:
            raise ValueError("set too large to enumerate")
        return [chr(cp) for lo, hi in self.iv for cp in range(lo, hi + 1)]

    def describe(self, n: int = 6) -> str:
        size = len(self)
        if size == 0:
            return "{}"
        names = ", ".join(char_name(c) for c in self.sample(n))
        return "{" + names + (", ... %d code points" % size if size > n else "") + "}"


_NAMES = {"\t": "TAB", "\n": "LF", "\r": "CR", " ": "SPACE", "\x0b": "VT", "\x0c": "FF", "\xa0": "NBSP"}


def char_name(c: str) -> str:
    if c in _NAMES:
        return _NAMES[c]
    if c.isprintable() and not c.isspace():
        return repr(c)
    return "U+%04X" % ord(c)


EMPTY = CharSet()
ALL = CharSet.all()

_CAT_CACHE: Dict[object, CharSet] = {}


_ALL_CHARS: Optional[str] = None


def _from_regex_class(cls_text: str) -> CharSet:
    """Code points matched by a stdlib character class, asked of the engine itself:
    the string of all code points is scanned once, index == code point."""
    global _ALL_CHARS
    if _ALL_CHARS is None:
        _ALL_CHARS = "".join(map(chr, range(MAXCP + 1)))
    return CharSet((m.start(), m.end() - 1) for m in re.finditer(cls_text + "+", _ALL_CHARS))


def category(cat) -> Optional[CharSet]:
    """Code points of an sre CATEGORY for ``str`` patterns (None when not modelled)."""
    if cat in _CAT_CACHE:
        return _CAT_CACHE[cat]
    base = {
        C.CATEGORY_DIGIT: ("digit", False), C.CATEGORY_NOT_DIGIT: ("digit", True),
        C.CATEGORY_SPACE: ("space", False), C.CATEGORY_NOT_SPACE: ("space", True),
        C.CATEGORY_WORD: ("word", False), C.CATEGORY_NOT_WORD: ("word", True),
    }.get(cat)
    if base is None:
        return None
    name, neg = base
    if name not in _CAT_CACHE:
        _CAT_CACHE[name] = _from_regex_class({"digit": r"\d", "space": r"\s", "word": r"\w"}[name])
    cs = _CAT_CACHE[name]
    res = cs.complement() if neg else cs
    _CAT_CACHE[cat] = res
    return res


class Info:
    __slots__ = ("nullable", "first", "single", "exact")

    def __init__(self, nullable: bool, first: CharSet, single: CharSet, exact: bool = True):
        self.nullable = nullable
        self.first = first
        self.single = single
        self.exact = exact


def _case(cs: CharSet, flags: int) -> Tuple[CharSet, bool]:
    """Close a set under case folding when IGNORECASE is on (exact for small sets)."""
    if not flags & re.IGNORECASE:
        return cs, True
    if len(cs) > 4096:
        return cs, False
    extra = []
    for ch in cs.chars():
        for v in (ch.lower(), ch.upper(), ch.swapcase()):
            if len(v) == 1:
                extra.append((ord(v), ord(v)))
    return cs | CharSet(extra), True


def _class_items(items, flags: int) -> Tuple[CharSet, bool]:
    neg = False
    cs = EMPTY
    ok = True
    iv = []
    for op, av in items:
        if op is C.NEGATE:
            neg = True
        elif op is C.LITERAL:
            iv.append((av, av))
        elif op is C.RANGE:
            iv.append((av[0], av[1]))
        elif op is C.CATEGORY:
            c = category(av)
            if c is None:
                ok = False
            else:
                cs = cs | c
        else:
            ok = False
    cs = cs | CharSet(iv)
    cs, ok2 = _case(cs, flags)
    if neg:
        cs = cs.complement()
    return cs, ok and ok2


_ZERO_WIDTH_INEXACT = {C.ASSERT, C.ASSERT_NOT, C.AT, C.GROUPREF}


def _seq(items, flags: int) -> Info:
    infos: List[Info] = []
    tainted = False  # a zero-width / context construct sits directly in this sequence
    for op, av in items:
        if op in _ZERO_WIDTH_INEXACT or op is C.GROUPREF_EXISTS:
            tainted = True
        infos.append(_item(op, av, flags))
    nullable = all(i.nullable for i in infos)
    first = EMPTY
    for i in infos:
        first = first | i.first
        if not i.nullable:
            break
    single = EMPTY
    if not tainted:
        for k, i in enumerate(infos):
            if i.single and all(j.nullable for m, j in enumerate(infos) if m != k):
                single = single | i.single
    exact = (not tainted) and all(i.exact for i in infos)
    return Info(nullable, first, single, exact)


def _item(op, av, flags: int) -> Info:
    if op is C.LITERAL:
        cs, ok = _case(CharSet([(av, av)]), flags)
        return Info(False, cs, cs if ok else EMPTY, ok)
    if op is C.NOT_LITERAL:
        cs, ok = _case(CharSet([(av, av)]), flags)
        cs = cs.complement()
        return Info(False, cs, cs if ok else EMPTY, ok)
    if op is C.ANY:
        cs = ALL if flags & re.DOTALL else CharSet.of("\n").complement()
        return Info(False, cs, cs)
    if op is C.IN:
        cs, ok = _class_items(av, flags)
        return Info(False, cs if ok else ALL, cs if ok else EMPTY, ok)
    if op is C.BRANCH:
        alts = [_seq(a, flags) for a in av[1]]
        first = EMPTY
        single = EMPTY
        for a in alts:
            first = first | a.first
            single = single | a.single
        return Info(any(a.nullable for a in alts), first, single, all(a.exact for a in alts))
    if op is C.SUBPATTERN:
        _, add, dele, p = av
        return _seq(p, (flags | add) & ~dele)
    if op in (C.MAX_REPEAT, C.MIN_REPEAT):
        lo, hi, p = av
        i = _seq(p, flags)
        if hi == 0:
            return Info(True, EMPTY, EMPTY, i.exact)
        single = i.single if (lo <= 1 or i.nullable) else EMPTY
        return Info(lo == 0 or i.nullable, i.first, single, i.exact)
    if op is getattr(C, "POSSESSIVE_REPEAT", object()):
        lo, hi, p = av
        i = _seq(p, flags)
        return Info(lo == 0 or i.nullable, i.first if hi else EMPTY, EMPTY, False)
    if op is getattr(C, "ATOMIC_GROUP", object()):
        i = _seq(av, flags)
        return Info(i.nullable, i.first, EMPTY, False)
    if op in (C.ASSERT, C.ASSERT_NOT, C.AT):
        return Info(True, EMPTY, EMPTY, False)
    if op is C.GROUPREF:
        return Info(True, ALL, EMPTY, False)
    if op is C.GROUPREF_EXISTS:
        _, yes, no = av
        a = _seq(yes, flags)
        b = _seq(no, flags) if no is not None else Info(True, EMPTY, EMPTY)
        return Info(a.nullable or b.nullable, a.first | b.first, EMPTY, False)
    if op is C.FAILURE:
        return Info(False, EMPTY, EMPTY)
    # unknown opcode: say nothing that could discharge an obligation
    return Info(True, ALL, EMPTY, False)


def _unwrap(items):
    """Strip capture groups that wrap the whole pattern: ((X*)) -> X*."""
    items = list(items)
    while len(items) == 1 and items[0][0] is C.SUBPATTERN and not items[0][1][1] and not items[0][1][2]:
        items = list(items[0][1][3])
    return items


_PROP_POS = re.compile(r"\\p\{[A-Za-z_=: ]+\}")
_RECURSE = re.compile(r"\(\?(?:R|[0-9]+|&[A-Za-z_]+)\)")


def approx_rewrite(pattern: str) -> Optional[str]:
    """Stdlib-readable OVER-approximation of a ``regex``-module pattern, or None.

    ``\\p{L}``, ``\\p{N}`` ... (positive Unicode properties) become ``\\w`` - every letter,
    mark-less identifier character and number is a word character, so a class only grows;
    recursion ``(?R)`` / ``(?1)`` becomes ``.*``.  Negated use (``\\P{..}``, a property inside
    ``[^...]``) cannot be over-approximated this way and stays unknown.
    """
    if "\\P{" in pattern:
        return None
    for m in _PROP_POS.finditer(pattern):
        before = pattern[: m.start()]
        open_i = before.rfind("[")
        if open_i >= 0 and before.rfind("]") < open_i and before[open_i: open_i + 2] == "[^":
            return None
        name = m.group(0)[3:-1].strip().upper()
        if name not in ("L", "LU", "LL", "LT", "LM", "LO", "N", "ND", "NL", "NO", "LETTER", "NUMBER", "ALPHABETIC", "ALPHA", "DIGIT"):
            return None
    q = _PROP_POS.sub(lambda _m: "\\w", pattern)
    q = _RECURSE.sub(".*", q)
    return q if q != pattern else None


class PatternInfo:
    """Result of :func:`analyse`."""

    def __init__(self, pattern: str):
        self.pattern = pattern
        self.status = "ok"  # ok | approx (only ``first``/``nullable`` meaningful) | unknown
        self.error: Optional[str] = None
        self.nullable = False
        self.first = EMPTY
        self.single = EMPTY
        self.consumes = EMPTY
        self.exact = True
        self.shape = ""  # how ``consumes`` was derived

    def __repr__(self) -> str:  # pragma: no cover
        return f"<PatternInfo {self.pattern!r} {self.status} nullable={self.nullable} exact={self.exact}>"


_CACHE: Dict[Tuple[str, int], PatternInfo] = {}


def analyse(pattern: str, flags: int = 0) -> PatternInfo:
    key = (pattern, flags)
    if key in _CACHE:
        return _CACHE[key]
    res = PatternInfo(pattern)
    try:
        tree = P.parse(pattern, flags)
        eff = flags | tree.state.flags
        if eff & re.VERBOSE and not flags & re.VERBOSE:
            tree = P.parse(pattern, eff)
    except (re.error, RecursionError, OverflowError, ValueError, IndexError) as e:
        res.status = "unknown"
        res.error = f"{type(e).__name__}: {e}"
        res.exact = False
        alt = approx_rewrite(pattern)
        if alt is not None:
            try:
                tree = P.parse(alt, flags)
                info = _seq(list(tree), flags | tree.state.flags)
                # only the over-approximated first set is kept: enough to prove that the
                # pattern can NOT start with a character, never to discharge an obligation
                res.status = "approx"
                res.nullable = info.nullable
                res.first = info.first
                res.shape = "approximated"
            except (re.error, RecursionError, OverflowError, ValueError, IndexError):
                pass
        _CACHE[key] = res
        return res
    items = list(tree)
    info = _seq(items, eff)
    res.nullable, res.first, res.single, res.exact = info.nullable, info.first, info.single, info.exact
    if not info.nullable:
        res.consumes = info.single
        res.shape = "non-nullable"
    else:
        core = _unwrap(items)
        if len(core) == 1 and core[0][0] is C.MAX_REPEAT:
            lo, hi, p = core[0][1]
            inner = _seq(p, eff)
            if hi >= 1 and not inner.nullable:
                res.consumes = inner.single
                res.shape = "greedy-repeat"
                if not inner.exact:
                    res.exact = False
            else:
                res.exact = False
                res.shape = "nullable-unsupported"
        elif len(core) == 1 and core[0][0] is C.MIN_REPEAT and core[0][1][0] == 0:
            # a lazy repeat with nothing after it always prefers the empty match
            res.consumes = EMPTY
            res.shape = "lazy-repeat"
        elif not core:
            res.consumes = EMPTY
            res.shape = "empty-pattern"
        else:
            res.exact = False
            res.shape = "nullable-unsupported"
    _CACHE[key] = res
    return res


def analyse_literal(template: str) -> PatternInfo:
    """A ``StringLexer`` template: matches iff the input starts with the template."""
    res = PatternInfo(template)
    res.shape = "string"
    if template == "":
        res.nullable = True
        return res
    res.first = CharSet.of(template[0])
    if len(template) == 1:
        res.single = res.first
        res.consumes = res.first
    return res
