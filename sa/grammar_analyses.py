"""Analyses on the serialised dialect grammar graphs (DESIGN.md 2.7): Indent/Dedent
balance by abstract interpretation (R03a) and FIRST sets by fixpoint (R06c).

Both work on :class:`sa.grammar.DialectGraph` only (plain data; nothing of sqlfluff is
imported or run here).

Balance
-------
Domain: finite sets of integers (net indent contributed by one *completed* match of a
node), widened to :data:`UNBOUNDED` above :data:`WIDEN` elements.  The graph that is
interpreted is the *inline graph* of a dialect: element edges, ``Ref`` edges to library
*grammars* (a ``Ref`` to a segment class is a leaf worth ``{0}``: the class carries its
own obligation) and - only for classes explicitly asked for - the class' own grammar.
Strongly connected components are iterated to a fixpoint (join = union).

FIRST
-----
``FIRST(node)`` = (set of upper-cased raws, set of types, ANY flag): what the first code
token of a non-empty match of the node can be.
"""

from __future__ import annotations

from itertools import product
from typing import Dict, FrozenSet, Iterable, List, Optional, Sequence, Set, Tuple

from .grammar import DialectGraph, Grammar, field

UNBOUNDED = "UNBOUNDED"
WIDEN = 12
# A value is a set of pairs (flat, nested): ``flat`` = net of the metas in the match's own
# (flattened) insert list, ``nested`` = net of the metas kept inside class-wrapped child
# matches.  ``nested`` is non-zero only below classes that are substituted (pair computation):
# a Bracketed that does not forward its content's inserts drops ``flat`` but keeps ``nested``.
ZERO: FrozenSet[Tuple[int, int]] = frozenset(((0, 0),))
BOTTOM: FrozenSet[Tuple[int, int]] = frozenset()


# -- the value domain ---------------------------------------------------------------------


def flat(k: int):
    return frozenset(((int(k), 0),))


def vjoin(a, b):
    if a is UNBOUNDED or b is UNBOUNDED:
        return UNBOUNDED
    s = a | b
    return UNBOUNDED if len(s) > WIDEN else s


def vsum(a, b):
    if a is UNBOUNDED or b is UNBOUNDED:
        # the empty set (no completed match) absorbs
        if a is not UNBOUNDED and not a:
            return a
        if b is not UNBOUNDED and not b:
            return b
        return UNBOUNDED
    if not a or not b:
        return BOTTOM
    if a == ZERO:
        return b
    if b == ZERO:
        return a
    s = frozenset((x[0] + y[0], x[1] + y[1]) for x in a for y in b)
    return UNBOUNDED if len(s) > WIDEN else s


def nest(v):
    """The value as seen through a class wrapper / child match: everything becomes nested."""
    if v is UNBOUNDED or v == ZERO or not v:
        return v
    return frozenset((0, f + n) for f, n in v)


def drop_flat(v):
    if v is UNBOUNDED or v == ZERO or not v:
        return v
    return frozenset((0, n) for _, n in v)


def totals(v):
    """Set of net totals of a value (UNBOUNDED stays UNBOUNDED)."""
    if v is UNBOUNDED:
        return UNBOUNDED
    return frozenset(f + n for f, n in v)


def balanced(v) -> bool:
    return v is not UNBOUNDED and all(f + n == 0 for f, n in v)


def vshow(v) -> str:
    if v is UNBOUNDED:
        return "unbounded"
    t = v if not v or not isinstance(next(iter(v)), tuple) else totals(v)
    return "{" + ", ".join(f"{x:+d}" if x else "0" for x in sorted(t)) + "}"


# -- kinds ----------------------------------------------------------------------------------


class Kinds:
    """Classification of serialised node kinds by their core base classes."""

    def __init__(self, g: Grammar):
        self.g = g
        self._memo: Dict[str, str] = {}

    def role(self, n: dict) -> str:
        """segment | meta | ref | conditional | bracketed | delimited | anynumberof | sequence |
        parser | anything | nothing | other"""
        k = n["kind"]
        r = self._memo.get(k)
        if r is None:
            r = self._role(k, n)
            self._memo[k] = r
        return r

    def _role(self, k: str, n: dict) -> str:
        is_ = self.g.kind_is
        if k in ("segment", "meta"):
            return k
        fam = n.get("family")
        if fam == "parser":
            return "parser"
        if fam == "grammar":
            if is_(k, "Ref"):
                return "ref"
            if is_(k, "Conditional"):
                return "conditional"
            if is_(k, "Bracketed"):
                return "bracketed"
            if is_(k, "Sequence"):
                return "sequence"
            if is_(k, "Delimited"):
                return "delimited"
            if is_(k, "AnyNumberOf"):
                return "anynumberof"
            if is_(k, "Anything"):
                return "anything"
            if is_(k, "Nothing"):
                return "nothing"
            return "unknown-grammar"
        return "other"


# -- strongly connected components (iterative Tarjan) -------------------------------------------


def sccs(n_nodes: int, succ) -> List[List[int]]:
    """SCCs of the graph ``0..n_nodes-1`` in reverse topological order (callees first)."""
    index = [0] * n_nodes
    low = [0] * n_nodes
    on = [False] * n_nodes
    seen = [False] * n_nodes
    stack: List[int] = []
    out: List[List[int]] = []
    counter = 1
    for root in range(n_nodes):
        if seen[root]:
            continue
        work = [(root, iter(succ(root)))]
        seen[root] = True
        index[root] = low[root] = counter
        counter += 1
        stack.append(root)
        on[root] = True
        while work:
            v, it = work[-1]
            advanced = False
            for w in it:
                if not seen[w]:
                    seen[w] = True
                    index[w] = low[w] = counter
                    counter += 1
                    stack.append(w)
                    on[w] = True
                    work.append((w, iter(succ(w))))
                    advanced = True
                    break
                elif on[w]:
                    if index[w] < low[v]:
                        low[v] = index[w]
            if advanced:
                continue
            work.pop()
            if work:
                u = work[-1][0]
                if low[v] < low[u]:
                    low[u] = low[v]
            if low[v] == index[v]:
                comp = []
                while True:
                    w = stack.pop()
                    on[w] = False
                    comp.append(w)
                    if w == v:
                        break
                out.append(comp)
    return out


# -- balance -----------------------------------------------------------------------------------


class Failure:
    """An obligation that fails *at a node* (repeated unbalanced element ...).

    ``flat_only``: the drifting metas are all in the element's own (flattened) insert list;
    below a Bracketed that does not forward its content's inserts they are dropped, so the
    failure does not count there.
    """

    __slots__ = ("node", "what", "element", "value", "assignment", "flat_only")

    def __init__(self, node: int, what: str, element: Optional[int], value, assignment, flat_only: bool):
        self.node = node
        self.what = what
        self.element = element
        self.value = value
        self.assignment = assignment
        self.flat_only = flat_only


class Balance:
    """Indent/Dedent balance of one dialect.

    ``forward_content``: does ``Bracketed.match`` forward the inserts of its content?
    ``bracket_net``: net of the engine's own bracket pair (0 when both signs are inserted).
    ``inline``: ids of segment classes whose own grammar is *substituted* at their use
    sites (pair computation); every other class is worth ``{0}`` where it is referenced.
    """

    def __init__(self, d: DialectGraph, kinds: Kinds, *, forward_content: bool, bracket_net: int = 0,
                 inline: Iterable[int] = ()):
        self.d = d
        self.kinds = kinds
        self.forward_content = forward_content
        self.bracket_net = bracket_net
        self.inline = frozenset(inline)
        self.nodes = d.nodes
        n = len(self.nodes)
        self.role = [kinds.role(x) for x in self.nodes]
        self._succ: List[Tuple[int, ...]] = [self._edges(i) for i in range(n)]
        self.comps = sccs(n, lambda i: self._succ[i])
        self.comp_of = [0] * n
        for ci, comp in enumerate(self.comps):
            for i in comp:
                self.comp_of[i] = ci
        # config keys of the Conditionals below each component
        self.keys: List[Tuple[str, ...]] = []
        for ci, comp in enumerate(self.comps):
            ks: Set[str] = set()
            for i in comp:
                if self.role[i] == "conditional":
                    ks.update((self.nodes[i].get("config_rules") or {}).keys())
                for c in self._succ[i]:
                    cc = self.comp_of[c]
                    if cc != ci:
                        ks.update(self.keys[cc])
            self.keys.append(tuple(sorted(ks)))
        self._values: Dict[Tuple[int, Tuple[bool, ...]], Dict[int, object]] = {}
        self._fails: Dict[Tuple[int, Tuple[bool, ...]], List[Failure]] = {}
        self._anyfail: Dict[Tuple[int, Tuple[bool, ...]], bool] = {}
        self.evaluations = 0

    # -- graph -----------------------------------------------------------------------------
    def _edges(self, i: int) -> Tuple[int, ...]:
        n = self.nodes[i]
        r = self.role[i]
        if r == "ref":
            t = self.d.library.get(n.get("ref"))
            if t is None:
                return ()
            tr = self.role[t]
            if tr in ("segment", "meta"):
                return (t,) if t in self.inline else ()
            return (t,)
        if r == "segment":
            mg = n.get("match_grammar")
            return (mg,) if mg is not None else ()
        if r in ("sequence", "anynumberof"):
            return tuple(self._usable(n.get("elements") or ()))
        if r == "bracketed":
            out = list(self._usable(n.get("elements") or ()))
            for k in ("start_bracket", "end_bracket"):
                if n.get(k) is not None:
                    out += self._usable((n[k],))
            return tuple(out)
        if r == "delimited":
            out = list(self._usable(n.get("elements") or ()))
            if n.get("delimiter") is not None:
                out += self._usable((n["delimiter"],))
            return tuple(out)
        return ()

    def _usable(self, els: Iterable[int]) -> List[int]:
        """Elements whose value is looked up (classes only when substituted, never bare metas)."""
        out = []
        for e in els:
            er = self.role[e]
            if er == "meta" or (er == "segment" and e not in self.inline):
                continue
            out.append(e)
        return out

    def keys_below(self, i: int) -> Tuple[str, ...]:
        return self.keys[self.comp_of[i]]

    def _key(self, ci: int, assignment: Dict[str, bool]):
        return (ci, tuple(bool(assignment.get(k, False)) for k in self.keys[ci]))

    # -- evaluation --------------------------------------------------------------------------
    def value(self, i: int, assignment: Dict[str, bool]):
        """Abstract value of node ``i`` under ``assignment`` (a dict covering keys_below(i))."""
        return self._comp_values(self.comp_of[i], assignment)[i]

    def failures(self, i: int, assignment: Dict[str, bool]) -> List[Failure]:
        """Node-level obligation failures in the inline graph below ``i`` that survive the
        dropping of flat inserts by enclosing Bracketed grammars."""
        self._comp_values(self.comp_of[i], assignment)
        if not self._anyfail.get(self._key(self.comp_of[i], assignment)):
            return []
        seen: Set[Tuple[int, bool]] = set()
        out: List[Failure] = []
        stack: List[Tuple[int, bool]] = [(i, False)]
        while stack:
            j, dropped = stack.pop()
            if (j, dropped) in seen or (dropped and (j, False) in seen):
                continue
            seen.add((j, dropped))
            for f in self._fails.get(self._key(self.comp_of[j], assignment), ()):
                if f.node == j and not (dropped and f.flat_only):
                    out.append(f)
            n = self.nodes[j]
            if self.role[j] == "bracketed" and not self.forward_content:
                content = set(self._usable(n.get("elements") or ()))
                for c in self._succ[j]:
                    stack.append((c, dropped or c in content))
            else:
                for c in self._succ[j]:
                    stack.append((c, dropped))
        return out

    def _comp_values(self, ci: int, assignment: Dict[str, bool]) -> Dict[int, object]:
        key = self._key(ci, assignment)
        got = self._values.get(key)
        if got is not None:
            return got
        # iterative post-order over the component DAG
        order: List[int] = []
        todo = [(ci, False)]
        visited: Set[int] = set()
        while todo:
            c, done = todo.pop()
            if done:
                order.append(c)
                continue
            if c in visited or self._key(c, assignment) in self._values:
                continue
            visited.add(c)
            todo.append((c, True))
            for n in self.comps[c]:
                for s in self._succ[n]:
                    cs = self.comp_of[s]
                    if cs != c:
                        todo.append((cs, False))
        for c in order:
            k = self._key(c, assignment)
            if k not in self._values:
                self._solve(c, k, assignment)
        return self._values[key]

    def _solve(self, ci: int, key, assignment: Dict[str, bool]) -> None:
        comp = self.comps[ci]
        vals: Dict[int, object] = {i: BOTTOM for i in comp}
        fails: List[Failure] = []
        cyclic = len(comp) > 1 or comp[0] in self._succ[comp[0]]
        comp_of = self.comp_of

        def look(j: int):
            cj = comp_of[j]
            if cj == ci:
                return vals[j]
            return self._values[self._key(cj, assignment)][j]

        rounds = 0
        while True:
            rounds += 1
            changed = False
            fails = []
            for i in comp:
                self.evaluations += 1
                v = self._transfer(i, look, assignment, fails)
                if v is not UNBOUNDED and vals[i] is not UNBOUNDED:
                    v = vjoin(v, vals[i])
                elif vals[i] is UNBOUNDED:
                    v = UNBOUNDED
                if v != vals[i]:
                    vals[i] = v
                    changed = True
            if not cyclic or not changed:
                break
            if rounds > 4 * WIDEN + len(comp):
                for i in comp:
                    vals[i] = UNBOUNDED
                break
        self._values[key] = vals
        if fails:
            self._fails[key] = fails
        below = bool(fails)
        if not below:
            for i in comp:
                for c in self._succ[i]:
                    cc = comp_of[c]
                    if cc != ci and self._anyfail.get(self._key(cc, assignment)):
                        below = True
                        break
                if below:
                    break
        self._anyfail[key] = below

    def conditional_value(self, n: dict, assignment: Dict[str, bool]):
        rules = n.get("config_rules") or {}
        enabled = all(bool(val) == bool(assignment.get(rule, False)) for rule, val in rules.items())
        if not enabled:
            return ZERO
        m = n.get("cond_meta")
        return flat(field(self.nodes[m], "indent_val")) if m is not None else ZERO

    def _seq(self, elements: Sequence[int], look, assignment) -> object:
        total = ZERO
        for e in elements:
            er = self.role[e]
            en = self.nodes[e]
            if er == "meta":
                b = flat(field(en, "indent_val"))
            elif er == "conditional":
                b = self.conditional_value(en, assignment)
            else:
                b = self._use(e, look)
                if field(en, "is_optional"):
                    b = vjoin(b, ZERO)
            total = vsum(total, b)
            if total is not UNBOUNDED and not total:
                return BOTTOM
        return total

    def _use(self, e: int, look):
        """Value of element ``e`` as seen from a parent grammar."""
        er = self.role[e]
        if er == "segment":
            return look(e) if e in self.inline else ZERO
        if er == "meta":
            # a bare meta outside a Sequence is never matched (MetaSegment.match raises)
            return ZERO
        if er in ("parser", "anything", "other"):
            return ZERO
        if er == "nothing":
            return BOTTOM
        return look(e)

    def _transfer(self, i: int, look, assignment, fails: List[Failure]):
        n = self.nodes[i]
        r = self.role[i]
        if r == "ref":
            t = self.d.library.get(n.get("ref"))
            return self._use(t, look) if t is not None else ZERO
        if r == "segment":
            # the class wrapper keeps every insert of its grammar inside the new segment
            mg = n.get("match_grammar")
            return nest(self._use(mg, look)) if mg is not None else ZERO
        if r == "conditional":
            return self.conditional_value(n, assignment)
        if r == "sequence":
            return self._seq(n.get("elements") or (), look, assignment)
        if r == "bracketed":
            v = flat(self.bracket_net)
            for k in ("start_bracket", "end_bracket"):
                if n.get(k) is not None:
                    # the bracket matches are kept as child matches (their inserts survive)
                    v = vsum(v, nest(self._use(n[k], look)))
            content = self._seq(n.get("elements") or (), look, assignment)
            if not self.forward_content:
                content = drop_flat(content)
            return vsum(v, content)
        if r in ("delimited", "anynumberof"):
            els = list(n.get("elements") or ())
            once = r == "anynumberof" and n.get("max_times") == 1
            if once:
                out = BOTTOM
                for e in els:
                    out = vjoin(out, self._use(e, look))
                return out
            parts = [(e, "element") for e in els]
            if r == "delimited" and n.get("delimiter") is not None:
                parts.append((n["delimiter"], "delimiter"))
            for e, what in parts:
                b = self._use(e, look)
                if not balanced(b):
                    flat_only = b is not UNBOUNDED and all(nn == 0 for _, nn in b)
                    fails.append(Failure(i, what, e, b, dict(assignment), flat_only))
            # a failing node is reported where it is; upwards it counts as balanced so that
            # one defect gives one report
            return ZERO
        if r == "nothing":
            return BOTTOM
        return ZERO


def assignments(keys: Sequence[str]) -> List[Dict[str, bool]]:
    return [dict(zip(keys, vals)) for vals in product((False, True), repeat=len(keys))]


def show_assignment(a: Dict[str, bool]) -> str:
    if not a:
        return "(no indentation keys)"
    return ", ".join(f"{k}={'on' if v else 'off'}" for k, v in sorted(a.items()))


# -- FIRST sets -----------------------------------------------------------------------------------


class First:
    __slots__ = ("raws", "types", "any")

    def __init__(self, raws=frozenset(), types=frozenset(), any_=False):
        self.raws = raws
        self.types = types
        self.any = any_

    def join(self, o: "First") -> "First":
        if o.any or self.any:
            return ANY_FIRST
        if o.raws <= self.raws and o.types <= self.types:
            return self
        return First(self.raws | o.raws, self.types | o.types, False)

    def __eq__(self, o):
        return isinstance(o, First) and self.any == o.any and self.raws == o.raws and self.types == o.types

    def __hash__(self):
        return hash((self.raws, self.types, self.any))


ANY_FIRST = First(any_=True)
EMPTY_FIRST = First()


class FirstSets:
    """FIRST(node) for every node of one dialect, by fixpoint over SCCs."""

    def __init__(self, d: DialectGraph, kinds: Kinds):
        self.d = d
        self.kinds = kinds
        self.nodes = d.nodes
        n = len(self.nodes)
        self.role = [kinds.role(x) for x in self.nodes]
        self.persistent_starts: List[int] = []
        for ent in d.bracket_sets.get("bracket_pairs", ()):
            if ent[3] and ent[1] in d.library:
                self.persistent_starts.append(d.library[ent[1]])
        self._succ = [self._edges(i) for i in range(n)]
        self.first: List[First] = [EMPTY_FIRST] * n
        self.evaluations = 0
        for comp in sccs(n, lambda i: self._succ[i]):
            inside = set(comp)
            cyclic = len(comp) > 1 or comp[0] in self._succ[comp[0]]
            while True:
                changed = False
                for i in comp:
                    self.evaluations += 1
                    v = self._transfer(i)
                    if v != self.first[i]:
                        self.first[i] = v
                        changed = True
                if not cyclic or not changed:
                    break

    def leading(self, i: int) -> List[int]:
        """Elements of a sequence-like node that can provide its first token."""
        out = []
        for e in self.nodes[i].get("elements") or ():
            er = self.role[e]
            if er in ("meta", "conditional"):
                continue
            out.append(e)
            if not field(self.nodes[e], "is_optional"):
                break
        return out

    def effective_start(self, i: int) -> Optional[int]:
        n = self.nodes[i]
        if n.get("start_bracket") is not None:
            return n["start_bracket"]
        ent = self.d.bracket_entry(i)
        if ent is None:
            return None
        return self.d.library.get(ent[1])

    def _edges(self, i: int) -> Tuple[int, ...]:
        n = self.nodes[i]
        r = self.role[i]
        if r == "ref":
            t = self.d.library.get(n.get("ref"))
            return (t,) if t is not None else ()
        if r == "segment":
            if n.get("own_match") and "BracketedSegment" in (n.get("bases") or ()):
                return tuple(self.persistent_starts)
            mg = n.get("match_grammar")
            return (mg,) if mg is not None else ()
        if r == "sequence":
            return tuple(self.leading(i))
        if r == "bracketed":
            s = self.effective_start(i)
            return (s,) if s is not None else ()
        if r in ("delimited", "anynumberof"):
            return tuple(n.get("elements") or ())
        return ()

    def _transfer(self, i: int) -> First:
        n = self.nodes[i]
        r = self.role[i]
        if r == "parser":
            k = n["kind"]
            is_ = self.kinds.g.kind_is
            if is_(k, "MultiStringParser"):
                return First(frozenset(str(t).upper() for t in n.get("templates") or ()), frozenset(), False)
            if is_(k, "StringParser"):
                return First(frozenset((str(n.get("template")).upper(),)), frozenset(), False)
            if is_(k, "TypedParser"):
                return First(frozenset(), frozenset((n.get("template"),)), False)
            return ANY_FIRST
        if r in ("nothing", "meta", "conditional"):
            return EMPTY_FIRST
        if r == "segment":
            if n.get("own_match") and "BracketedSegment" in (n.get("bases") or ()):
                pass  # union of the persistent start brackets (below)
            elif n.get("match_grammar") is None or n.get("own_match"):
                return ANY_FIRST
        if r in ("anything", "other", "unknown-grammar"):
            return ANY_FIRST
        s = self._succ[i]
        if r == "bracketed" and not s:
            return ANY_FIRST  # unresolvable bracket type: C29 reports it; nothing to compare here
        if r == "ref" and not s:
            return EMPTY_FIRST  # dangling reference (C29): matching raises, nothing can start it
        out = EMPTY_FIRST
        for c in s:
            out = out.join(self.first[c])
            if out.any:
                break
        return out
