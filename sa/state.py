"""RS-state: inventory of process-lifetime mutable state of the analysed tree.

Shared by C21 (rule classes / rule helper modules) and C32 (whole tree).

What is a *cell* (a place whose content outlives one lint of one file):

``module``    a name bound at module top level (also inside module-level ``if`` /
              ``try`` / ``with`` / ``for``);
``class``     a name bound in a class body (shared by all instances unless an
              instance attribute of the same name is stored by a method);
``default``   a mutable container used as a parameter default;
``external``  an attribute of a module outside the analysed tree
              (``os.environ[...] = ..``, ``sys.path.insert(..)``);
``cache``     a function memoised for the process (``functools.cache`` /
              ``lru_cache``), listed separately in ``State.caches``.

What is a *mutation site*: a construct **inside a function body** (module and
class bodies run once at import time and are initialisation, not history) whose
target's access path starts at a cell:

* store / ``del`` / augmented store into ``cell[...]`` or ``cell.attr`` (also
  through deeper paths ``cell.a[b].c = ..``),
* a call of a container mutator (``append``, ``update``, ``pop``, ``clear`` …;
  ``set`` / ``reset`` on a ``ContextVar``) on the cell or on something reached
  from it,
* ``setattr(cell, ..)``, ``next(cell)`` (advancing a shared iterator),
* a rebinding of a module name under a ``global`` declaration,
* a rebinding of a class attribute through ``cls.X = ..`` / ``ClassName.X = ..``
  / ``type(self).X = ..`` / ``self.__class__.X = ..``.

The root of the access path is resolved by scope, never by spelling: a name
bound in the function (or an enclosing function) is local — unless it is a plain
alias of a cell (``stack = self._stack``), which is followed through reaching
definitions; ``self.X`` / ``cls.X`` resolve along the source MRO of the enclosing
class and only count when no method stores an instance attribute ``self.X``
(which would shadow the class-level object); other names resolve through the
module's own top level and its imports (re-exports followed) to the defining
module, so ``from a import T as U; U.append(..)`` is a site of ``a::T``.

Not decided here (stated so nobody reads more into the inventory): mutation of
*elements* of a shared container (``for d in TABLE: d[...] = ..``), state kept on
long-lived *instances* (templater / linter objects; rule instances are handled
by C21's own table), per-object ``cached_property`` values, and anything done to
a cell by code outside the analysed tree.
"""

from __future__ import annotations

import ast
from typing import Dict, Iterable, Iterator, List, Optional, Set, Tuple

from .cfg import cfg_of, origins
from .index import FuncNode, Module, Repo, enclosing_function, norm, walk_local

MUTATORS = frozenset(
    [
        "append", "extend", "insert", "remove", "pop", "clear", "sort", "reverse", "update", "setdefault",
        "popitem", "add", "discard", "appendleft", "popleft", "extendleft", "difference_update",
        "intersection_update", "symmetric_difference_update", "move_to_end", "subtract",
        "__setitem__", "__delitem__",
    ]
)
CONTEXTVAR_MUTATORS = frozenset(["set", "reset"])
CONTAINER_CALLS = frozenset(
    [
        "list", "dict", "set", "bytearray", "defaultdict", "OrderedDict", "deque", "Counter", "ChainMap",
        "collections.defaultdict", "collections.OrderedDict", "collections.deque", "collections.Counter",
        "collections.ChainMap", "DefaultDict",
    ]
)
CACHE_DECORATORS = frozenset(["functools.cache", "functools.lru_cache"])


def is_container_expr(v: Optional[ast.AST]) -> bool:
    """A display / comprehension / constructor call producing a mutable container."""
    if isinstance(v, (ast.List, ast.Dict, ast.Set, ast.ListComp, ast.DictComp, ast.SetComp)):
        return True
    if isinstance(v, ast.Call) and norm(v.func) in CONTAINER_CALLS:
        return True
    return False


class Cell:
    __slots__ = ("key", "kind", "module", "name", "node", "value", "container", "owner")

    def __init__(self, key, kind, module, name, node, value, owner=None):
        self.key = key  # 'relpath::Name' | 'relpath::Class.attr' | 'relpath::func(param)' | 'ext::os.environ'
        self.kind = kind
        self.module = module
        self.name = name
        self.node = node
        self.value = value
        self.container = is_container_expr(value)
        self.owner = owner  # ClassDef for class cells, function for default cells

    def __repr__(self):
        return f"<Cell {self.kind} {self.key}>"


class Site:
    __slots__ = ("cell", "node", "func", "how", "construct")

    def __init__(self, cell: Cell, node: ast.AST, func: ast.AST, how: str):
        self.cell = cell
        self.node = node
        self.func = func
        self.how = how
        m = func._module  # type: ignore[attr-defined]
        self.construct = f"{m.relpath}::{getattr(func, '_qualname', getattr(func, 'name', '?'))}"

    def __repr__(self):
        return f"<Site {self.cell.key} {self.how} in {self.construct}>"


class Cache:
    __slots__ = ("key", "func", "module", "decorator")

    def __init__(self, key, func, module, decorator):
        self.key, self.func, self.module, self.decorator = key, func, module, decorator


# ---------------------------------------------------------------------------
# module / class tables
# ---------------------------------------------------------------------------


def _toplevel_bindings(body: Iterable[ast.stmt]) -> Iterator[Tuple[str, ast.AST, Optional[ast.AST]]]:
    """(name, binding statement, value) for a module or class body, entering
    compound statements but no definitions."""
    for s in body:
        if isinstance(s, ast.Assign):
            for t in s.targets:
                for n in (t.elts if isinstance(t, (ast.Tuple, ast.List)) else [t]):
                    if isinstance(n, ast.Name):
                        yield n.id, s, (s.value if not isinstance(t, (ast.Tuple, ast.List)) else None)
        elif isinstance(s, ast.AnnAssign):
            if isinstance(s.target, ast.Name) and s.value is not None:
                yield s.target.id, s, s.value
        elif isinstance(s, ast.AugAssign):
            if isinstance(s.target, ast.Name):
                yield s.target.id, s, None
        elif isinstance(s, (ast.If, ast.While)):
            yield from _toplevel_bindings(s.body)
            yield from _toplevel_bindings(s.orelse)
        elif isinstance(s, ast.For):
            yield from _toplevel_bindings(s.body)
            yield from _toplevel_bindings(s.orelse)
        elif isinstance(s, ast.With):
            for it in s.items:
                if isinstance(it.optional_vars, ast.Name):
                    yield it.optional_vars.id, s, it.context_expr
            yield from _toplevel_bindings(s.body)
        elif isinstance(s, ast.Try):
            yield from _toplevel_bindings(s.body)
            for h in s.handlers:
                yield from _toplevel_bindings(h.body)
            yield from _toplevel_bindings(s.orelse)
            yield from _toplevel_bindings(s.finalbody)


def _param_names(f: ast.AST) -> List[str]:
    a = f.args
    out = [x.arg for x in a.posonlyargs + a.args + a.kwonlyargs]
    if a.vararg:
        out.append(a.vararg.arg)
    if a.kwarg:
        out.append(a.kwarg.arg)
    return out


def _own_locals(f: ast.AST) -> Tuple[Set[str], Set[str]]:
    """(names bound in the function, names declared global) — cached on the node."""
    c = getattr(f, "_rs_locals", None)
    if c is not None:
        return c
    bound: Set[str] = set(_param_names(f)) if not isinstance(f, ast.Lambda) else {x.arg for x in f.args.args}
    glob: Set[str] = set()
    for n in walk_local(f):
        if isinstance(n, ast.Name) and isinstance(n.ctx, (ast.Store, ast.Del)):
            bound.add(n.id)
        elif isinstance(n, FuncNode + (ast.ClassDef,)):
            bound.add(n.name)
        elif isinstance(n, (ast.Import, ast.ImportFrom)):
            for a in n.names:
                bound.add((a.asname or a.name).split(".")[0])
        elif isinstance(n, ast.Global):
            glob.update(n.names)
        elif isinstance(n, ast.ExceptHandler) and n.name:
            bound.add(n.name)
        elif isinstance(n, (ast.MatchAs, ast.MatchStar)) and getattr(n, "name", None):
            bound.add(n.name)
    bound -= glob
    f._rs_locals = (bound, glob)  # type: ignore[attr-defined]
    return bound, glob


def _comp_bound(node: ast.AST, stop: ast.AST) -> Set[str]:
    """Names bound by comprehensions / lambdas enclosing ``node`` (inside ``stop``)."""
    out: Set[str] = set()
    p = getattr(node, "_parent", None)
    while p is not None and p is not stop:
        if isinstance(p, (ast.ListComp, ast.SetComp, ast.GeneratorExp, ast.DictComp)):
            for g in p.generators:
                for n in ast.walk(g.target):
                    if isinstance(n, ast.Name):
                        out.add(n.id)
        elif isinstance(p, ast.Lambda):
            out.update(x.arg for x in p.args.args + p.args.kwonlyargs)
        p = getattr(p, "_parent", None)
    return out


def chain_of(e: ast.AST) -> Tuple[Optional[ast.AST], List[str]]:
    """``a.b[c].d`` -> (Name a, ['b', '[]', 'd']).  Calls in the middle of the chain
    (``a.get(k).append``) end the chain: what a call returns is not the cell."""
    path: List[str] = []
    while True:
        if isinstance(e, ast.Attribute):
            path.append(e.attr)
            e = e.value
        elif isinstance(e, ast.Subscript):
            path.append("[]")
            e = e.value
        else:
            break
    path.reverse()
    return e, path


# ---------------------------------------------------------------------------


class Shape:
    """One syntactic mutation: ``recv`` is the object being mutated (for ``x.a = v``
    the object is ``x`` and ``attr`` = 'a'; for ``x[k] = v`` / ``x.append(v)`` /
    ``next(x)`` it is ``x``; for a ``global`` rebinding it is the target name)."""

    __slots__ = ("recv", "node", "how", "attr", "method")

    def __init__(self, recv, node, how, attr=None, method=None):
        self.recv, self.node, self.how, self.attr, self.method = recv, node, how, attr, method


def mutation_shapes(f: ast.AST, glob: Optional[Set[str]] = None) -> Iterator[Shape]:
    """Every syntactic mutation shape directly inside ``f`` (nested defs excluded)."""
    if glob is None:
        glob = _own_locals(f)[1]
    for n in walk_local(f):
        if isinstance(n, (ast.Assign, ast.AnnAssign, ast.AugAssign)):
            tgts = n.targets if isinstance(n, ast.Assign) else [n.target]
            if isinstance(n, ast.AnnAssign) and n.value is None:
                continue
            for t in tgts:
                for tt in (t.elts if isinstance(t, (ast.Tuple, ast.List)) else [t]):
                    if isinstance(tt, ast.Starred):
                        tt = tt.value
                    if isinstance(tt, ast.Name):
                        if tt.id in glob:
                            yield Shape(tt, n, "global-rebind")
                        elif isinstance(n, ast.AugAssign):
                            # x += [...] mutates in place when x is a list
                            yield Shape(tt, n, "augassign")
                    elif isinstance(tt, ast.Subscript):
                        yield Shape(tt.value, n, "item-store")
                    elif isinstance(tt, ast.Attribute):
                        yield Shape(tt.value, n, f"attr-store .{tt.attr}", attr=tt.attr)
        elif isinstance(n, ast.Delete):
            for tt in n.targets:
                if isinstance(tt, ast.Subscript):
                    yield Shape(tt.value, n, "item-del")
                elif isinstance(tt, ast.Attribute):
                    yield Shape(tt.value, n, f"attr-del .{tt.attr}", attr=tt.attr)
                elif isinstance(tt, ast.Name) and tt.id in glob:
                    yield Shape(tt, n, "global-del")
        elif isinstance(n, ast.Call):
            fn = n.func
            if isinstance(fn, ast.Attribute) and (fn.attr in MUTATORS or fn.attr in CONTEXTVAR_MUTATORS):
                yield Shape(fn.value, n, f"call .{fn.attr}()", method=fn.attr)
            elif isinstance(fn, ast.Name) and fn.id in ("setattr", "delattr") and n.args:
                yield Shape(n.args[0], n, f"{fn.id}()", attr="*")
            elif isinstance(fn, ast.Name) and fn.id == "next" and n.args:
                yield Shape(n.args[0], n, "next()", method="next")


class State:
    """The inventory.  Build once per Repo with :func:`inventory`."""

    def __init__(self, repo: Repo):
        self.repo = repo
        self.cells: Dict[str, Cell] = {}
        self.sites: List[Site] = []
        self.caches: List[Cache] = []
        self.globals_decl: List[Tuple[ast.AST, ast.Global]] = []
        self.nonlocals_decl: List[Tuple[ast.AST, ast.Nonlocal]] = []
        self.unclassified: List[Tuple[ast.AST, str]] = []  # mutation shapes on receivers we cannot type
        self._top: Dict[str, Dict[str, Tuple[ast.AST, Optional[ast.AST]]]] = {}
        self._cls_attrs: Dict[int, Dict[str, Tuple[ast.AST, Optional[ast.AST]]]] = {}
        self._inst_attrs: Dict[int, Set[str]] = {}
        self._subs: Optional[Dict[int, List[Tuple[Module, ast.ClassDef]]]] = None
        self.n_functions = 0
        self.n_shapes = 0
        self._build()

    # -- tables ---------------------------------------------------------------
    def top(self, m: Module) -> Dict[str, Tuple[ast.AST, Optional[ast.AST]]]:
        t = self._top.get(m.relpath)
        if t is None:
            t = {}
            for name, st, val in _toplevel_bindings(m.tree.body):
                # keep the first container-valued binding, else the first binding
                if name not in t or (not is_container_expr(t[name][1]) and is_container_expr(val)):
                    t[name] = (st, val)
            self._top[m.relpath] = t
        return t

    def class_attrs(self, c: ast.ClassDef) -> Dict[str, Tuple[ast.AST, Optional[ast.AST]]]:
        t = self._cls_attrs.get(id(c))
        if t is None:
            t = {}
            for name, st, val in _toplevel_bindings(c.body):
                if name not in t or (not is_container_expr(t[name][1]) and is_container_expr(val)):
                    t[name] = (st, val)
            self._cls_attrs[id(c)] = t
        return t

    def instance_attrs(self, c: ast.ClassDef) -> Set[str]:
        """Attribute names stored on ``self`` by a method of the class itself."""
        t = self._inst_attrs.get(id(c))
        if t is None:
            t = set()
            for item in c.body:
                if isinstance(item, FuncNode) and item.args.args:
                    me = item.args.args[0].arg
                    if any(norm(d) in ("staticmethod", "classmethod") for d in item.decorator_list):
                        continue
                    for n in walk_local(item):
                        if isinstance(n, ast.Attribute) and isinstance(n.ctx, ast.Store) and isinstance(n.value, ast.Name) and n.value.id == me:
                            t.add(n.attr)
            self._inst_attrs[id(c)] = t
        return t

    def subclasses(self, c: ast.ClassDef) -> List[Tuple[Module, ast.ClassDef]]:
        if self._subs is None:
            self._subs = {}
            for m in self.repo.modules.values():
                for q, cc in m.classes():
                    for bm, bc in self.repo.mro(m, cc)[1:]:
                        self._subs.setdefault(id(bc), []).append((m, cc))
        return self._subs.get(id(c), [])

    def cell_module(self, m: Module, name: str) -> Optional[Cell]:
        t = self.top(m)
        if name not in t:
            return None
        key = f"{m.relpath}::{name}"
        c = self.cells.get(key)
        if c is None:
            st, val = t[name]
            c = Cell(key, "module", m, name, st, val)
            self.cells[key] = c
        return c

    def cell_class(self, m: Module, c: ast.ClassDef, attr: str, create: bool = False) -> Optional[Cell]:
        """The class-level cell ``attr`` visible on class ``c`` (first hit along the MRO)."""
        for mm, cc in self.repo.mro(m, c):
            t = self.class_attrs(cc)
            if attr in t:
                key = f"{mm.relpath}::{getattr(cc, '_qualname', cc.name)}.{attr}"
                cell = self.cells.get(key)
                if cell is None:
                    st, val = t[attr]
                    cell = Cell(key, "class", mm, attr, st, val, owner=cc)
                    self.cells[key] = cell
                return cell
        if create:
            key = f"{m.relpath}::{getattr(c, '_qualname', c.name)}.{attr}"
            cell = self.cells.get(key)
            if cell is None:
                cell = Cell(key, "class", m, attr, c, None, owner=c)
                self.cells[key] = cell
            return cell
        return None

    def shadowed_on_instances(self, m: Module, c: ast.ClassDef, attr: str) -> bool:
        """Some class of the hierarchy around ``c`` stores ``self.attr`` (then ``self.attr``
        is, at least for those objects, a per-instance value)."""
        for mm, cc in self.repo.mro(m, c):
            if attr in self.instance_attrs(cc):
                return True
            b = self.class_attrs(cc).get(attr)
            if b is not None and isinstance(b[0], ast.AnnAssign) and _is_record_class(cc):
                return True  # a dataclass / NamedTuple field: one value per instance
        for mm, cc in self.subclasses(c):
            if attr in self.instance_attrs(cc):
                return True
        return False

    def cell_external(self, fq: str) -> Cell:
        key = f"ext::{fq}"
        c = self.cells.get(key)
        if c is None:
            c = Cell(key, "external", None, fq, None, None)
            self.cells[key] = c
        return c

    # -- name resolution --------------------------------------------------------
    def resolve_global(self, m: Module, name: str, path: List[str], _depth: int = 0):
        """Resolve a non-local name + attribute path to (cell, remaining path) or None.

        Returns ('class', module, ClassDef, path) when the name is a class of the tree."""
        if _depth > 8:
            return None
        if name in m.defs and isinstance(m.defs[name], ast.ClassDef):
            return ("class", m, m.defs[name], path)
        if name in m.defs:
            return None  # a function
        if name in self.top(m):
            return ("cell", self.cell_module(m, name), path)
        fq = m.imports.get(name)
        if fq is None:
            return None
        return self.resolve_fq(fq, path, _depth + 1)

    def resolve_fq(self, fq: str, path: List[str], _depth: int = 0):
        parts = fq.split(".")
        for i in range(len(parts), 0, -1):
            mod = self.repo.by_dotted.get(".".join(parts[:i]))
            if mod is None:
                continue
            rest = parts[i:] + [p for p in path]
            # rest[0] is a name in that module (or the module itself when empty)
            if not rest or rest[0] == "[]":
                return None
            head, tail = rest[0], rest[1:]
            sub = self.repo.by_dotted.get(".".join(parts[:i] + [head]))
            if sub is not None and head not in self.top(mod) and head not in mod.defs and head not in mod.imports:
                return self.resolve_fq(".".join(parts[:i] + [head]), tail, _depth + 1)
            return self.resolve_global(mod, head, tail, _depth + 1)
        if parts[0] in ("sqlfluff",) or parts[0].startswith("sqlfluff_"):
            return None  # in-tree name we cannot see (extension module, dynamic)
        # outside the tree: module attribute paths only (os.environ[...], sys.path.append)
        full = parts + [p for p in path]
        return ("external", full)

    # -- building ----------------------------------------------------------------
    def _build(self) -> None:
        repo = self.repo
        for m in repo.modules.values():
            # containers: module level and class level (the constant tables)
            for name, (st, val) in self.top(m).items():
                if is_container_expr(val):
                    self.cell_module(m, name)
            for q, c in m.classes():
                for name, (st, val) in self.class_attrs(c).items():
                    if is_container_expr(val):
                        self.cell_class(m, c, name)
            for q, f in m.functions():
                self.n_functions += 1
                self._scan_function(m, f)
                self._scan_decorators(m, q, f)
                self._scan_defaults(m, q, f)

    def _scan_decorators(self, m: Module, q: str, f: ast.AST) -> None:
        for d in f.decorator_list:
            t = d.func if isinstance(d, ast.Call) else d
            nm = norm(t)
            head = nm.split(".")[0]
            full = m.imports.get(head, head) + nm[len(head):]
            if full in CACHE_DECORATORS or (nm.split(".")[-1] in ("cache", "lru_cache") and "functools" in nm):
                self.caches.append(Cache(f"{m.relpath}::{q}", f, m, full))

    def _scan_defaults(self, m: Module, q: str, f: ast.AST) -> None:
        a = f.args
        pos = a.posonlyargs + a.args
        pairs = list(zip(pos[len(pos) - len(a.defaults):], a.defaults)) + [(p, d) for p, d in zip(a.kwonlyargs, a.kw_defaults) if d is not None]
        for p, d in pairs:
            if is_container_expr(d):
                key = f"{m.relpath}::{q}({p.arg})"
                self.cells[key] = Cell(key, "default", m, p.arg, f, d, owner=f)

    # locals including those of enclosing functions (closures)
    def _locals(self, f: ast.AST) -> Tuple[Set[str], Set[str]]:
        bound, glob = _own_locals(f)
        bound = set(bound)
        glob = set(glob)
        p = enclosing_function(f)
        while p is not None:
            if isinstance(p, FuncNode + (ast.Lambda,)):
                b2, g2 = _own_locals(p)
                bound |= {x for x in b2 if x not in glob}
            p = enclosing_function(p)
        return bound, glob

    def _scan_function(self, m: Module, f: ast.AST) -> None:
        bound, glob = self._locals(f)
        for n in walk_local(f):
            if isinstance(n, ast.Global):
                self.globals_decl.append((f, n))
            elif isinstance(n, ast.Nonlocal):
                self.nonlocals_decl.append((f, n))
        for sh in mutation_shapes(f, glob):
            if sh.how in ("global-rebind", "global-del"):
                c = self.cell_module(m, sh.recv.id)
                if c is None:
                    key = f"{m.relpath}::{sh.recv.id}"
                    c = self.cells.setdefault(key, Cell(key, "module", m, sh.recv.id, sh.node, None))
                self.sites.append(Site(c, sh.node, f, sh.how))
                continue
            if sh.how in ("setattr()", "delattr()", "next()") and sh.node.func.id in bound:
                continue  # a local function that merely shares the builtin's name
            self._shape(m, f, bound, sh.recv, sh.node, sh.how, attr=sh.attr, method=sh.method)

    def _shape(self, m, f, bound, recv, node, how, *, attr=None, method=None) -> None:
        """One mutation shape.  ``recv`` is the object being mutated: for ``x.a = v``
        the object is ``x`` (``attr`` = 'a'); for ``x[k] = v`` / ``x.append(v)`` /
        ``next(x)`` it is ``x``."""
        self.n_shapes += 1
        root, path = chain_of(recv)
        if isinstance(root, ast.Call) and isinstance(root.func, ast.Name) and root.func.id == "type" and len(root.args) == 1 and isinstance(root.args[0], ast.Name):
            root, path = root.args[0], ["__class__"] + path  # type(self).X...
        if not isinstance(root, ast.Name):
            return
        for r in self._resolve_root(m, f, bound, root, path, node, 0):
            tag = r[0]
            if tag in ("self-class", "cls-class"):
                _, mm, c, p = r
                if not p:
                    # self.X = v is an instance attribute store; cls.X = v rebinds the class cell
                    if attr is None or attr == "*" or tag == "self-class":
                        continue
                    p = [attr]
                self._class_site(tag, mm, c, p, node, f, how, method)
            elif tag == "external":
                full = list(r[1])
                if attr is not None and attr != "*":
                    full.append(attr)
                full = [x for x in full if x != "[]"]
                if len(full) < 2:
                    continue  # os.remove(x): a function of the module, not a state cell
                self.sites.append(Site(self.cell_external(".".join(full)), node, f, how))
            else:
                _, cell, rest = r
                if method in CONTEXTVAR_MUTATORS and not _is_contextvar(cell):
                    continue
                self.sites.append(Site(cell, node, f, how if not rest else f"{how} via .{'.'.join(rest)}"))

    def _class_site(self, tag, m, c, p, node, f, how, method) -> None:
        first, rest = p[0], p[1:]
        cell = self.cell_class(m, c, first)
        if cell is None:
            # a base-class method touching an attribute only subclasses declare
            for sm, sc in self.subclasses(c):
                cell = self.cell_class(sm, sc, first)
                if cell is not None:
                    break
        if cell is None:
            if tag == "cls-class" and not rest and how.startswith(("attr-store", "setattr")):
                cell = self.cell_class(m, c, first, create=True)  # a class attribute created at run time
            else:
                return
        if method in CONTEXTVAR_MUTATORS and not _is_contextvar(cell):
            return
        if tag == "self-class" and self.shadowed_on_instances(m, c, first):
            return
        self.sites.append(Site(cell, node, f, how if not rest else f"{how} via .{'.'.join(rest)}"))

    def _resolve_root(self, m, f, bound, root: ast.Name, path: List[str], at_node, depth):
        """Yield ('cell', Cell, rest) | ('self-class'|'cls-class', module, ClassDef, path)
        | ('external', [name parts]) for the object ``root.path``."""
        if depth > 3:
            return
        name = root.id
        if name in bound or name in _comp_bound(root, f):
            # self / cls of the (possibly enclosing) method
            owner = f
            while owner is not None and not (isinstance(owner, FuncNode) and isinstance(getattr(owner, "_parent", None), ast.ClassDef)):
                owner = enclosing_function(owner)
            if (
                owner is not None and owner.args.args and owner.args.args[0].arg == name and name in ("self", "cls")
                and not any(norm(d) == "staticmethod" for d in owner.decorator_list)
            ):
                c = owner._parent  # type: ignore[attr-defined]
                is_cls = name == "cls" or any(norm(d) == "classmethod" for d in owner.decorator_list)
                p = list(path)
                if p and p[0] == "__class__":
                    p, is_cls = p[1:], True
                if p and p[0] == "[]":
                    return
                yield ("cls-class" if is_cls else "self-class", owner._module, c, p)  # type: ignore[attr-defined]
                return
            # default-argument container mutated through the parameter itself
            fn = f
            while fn is not None:
                if isinstance(fn, FuncNode) and name in _param_names(fn):
                    q = getattr(fn, "_qualname", fn.name)
                    cell = self.cells.get(f"{fn._module.relpath}::{q}({name})")  # type: ignore[attr-defined]
                    if cell is not None:
                        yield ("cell", cell, list(path))
                    break
                fn = enclosing_function(fn)
            # plain alias of a cell: follow reaching definitions of the local
            if isinstance(f, FuncNode) and name in _own_locals(f)[0]:
                yield from self._alias(m, f, bound, root, path, at_node, depth)
            return
        r = self.resolve_global(m, name, list(path))
        if r is None:
            return
        if r[0] == "cell":
            yield ("cell", r[1], r[2])
        elif r[0] == "class":
            yield ("cls-class", r[1], r[2], r[3])
        elif r[0] == "external":
            yield ("external", r[1])

    def _alias(self, m, f, bound, root, path, at_node, depth):
        # cheap pre-filter: is the local ever assigned from a pure name/attribute chain?
        cands = getattr(f, "_rs_alias_names", None)
        if cands is None:
            cands = set()
            for n in walk_local(f):
                val = tg = None
                if isinstance(n, ast.Assign) and len(n.targets) == 1:
                    tg, val = n.targets[0], n.value
                elif isinstance(n, ast.AnnAssign):
                    tg, val = n.target, n.value
                elif isinstance(n, ast.NamedExpr):
                    tg, val = n.target, n.value
                if isinstance(tg, ast.Name) and isinstance(val, (ast.Name, ast.Attribute, ast.Subscript)):
                    r, _ = chain_of(val)
                    # only chains that can start at a cell: a non-local name, or self / cls
                    if isinstance(r, ast.Name) and (r.id not in bound or r.id in ("self", "cls") or f"{m.relpath}::{getattr(f, '_qualname', '')}({r.id})" in self.cells):
                        cands.add(tg.id)
            f._rs_alias_names = cands  # type: ignore[attr-defined]
        if root.id not in cands:
            return
        try:
            cfg = cfg_of(f)
            at = at_node if isinstance(at_node, ast.stmt) else cfg.stmt_of(at_node)
            os_ = origins(cfg, root, at)
        except Exception:  # pragma: no cover - the alias step is best effort
            return
        for o in os_:
            if o.kind != "expr" or o.path or not isinstance(o.expr, (ast.Name, ast.Attribute, ast.Subscript)):
                continue
            r2, p2 = chain_of(o.expr)
            if not isinstance(r2, ast.Name) or r2.id == root.id:
                continue
            yield from self._resolve_root(m, f, bound, r2, p2 + list(path), o.stmt or at_node, depth + 1)

    # -- queries --------------------------------------------------------------------
    def sites_of(self, cell: Cell) -> List[Site]:
        return [s for s in self.sites if s.cell is cell]

    def mutated_cells(self) -> Dict[str, List[Site]]:
        out: Dict[str, List[Site]] = {}
        for s in self.sites:
            out.setdefault(s.cell.key, []).append(s)
        return out

    def containers(self) -> List[Cell]:
        return [c for c in self.cells.values() if c.container]


def _is_record_class(c: ast.ClassDef) -> bool:
    for d in c.decorator_list:
        t = d.func if isinstance(d, ast.Call) else d
        if norm(t).split(".")[-1] in ("dataclass", "define", "attrs", "s"):
            return True
    return any(norm(b).split(".")[-1] in ("NamedTuple", "TypedDict") for b in c.bases)


def _is_contextvar(cell: Cell) -> bool:
    return isinstance(cell.value, ast.Call) and norm(cell.value.func).split(".")[-1] == "ContextVar"


def inventory(repo: Repo) -> State:
    st = getattr(repo, "_rs_state", None)
    if st is None:
        st = State(repo)
        repo._rs_state = st  # type: ignore[attr-defined]
    return st
