"""Regex syntax trees for pattern literals taken from the source (DESIGN.md 2.8).

Built on the stdlib's own parser (``re._parser.parse``): the tree the ``re``
module would compile.  Nothing is ever matched against a string here; rules
reason about the *shape* of a pattern (first characters, character-class
membership, groups, back-references, look-behinds, finite languages).

A pattern the stdlib parser rejects (``regex``-module-only syntax, or a pattern
that is simply broken) is ``unknown``: :func:`parse` returns ``None`` and a
rule must never alarm on it (it counts it instead).
"""

from __future__ import annotations

import ast
import re
from typing import Iterator, List, Optional, Sequence, Set, Tuple

try:  # Python >= 3.11
    import re._parser as _p  # type: ignore
    import re._constants as _c  # type: ignore
except ImportError:  # pragma: no cover
    import sre_parse as _p  # type: ignore
    import sre_constants as _c  # type: ignore

LITERAL, NOT_LITERAL, IN, ANY = _c.LITERAL, _c.NOT_LITERAL, _c.IN, _c.ANY
BRANCH, SUBPATTERN = _c.BRANCH, _c.SUBPATTERN
MAX_REPEAT, MIN_REPEAT = _c.MAX_REPEAT, _c.MIN_REPEAT
POSSESSIVE_REPEAT = getattr(_c, "POSSESSIVE_REPEAT", None)
ATOMIC_GROUP = getattr(_c, "ATOMIC_GROUP", None)
ASSERT, ASSERT_NOT, AT = _c.ASSERT, _c.ASSERT_NOT, _c.AT
GROUPREF, GROUPREF_EXISTS = _c.GROUPREF, _c.GROUPREF_EXISTS
NEGATE, RANGE, CATEGORY = _c.NEGATE, _c.RANGE, _c.CATEGORY
MAXREPEAT = _c.MAXREPEAT
REPEATS = tuple(x for x in (MAX_REPEAT, MIN_REPEAT, POSSESSIVE_REPEAT) if x is not None)


class Pattern:
    """A parsed pattern: ``tree`` (SubPattern), ``groupdict`` and ``ngroups``."""

    def __init__(self, source: str, tree):
        self.source = source
        self.tree = tree
        self.groupdict = dict(tree.state.groupdict)
        self.ngroups = tree.state.groups - 1

    def items(self) -> list:
        return list(self.tree)


def parse(pattern: str, flags: int = 0) -> Optional[Pattern]:
    """Parse with the stdlib parser; ``None`` means *unknown* (never alarm)."""
    try:
        return Pattern(pattern, _p.parse(pattern, flags))
    except (re.error, RecursionError, OverflowError, ValueError, TypeError):
        return None


def pattern_literal(node: Optional[ast.AST]) -> Optional[str]:
    """The pattern text if ``node`` is a string constant (implicit concatenation
    is already folded by ``ast``); ``None`` for anything computed."""
    if isinstance(node, ast.Constant) and isinstance(node.value, str):
        return node.value
    return None


# ---------------------------------------------------------------------------
# single-character atoms
# ---------------------------------------------------------------------------


def _category(cat, ch: str) -> bool:
    name = str(cat)
    neg = "_NOT_" in name
    if "DIGIT" in name:
        r = ch.isdigit()
    elif "SPACE" in name:
        r = ch.isspace()
    elif "WORD" in name:
        r = ch.isalnum() or ch == "_"
    elif "LINEBREAK" in name:
        r = ch == "\n"
    else:  # pragma: no cover
        raise ValueError(f"unknown category {name}")
    return (not r) if neg else r


def class_admits(items: Sequence[Tuple], ch: str) -> bool:
    """Does the character class (the operand of an ``IN`` node) admit ``ch``?"""
    negate = False
    hit = False
    for op, av in items:
        if op is NEGATE:
            negate = True
        elif op is LITERAL:
            hit = hit or av == ord(ch)
        elif op is RANGE:
            hit = hit or av[0] <= ord(ch) <= av[1]
        elif op is CATEGORY:
            hit = hit or _category(av, ch)
        elif op is NOT_LITERAL:  # pragma: no cover
            hit = hit or av != ord(ch)
    return (not hit) if negate else hit


def atom_admits(op, av, ch: str) -> Optional[bool]:
    """Does a single-character atom admit ``ch``?  ``None``: not such an atom."""
    if op is LITERAL:
        return av == ord(ch)
    if op is NOT_LITERAL:
        return av != ord(ch)
    if op is ANY:
        return ch != "\n"
    if op is IN:
        return class_admits(av, ch)
    if op is CATEGORY:  # pragma: no cover
        return _category(av, ch)
    return None


def class_text(op, av) -> str:
    """Readable text of a single-character atom (for messages / finding keys)."""
    if op is LITERAL:
        return _ch(av)
    if op is NOT_LITERAL:
        return f"[^{_ch(av)}]"
    if op is ANY:
        return "."
    if op is IN:
        out = "["
        for o, a in av:
            if o is NEGATE:
                out += "^"
            elif o is LITERAL:
                out += _ch(a)
            elif o is RANGE:
                out += f"{_ch(a[0])}-{_ch(a[1])}"
            elif o is CATEGORY:
                out += {"CATEGORY_DIGIT": r"\d", "CATEGORY_NOT_DIGIT": r"\D", "CATEGORY_SPACE": r"\s", "CATEGORY_NOT_SPACE": r"\S",
                        "CATEGORY_WORD": r"\w", "CATEGORY_NOT_WORD": r"\W"}.get(str(a), str(a))
        return out + "]"
    return str(op)


def _ch(code: int) -> str:
    c = chr(code)
    if c.isprintable() and not c.isspace():
        return c
    return "\\x%02x" % code


# ---------------------------------------------------------------------------
# structure
# ---------------------------------------------------------------------------


def children(op, av) -> List[list]:
    """The sub-sequences of a node (each a list of ``(op, av)`` items)."""
    if op is SUBPATTERN:
        return [list(av[3])]
    if op in REPEATS:
        return [list(av[2])]
    if op is BRANCH:
        return [list(b) for b in av[1]]
    if op in (ASSERT, ASSERT_NOT):
        return [list(av[1])]
    if ATOMIC_GROUP is not None and op is ATOMIC_GROUP:
        return [list(av)]
    if op is GROUPREF_EXISTS:
        return [list(x) for x in av[1:] if x is not None]
    return []


def walk(items: Sequence[Tuple]) -> Iterator[Tuple]:
    """Every node below ``items`` (pre-order), look-arounds included."""
    for op, av in items:
        yield op, av
        for sub in children(op, av):
            yield from walk(sub)


def char_atoms(items: Sequence[Tuple], *, into_assertions: bool = False) -> Iterator[Tuple]:
    """All consuming single-character atoms below ``items``."""
    for op, av in items:
        if op in (ASSERT, ASSERT_NOT) and not into_assertions:
            continue
        if op in (LITERAL, NOT_LITERAL, ANY, IN):
            yield op, av
        for sub in children(op, av):
            yield from char_atoms(sub, into_assertions=into_assertions)


def group(items: Sequence[Tuple], number: int) -> Optional[list]:
    """The body of capturing group ``number``."""
    for op, av in walk(items):
        if op is SUBPATTERN and av[0] == number:
            return list(av[3])
    return None


def backrefs(items: Sequence[Tuple]) -> Set[int]:
    out = set()
    for op, av in walk(items):
        if op is GROUPREF:
            out.add(av)
        elif op is GROUPREF_EXISTS:
            out.add(av[0])
    return out


def lookbehinds(items: Sequence[Tuple]) -> List[Tuple[bool, list]]:
    """Top-level look-behind assertions as ``(negative, body)``."""
    out = []
    for op, av in items:
        if op in (ASSERT, ASSERT_NOT) and av[0] == -1:
            out.append((op is ASSERT_NOT, list(av[1])))
    return out


def strip_leading_assertions(items: Sequence[Tuple]) -> Tuple[list, list]:
    """(leading zero-width items, rest) of a top-level sequence."""
    items = list(items)
    i = 0
    while i < len(items) and items[i][0] in (ASSERT, ASSERT_NOT, AT):
        i += 1
    return items[:i], items[i:]


# ---------------------------------------------------------------------------
# first characters / nullability
# ---------------------------------------------------------------------------


def nullable(items: Sequence[Tuple]) -> bool:
    for op, av in items:
        if op in (ASSERT, ASSERT_NOT, AT):
            continue
        if op in (LITERAL, NOT_LITERAL, ANY, IN):
            return False
        if op in REPEATS:
            if av[0] == 0 or nullable(av[2]):
                continue
            return False
        if op is SUBPATTERN:
            if nullable(av[3]):
                continue
            return False
        if op is BRANCH:
            if any(nullable(b) for b in av[1]):
                continue
            return False
        if op in (GROUPREF, GROUPREF_EXISTS):
            continue  # may be empty
        if ATOMIC_GROUP is not None and op is ATOMIC_GROUP:
            if nullable(av):
                continue
            return False
        return False
    return True


def first_atoms(items: Sequence[Tuple]) -> Optional[List[Tuple]]:
    """Single-character atoms a match can start with; ``None`` when a
    back-reference makes that unknowable.  Use with :func:`atom_admits`."""
    out: List[Tuple] = []
    for op, av in items:
        if op in (ASSERT, ASSERT_NOT, AT):
            continue
        if op in (LITERAL, NOT_LITERAL, ANY, IN):
            out.append((op, av))
            return out
        if op in (GROUPREF, GROUPREF_EXISTS):
            return None
        subs = children(op, av)
        for sub in subs:
            f = first_atoms(sub)
            if f is None:
                return None
            out += f
        if not nullable([(op, av)]):
            return out
    return out


def may_start_with(items: Sequence[Tuple], ch: str) -> Optional[bool]:
    f = first_atoms(items)
    if f is None:
        return None
    return any(atom_admits(op, av, ch) for op, av in f)


# ---------------------------------------------------------------------------
# finite languages
# ---------------------------------------------------------------------------


def finite_language(items: Sequence[Tuple], limit: int = 256) -> Optional[Set[str]]:
    """The set of strings matched when the pattern is a finite, assertion-free
    combination of literals, *positive* classes of literals/small ranges,
    alternation, groups and bounded repeats; ``None`` otherwise."""
    acc: Set[str] = {""}
    for op, av in items:
        part = _finite_item(op, av, limit)
        if part is None:
            return None
        acc = {a + b for a in acc for b in part}
        if len(acc) > limit:
            return None
    return acc


def _finite_item(op, av, limit: int) -> Optional[Set[str]]:
    if op is LITERAL:
        return {chr(av)}
    if op is IN:
        out: Set[str] = set()
        for o, a in av:
            if o is LITERAL:
                out.add(chr(a))
            elif o is RANGE and a[1] - a[0] < 64:
                out.update(chr(x) for x in range(a[0], a[1] + 1))
            else:
                return None
        return out
    if op is SUBPATTERN:
        if av[1] or av[2]:  # inline flags
            return None
        return finite_language(av[3], limit)
    if op is BRANCH:
        out = set()
        for b in av[1]:
            s = finite_language(b, limit)
            if s is None:
                return None
            out |= s
        return out
    if op in REPEATS:
        lo, hi, body = av
        if hi is MAXREPEAT or hi > 4:
            return None
        base = finite_language(body, limit)
        if base is None:
            return None
        out = set()
        cur = {""}
        for n in range(0, hi + 1):
            if n >= lo:
                out |= cur
            cur = {a + b for a in cur for b in base}
            if len(cur) > limit:
                return None
        return out
    return None
