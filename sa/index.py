"""Source model: every python file of the analysed tree parsed with ``ast``.

DESIGN.md 2.1.  Anchors are always looked up by qualified name / role; a
missing anchor raises :class:`AnalysisError` (exit 2), never a silent pass.
"""

from __future__ import annotations

import ast
import hashlib
import os
from typing import Dict, Iterator, List, Optional, Tuple


class AnalysisError(Exception):
    """The analysis itself could not be carried out (exit 2, never a violation)."""


FuncNode = (ast.FunctionDef, ast.AsyncFunctionDef)


def norm(node: ast.AST) -> str:
    """Normalised text of a node (position independent, formatting independent)."""
    try:
        return ast.unparse(node)
    except Exception:  # pragma: no cover
        return ast.dump(node)


def short(node: ast.AST, n: int = 110) -> str:
    s = " ".join(norm(node).split())
    return s if len(s) <= n else s[: n - 3] + "..."


class Module:
    def __init__(self, root: str, relpath: str, text: str):
        self.root = root
        self.relpath = relpath  # relative to root, e.g. src/sqlfluff/core/linter/linter.py
        self.text = text
        self.tree = ast.parse(text, filename=relpath)
        self.dotted = _dotted(relpath)
        self.imports: Dict[str, str] = {}  # local name -> fully qualified name
        self.defs: Dict[str, ast.AST] = {}  # qualname (within module) -> node
        self._link()

    def _link(self) -> None:
        pkg = self.dotted.rsplit(".", 1)[0] if "." in self.dotted else ""
        is_pkg = self.relpath.endswith("__init__.py")
        for node in ast.walk(self.tree):
            for child in ast.iter_child_nodes(node):
                child._parent = node  # type: ignore[attr-defined]
                child._module = self  # type: ignore[attr-defined]
        self.tree._parent = None  # type: ignore[attr-defined]
        self.tree._module = self  # type: ignore[attr-defined]
        for node in ast.walk(self.tree):
            if isinstance(node, ast.Import):
                for a in node.names:
                    self.imports[a.asname or a.name.split(".")[0]] = (
                        a.name if a.asname else a.name.split(".")[0]
                    )
            elif isinstance(node, ast.ImportFrom):
                base = node.module or ""
                if node.level:
                    parts = (self.dotted if is_pkg else pkg).split(".")
                    up = node.level - 1
                    if up:
                        parts = parts[:-up]
                    base = ".".join(parts + ([node.module] if node.module else []))
                for a in node.names:
                    self.imports[a.asname or a.name] = f"{base}.{a.name}"
        self._collect(self.tree, "")

    def _collect(self, node: ast.AST, prefix: str) -> None:
        for child in ast.iter_child_nodes(node):
            if isinstance(child, FuncNode + (ast.ClassDef,)):
                q = f"{prefix}{child.name}"
                # Keep the first definition unless it is an overload/conditional twin.
                self.defs.setdefault(q, child)
                child._qualname = q  # type: ignore[attr-defined]
                self._collect(child, q + ".")
            elif isinstance(
                child,
                (ast.If, ast.Try, ast.With, ast.For, ast.While),
            ):
                self._collect(child, prefix)

    # ------------------------------------------------------------------
    def get(self, qualname: str) -> ast.AST:
        if qualname not in self.defs:
            raise AnalysisError(
                f"anchor not found: {self.relpath}::{qualname} (renamed or removed?)"
            )
        return self.defs[qualname]

    def has(self, qualname: str) -> bool:
        return qualname in self.defs

    def functions(self) -> Iterator[Tuple[str, ast.AST]]:
        for q, n in self.defs.items():
            if isinstance(n, FuncNode):
                yield q, n

    def classes(self) -> Iterator[Tuple[str, ast.ClassDef]]:
        for q, n in self.defs.items():
            if isinstance(n, ast.ClassDef):
                yield q, n

    def loc(self, node: ast.AST) -> str:
        return f"{self.relpath}:{getattr(node, 'lineno', 0)}"


def _dotted(relpath: str) -> str:
    p = relpath
    if p.startswith("src/"):
        p = p[4:]
    elif p.startswith("plugins/"):
        parts = p.split("/")
        # plugins/<dist>/<pkg>/... or plugins/<dist>/src/<pkg>/...
        parts = parts[2:]
        if parts and parts[0] == "src":
            parts = parts[1:]
        p = "/".join(parts)
    p = p[:-3]
    if p.endswith("/__init__"):
        p = p[: -len("/__init__")]
    return p.replace("/", ".")


# Parsed modules are immutable for the analyses (only caches are attached to
# nodes), so repos that differ in one overlaid file share the other modules.
_PARSE_CACHE: Dict[tuple, "Module"] = {}


class Repo:
    """All analysed modules of one source tree."""

    SCOPES = ("src/sqlfluff", "plugins")

    def __init__(self, root: str = "/repo", overlay: Optional[Dict[str, str]] = None):
        """``overlay`` maps relative paths to replacement text (self-test variants:
        the analysed program is the tree at ``root`` with these files substituted)."""
        self.root = os.path.abspath(root)
        self.overlay = dict(overlay or {})
        self.modules: Dict[str, Module] = {}
        self.by_dotted: Dict[str, Module] = {}
        h = hashlib.sha256()
        n_lines = 0
        for scope in self.SCOPES:
            top = os.path.join(self.root, scope)
            if not os.path.isdir(top):
                raise AnalysisError(f"source scope missing: {top}")
            for dirpath, dirnames, filenames in os.walk(top):
                dirnames[:] = sorted(
                    d
                    for d in dirnames
                    if d not in ("__pycache__", "test", "tests", ".git")
                    and not d.endswith(".egg-info")
                )
                for fn in sorted(filenames):
                    if not fn.endswith(".py"):
                        continue
                    full = os.path.join(dirpath, fn)
                    rel = os.path.relpath(full, self.root)
                    if rel in self.overlay:
                        text = self.overlay[rel]
                    else:
                        with open(full, encoding="utf-8") as f:
                            text = f.read()
                    h.update(rel.encode())
                    h.update(text.encode())
                    n_lines += text.count("\n")
                    ck = (self.root, rel, hashlib.sha256(text.encode()).digest())
                    m = _PARSE_CACHE.get(ck)
                    if m is None:
                        try:
                            m = Module(self.root, rel, text)
                        except SyntaxError as e:
                            raise AnalysisError(f"cannot parse {rel}: {e}")
                        _PARSE_CACHE[ck] = m
                    self.modules[rel] = m
                    self.by_dotted[m.dotted] = m
        self.digest = h.hexdigest()
        self.n_lines = n_lines
        self._class_index: Optional[Dict[str, List[Tuple[Module, ast.ClassDef]]]] = None

    # ------------------------------------------------------------------
    def mod(self, relpath: str) -> Module:
        if relpath not in self.modules:
            raise AnalysisError(f"anchor module not found: {relpath}")
        return self.modules[relpath]

    def fn(self, relpath: str, qualname: str) -> ast.AST:
        node = self.mod(relpath).get(qualname)
        if not isinstance(node, FuncNode):
            raise AnalysisError(f"anchor {relpath}::{qualname} is not a function")
        return node

    def cls(self, relpath: str, qualname: str) -> ast.ClassDef:
        node = self.mod(relpath).get(qualname)
        if not isinstance(node, ast.ClassDef):
            raise AnalysisError(f"anchor {relpath}::{qualname} is not a class")
        return node

    def iter_modules(self, prefix: str = "") -> Iterator[Module]:
        for rel, m in self.modules.items():
            if rel.startswith(prefix):
                yield m

    # -- class hierarchy from source -----------------------------------
    def class_index(self) -> Dict[str, List[Tuple[Module, ast.ClassDef]]]:
        if self._class_index is None:
            idx: Dict[str, List[Tuple[Module, ast.ClassDef]]] = {}
            for m in self.modules.values():
                for q, c in m.classes():
                    idx.setdefault(c.name, []).append((m, c))
            self._class_index = idx
        return self._class_index

    def resolve_name(self, m: Module, name: str) -> Optional[Tuple[Module, ast.AST]]:
        """Resolve a (possibly dotted) local name to a definition in the tree."""
        head, _, rest = name.partition(".")
        if head in m.defs and not rest:
            return m, m.defs[head]
        if name in m.defs:
            return m, m.defs[name]
        fq = m.imports.get(head)
        if fq is None:
            return None
        if rest:
            fq = f"{fq}.{rest}"
        return self.resolve_fq(fq)

    def resolve_fq(self, fq: str, _depth: int = 0) -> Optional[Tuple[Module, ast.AST]]:
        if _depth > 8:
            return None
        parts = fq.split(".")
        for i in range(len(parts), 0, -1):
            modname = ".".join(parts[:i])
            m = self.by_dotted.get(modname)
            if m is None:
                continue
            rest = ".".join(parts[i:])
            if not rest:
                return m, m.tree
            if rest in m.defs:
                return m, m.defs[rest]
            head = rest.split(".")[0]
            if head in m.imports:  # re-export
                tail = rest[len(head) :]
                return self.resolve_fq(m.imports[head] + tail, _depth + 1)
            return None
        return None

    def bases(self, m: Module, c: ast.ClassDef) -> List[Tuple[Module, ast.ClassDef]]:
        out = []
        for b in c.bases:
            if isinstance(b, ast.Subscript):
                b = b.value
            r = self.resolve_name(m, norm(b))
            if r and isinstance(r[1], ast.ClassDef):
                out.append((r[0], r[1]))
        return out

    def mro(self, m: Module, c: ast.ClassDef) -> List[Tuple[Module, ast.ClassDef]]:
        """Linearised ancestors (depth-first, duplicates removed; enough for lookups)."""
        seen, out = set(), []

        def go(mm: Module, cc: ast.ClassDef) -> None:
            if id(cc) in seen:
                return
            seen.add(id(cc))
            out.append((mm, cc))
            for bm, bc in self.bases(mm, cc):
                go(bm, bc)

        go(m, c)
        return out

    def subclasses_of(self, base_name: str) -> List[Tuple[Module, ast.ClassDef]]:
        """All classes whose source MRO contains a class named ``base_name``."""
        out = []
        for m in self.modules.values():
            for q, c in m.classes():
                if any(cc.name == base_name for _, cc in self.mro(m, c)):
                    out.append((m, c))
        return out

    def lookup_method(
        self, m: Module, c: ast.ClassDef, name: str
    ) -> Optional[Tuple[Module, ast.AST]]:
        for mm, cc in self.mro(m, c):
            for item in cc.body:
                if isinstance(item, FuncNode) and item.name == name:
                    return mm, item
        return None


# -- generic helpers over ast nodes ---------------------------------------


def parent(node: ast.AST) -> Optional[ast.AST]:
    return getattr(node, "_parent", None)


def module_of(node: ast.AST) -> Module:
    return node._module  # type: ignore[attr-defined]


def enclosing_function(node: ast.AST) -> Optional[ast.AST]:
    p = parent(node)
    while p is not None and not isinstance(p, FuncNode + (ast.Lambda,)):
        p = parent(p)
    return p


def enclosing_class(node: ast.AST) -> Optional[ast.ClassDef]:
    p = parent(node)
    while p is not None and not isinstance(p, ast.ClassDef):
        p = parent(p)
    return p


def enclosing_stmt(node: ast.AST) -> ast.stmt:
    p = node
    while p is not None and not isinstance(p, ast.stmt):
        p = parent(p)
    return p  # type: ignore[return-value]


def qualname(node: ast.AST) -> str:
    return getattr(node, "_qualname", getattr(node, "name", "<lambda>"))


def where(node: ast.AST) -> str:
    m = module_of(node)
    f = node if isinstance(node, FuncNode + (ast.ClassDef,)) else enclosing_function(node)
    fq = qualname(f) if f is not None else "<module>"
    return f"{m.relpath}:{getattr(node, 'lineno', 0)} in {fq}"


def call_name(call: ast.Call) -> str:
    """Dotted text of the callee expression ('' if not a plain name/attribute chain)."""
    f = call.func
    parts = []
    while isinstance(f, ast.Attribute):
        parts.append(f.attr)
        f = f.value
    if isinstance(f, ast.Name):
        parts.append(f.id)
        return ".".join(reversed(parts))
    if isinstance(f, ast.Call):
        inner = call_name(f)
        return inner + "()." + ".".join(reversed(parts)) if parts else inner + "()"
    return "?." + ".".join(reversed(parts)) if parts else ""


def last_attr(call: ast.Call) -> str:
    f = call.func
    if isinstance(f, ast.Attribute):
        return f.attr
    if isinstance(f, ast.Name):
        return f.id
    return ""


def calls_in(node: ast.AST, *, into_nested: bool = False) -> Iterator[ast.Call]:
    """All call expressions below ``node`` (by default not entering nested defs)."""
    stack = list(ast.iter_child_nodes(node))
    while stack:
        n = stack.pop()
        if not into_nested and isinstance(n, FuncNode + (ast.ClassDef, ast.Lambda)):
            continue
        if isinstance(n, ast.Call):
            yield n
        stack.extend(ast.iter_child_nodes(n))


def walk_local(node: ast.AST) -> Iterator[ast.AST]:
    """ast.walk that does not enter nested function/class definitions."""
    stack = list(ast.iter_child_nodes(node))
    while stack:
        n = stack.pop()
        yield n
        if isinstance(n, FuncNode + (ast.ClassDef, ast.Lambda)):
            continue
        stack.extend(ast.iter_child_nodes(n))


def kwarg(call: ast.Call, name: str) -> Optional[ast.expr]:
    for k in call.keywords:
        if k.arg == name:
            return k.value
    return None


def arg_of(call: ast.Call, pos: int, name: str) -> Optional[ast.expr]:
    """Argument by position or keyword."""
    v = kwarg(call, name)
    if v is not None:
        return v
    if pos is not None and pos < len(call.args) and not any(
        isinstance(a, ast.Starred) for a in call.args[: pos + 1]
    ):
        return call.args[pos]
    return None


def const(node: Optional[ast.AST]):
    if isinstance(node, ast.Constant):
        return node.value
    return None
