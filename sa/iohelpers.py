"""Shared facts about file I/O in the analysed tree (used by C26, C11, C34).

* ``fq(call)``            fully qualified callee name through the module's imports
* ``write_kind(call)``    classifies a call as write-capable on the filesystem
* ``Writer``              the *replacing function* of ``LintedFile`` found by role,
                          its temp-file protocol objects and its callers
* small def-use helpers on top of ``sa.cfg.origins``
"""

from __future__ import annotations

import ast
import re
from typing import Dict, Iterator, List, Optional, Tuple

from .cfg import Branch, CFG, cfg_of, origins
from .index import (
    AnalysisError,
    FuncNode,
    arg_of,
    call_name,
    calls_in,
    const,
    enclosing_class,
    enclosing_function,
    kwarg,
    last_attr,
    module_of,
    norm,
    parent,
    walk_local,
)

LINTED_FILE = "src/sqlfluff/core/linter/linted_file.py"
LINTER = "src/sqlfluff/core/linter/linter.py"
RUNNER = "src/sqlfluff/core/linter/runner.py"
COMMON = "src/sqlfluff/core/linter/common.py"

BUILTIN_EXC = {"BaseException", "Exception", "RuntimeError", "OSError", "IOError", "ValueError", "TypeError"}


# ---------------------------------------------------------------------------
# names
# ---------------------------------------------------------------------------


def fq_name(dotted: str, module) -> str:
    """Resolve the head of a dotted name through the module's imports."""
    if not dotted:
        return dotted
    head, sep, rest = dotted.partition(".")
    if head in module.defs and not isinstance(module.defs[head], ast.ClassDef):
        return dotted  # local function shadows
    tgt = module.imports.get(head)
    if tgt is None:
        return dotted
    return tgt + (sep + rest if rest else "")


def fq(call: ast.Call) -> str:
    return fq_name(call_name(call), module_of(call))


def fq_expr(e: ast.AST) -> str:
    """Dotted + import-resolved text of a Name/Attribute chain ('' otherwise)."""
    parts = []
    f = e
    while isinstance(f, ast.Attribute):
        parts.append(f.attr)
        f = f.value
    if isinstance(f, ast.Name):
        parts.append(f.id)
        return fq_name(".".join(reversed(parts)), module_of(e))
    return ""


def root_name(e: ast.AST) -> Optional[ast.Name]:
    """``tmp`` for ``tmp.file.write`` / ``tmp.fileno()`` / ``tmp[0].x``."""
    while True:
        if isinstance(e, ast.Attribute):
            e = e.value
        elif isinstance(e, ast.Call):
            e = e.func
        elif isinstance(e, ast.Subscript):
            e = e.value
        else:
            break
    return e if isinstance(e, ast.Name) else None


def ancestors(node: ast.AST) -> Iterator[ast.AST]:
    p = parent(node)
    while p is not None:
        yield p
        p = parent(p)


def inside(node: ast.AST, container: ast.AST) -> bool:
    return any(a is container for a in ancestors(node))


def in_block(node: ast.AST, block: List[ast.stmt]) -> bool:
    """Is node (transitively) inside one of the statements of ``block``?"""
    for s in block:
        if node is s or inside(node, s):
            return True
    return False


def branch_node(cfg: CFG, stmt: ast.AST, polarity: bool) -> Optional[Branch]:
    for n in cfg.nodes:
        if isinstance(n, Branch) and n.stmt is stmt and n.polarity is polarity:
            return n
    return None


# ---------------------------------------------------------------------------
# write-capable calls
# ---------------------------------------------------------------------------

TEMP_CREATORS = {
    "tempfile.NamedTemporaryFile", "tempfile.TemporaryFile", "tempfile.SpooledTemporaryFile",
    "tempfile.mkstemp", "tempfile.mkdtemp", "tempfile.TemporaryDirectory",
}
MOVERS = {"shutil.move", "os.replace", "os.rename", "os.renames"}
SHUTIL_WRITERS = {
    "shutil.copy", "shutil.copy2", "shutil.copyfile", "shutil.copyfileobj", "shutil.copymode", "shutil.copystat",
    "shutil.copytree", "shutil.rmtree", "shutil.chown", "shutil.unpack_archive", "shutil.make_archive",
}
OS_WRITERS = {
    "os.remove", "os.unlink", "os.chmod", "os.lchmod", "os.fchmod", "os.chown", "os.lchown", "os.truncate",
    "os.ftruncate", "os.rmdir", "os.removedirs", "os.mkdir", "os.makedirs", "os.symlink", "os.link", "os.utime",
    "os.mkfifo", "os.write", "os.pwrite", "os.writev",
}
PATH_WRITE_METHODS = {
    "write_text", "write_bytes", "touch", "unlink", "rename", "rmdir", "mkdir", "symlink_to", "hardlink_to",
    "link_to", "chmod", "lchmod",
}
_MODE_RE = re.compile(r"^[rwaxbtU+]+$")


def _mode_writes(mode) -> Optional[bool]:
    if mode is None:
        return False
    if isinstance(mode, str):
        return any(c in mode for c in "wax+")
    return None


def write_kind(call: ast.Call) -> Optional[str]:
    """Category of a write-capable filesystem call, else None.

    open-like calls with a constant read-only (or absent) mode are not writes;
    a non-constant mode is treated as write-capable.
    """
    name = fq(call)
    m = module_of(call)
    if name == "open" and "open" not in m.defs:
        mode_e = arg_of(call, 1, "mode")
        w = True if (mode_e is not None and not isinstance(mode_e, ast.Constant)) else _mode_writes(const(mode_e))
        return "open(w)" if w or w is None else None
    if name in ("io.open", "codecs.open", "os.fdopen", "io.FileIO"):
        mode_e = arg_of(call, 1, "mode")
        w = True if (mode_e is not None and not isinstance(mode_e, ast.Constant)) else _mode_writes(const(mode_e))
        return f"{name}(w)" if w or w is None else None
    if name == "os.open":
        flags = norm(call.args[1]) if len(call.args) > 1 else ""
        if any(f in flags for f in ("O_WRONLY", "O_RDWR", "O_CREAT", "O_APPEND", "O_TRUNC")) or "O_RDONLY" not in flags:
            return "os.open(w)"
        return None
    if name in TEMP_CREATORS:
        return name
    if name in MOVERS or name in SHUTIL_WRITERS or name in OS_WRITERS:
        return name
    if name.startswith("logging.") and (name.endswith("FileHandler") or (name == "logging.basicConfig" and kwarg(call, "filename") is not None)):
        return name
    if isinstance(call.func, ast.Attribute):
        la = call.func.attr
        head = name.split(".")[0]
        if head in ("os", "shutil", "tempfile", "stat"):
            return None
        if la in PATH_WRITE_METHODS:
            return f"Path.{la}"
        if la == "open":
            mode_e = kwarg(call, "mode")
            if mode_e is None and call.args and isinstance(call.args[0], ast.Constant) and isinstance(call.args[0].value, str) and _MODE_RE.match(call.args[0].value):
                mode_e = call.args[0]
            if mode_e is None:
                return None
            if not isinstance(mode_e, ast.Constant):
                return "Path.open(w)"
            return "Path.open(w)" if _mode_writes(mode_e.value) else None
        if la == "replace" and isinstance(call.func.value, ast.Call) and fq(call.func.value) in ("pathlib.Path", "Path"):
            return "Path.replace"
    return None


def write_target(call: ast.Call) -> Optional[ast.expr]:
    """The expression naming the file a write-capable call acts on (best effort)."""
    name = fq(call)
    if name in MOVERS or name in ("shutil.copy", "shutil.copy2", "shutil.copyfile", "shutil.copymode", "shutil.copystat", "shutil.copytree"):
        return arg_of(call, 1, "dst")
    if name in TEMP_CREATORS:
        return kwarg(call, "dir")
    if isinstance(call.func, ast.Attribute) and name.split(".")[0] not in ("os", "shutil", "io", "codecs"):
        return call.func.value
    return call.args[0] if call.args else None


def all_calls(module) -> List[ast.Call]:
    """Every call expression of a module (cached on the immutable Module object)."""
    c = getattr(module, "_all_calls", None)
    if c is None:
        c = [n for n in ast.walk(module.tree) if isinstance(n, ast.Call)]
        module._all_calls = c
    return c


# ---------------------------------------------------------------------------
# def-use helpers
# ---------------------------------------------------------------------------


def orig(cfg: CFG, e: ast.expr, at=None):
    if at is None:
        at = cfg.stmt_of(e)
    return origins(cfg, e, at)


def param_of(cfg: CFG, e: Optional[ast.expr], at=None) -> Optional[str]:
    """Name of the single parameter ``e`` derives from (pure renaming chain), else None."""
    if e is None:
        return None
    os_ = orig(cfg, e, at)
    if not os_ or any(o.kind != "param" or o.path for o in os_):
        return None
    names = {o.expr.arg for o in os_}
    return names.pop() if len(names) == 1 else None


def params(fn) -> List[str]:
    a = fn.args
    return [x.arg for x in a.posonlyargs + a.args + a.kwonlyargs]


def decorator_names(fn) -> List[str]:
    out = []
    for d in fn.decorator_list:
        t = d.func if isinstance(d, ast.Call) else d
        out.append(fq_expr(t))
    return out


def is_static(fn) -> bool:
    return "staticmethod" in decorator_names(fn)


def map_args(call: ast.Call, fn) -> Dict[str, ast.expr]:
    """Map the arguments of ``call`` to the parameter names of method ``fn``
    (bound call through self/cls/ClassName; static methods take no receiver)."""
    ps = [x.arg for x in fn.args.posonlyargs + fn.args.args]
    if not is_static(fn) and ps and ps[0] in ("self", "cls"):
        ps = ps[1:]
    out: Dict[str, ast.expr] = {}
    for i, a in enumerate(call.args):
        if isinstance(a, ast.Starred):
            break
        if i < len(ps):
            out[ps[i]] = a
    for k in call.keywords:
        if k.arg:
            out[k.arg] = k.value
    return out


def is_self_attr(e: ast.AST, attr: str) -> bool:
    return isinstance(e, ast.Attribute) and e.attr == attr and isinstance(e.value, ast.Name) and e.value.id == "self"


# ---------------------------------------------------------------------------
# The replacing function of LintedFile, by role
# ---------------------------------------------------------------------------


class Writer:
    """Facts about how ``LintedFile`` writes a fixed file.

    ``fn``          the method of LintedFile that renames a file into place (role:
                    calls shutil.move / os.replace / os.rename); None if there is none
    ``writers``     every method of LintedFile containing a write-capable call
    ``callers``     (function, call) pairs calling ``fn`` anywhere in the tree
    ``persist``     the LintedFile method(s) among the callers (role: persist_tree)
    """

    def __init__(self, repo):
        self.repo = repo
        self.mod = repo.mod(LINTED_FILE)
        self.cls = repo.cls(LINTED_FILE, "LintedFile")
        self.methods = [n for n in self.cls.body if isinstance(n, FuncNode)]
        self.writers = [f for f in self.methods if any(write_kind(c) for c in calls_in(f))]
        movers = [f for f in self.methods if any(fq(c) in MOVERS for c in calls_in(f))]
        self.fns = movers
        self.fn = movers[0] if len(movers) == 1 else None
        self.callers: List[Tuple[ast.AST, ast.Call]] = []
        self.persist: List[ast.AST] = []
        if self.fn is not None:
            for m in repo.modules.values():
                for c in all_calls(m):
                    if last_attr(c) == self.fn.name and isinstance(c.func, (ast.Attribute, ast.Name)):
                        f = enclosing_function(c)
                        self.callers.append((f, c))
                        if f is not None and enclosing_class(f) is self.cls and f not in self.persist:
                            self.persist.append(f)
            self._protocol()

    # -- the temp-file protocol objects of fn --------------------------------
    def _protocol(self) -> None:
        f = self.fn
        self.cfg = cfg_of(f)
        calls = list(calls_in(f))
        self.moves = [c for c in calls if fq(c) in MOVERS]
        self.temps = [c for c in calls if fq(c) in TEMP_CREATORS]
        self.temp = self.temps[0] if len(self.temps) == 1 else None
        self.with_stmt = None
        self.tmp_var = None
        if self.temp is not None:
            for n in walk_local(f):
                if isinstance(n, ast.With):
                    for it in n.items:
                        if it.context_expr is self.temp and isinstance(it.optional_vars, ast.Name):
                            self.with_stmt, self.tmp_var = n, it.optional_vars.id
        self.out_param = None
        if self.moves:
            ps = {param_of(self.cfg, arg_of(m, 1, "dst"), self.cfg.stmt_of(m)) for m in self.moves}
            if len(ps) == 1:
                self.out_param = ps.pop()
        self.stats = [c for c in calls if fq(c) in ("os.stat", "os.lstat")]
        self.in_param = None
        ps = {param_of(self.cfg, c.args[0] if c.args else None, self.cfg.stmt_of(c)) for c in self.stats}
        if len(ps) == 1:
            self.in_param = ps.pop()
        self.enc_param = param_of(self.cfg, kwarg(self.temp, "encoding"), self.with_stmt) if self.temp is not None and self.with_stmt is not None else None

    # is ``e`` (evaluated at ``at``) the temp file object bound by the with?
    def is_tmp(self, e: ast.AST, at) -> bool:
        r = root_name(e)
        if r is None or self.with_stmt is None:
            return False
        os_ = origins(self.cfg, r, at)
        return bool(os_) and all(o.kind == "with" and o.stmt is self.with_stmt and o.expr is self.temp for o in os_)

    def is_tmp_name(self, e: Optional[ast.AST], at, allow_none: bool = False) -> bool:
        """``tmp.name`` or a local that can only hold it (or None when allowed)."""
        if e is None:
            return False
        os_ = origins(self.cfg, e, at) if isinstance(e, ast.Name) else None
        if os_ is None:
            return isinstance(e, ast.Attribute) and e.attr == "name" and self.is_tmp(e.value, at)
        seen_name = False
        for o in os_:
            x = o.expr
            if o.kind == "expr" and isinstance(x, ast.Attribute) and x.attr == "name" and not o.path and self.is_tmp(x.value, o.stmt):
                seen_name = True
            elif allow_none and o.kind == "expr" and isinstance(x, ast.Constant) and x.value is None:
                continue
            else:
                return False
        return seen_name

    def from_param(self, e: Optional[ast.AST], at, pname: Optional[str]) -> bool:
        return pname is not None and param_of(self.cfg, e, at) == pname


def qual(fn) -> str:
    m = module_of(fn)
    return f"{m.relpath}::{getattr(fn, '_qualname', getattr(fn, 'name', '?'))}"


def returns_of(fn) -> List[ast.Return]:
    return [n for n in walk_local(fn) if isinstance(n, ast.Return)]


def require_anchor(cond: bool, what: str) -> None:
    if not cond:
        raise AnalysisError(what)
