"""FIRST / EPS analysis of the serialised dialect grammars for hint soundness (R06c).

Works on :class:`sa.grammar.DialectGraph` only (plain data).  It refines
``sa.grammar_analyses.FirstSets`` (kept as it is; C03 and others import that module) by a
second attribute, ``EPS``, and by letting a sequence look past an element that can match
without consuming a token.

Model (what ``match`` of each matcher kind does on a *fresh token stream*, i.e. raw lexer
tokens only; a token is described by its upper-cased raw and its set of types):

``FIRST(n)``  the set of tokens that can be the first token *consumed by a leaf matcher*
              in a truthy match of ``n`` (raws, types, or ANY = not describable).
``EPS(n)``    ``n`` can return a truthy match of length zero (inserts only).

===============================  ============================================  ==================
kind                             FIRST                                         EPS
===============================  ============================================  ==================
StringParser / MultiStringParser {template(s), upper-cased}                    no
TypedParser                      {template} as a type                          no
RegexParser, other matchers      ANY                                           no
Anything                         ANY                                           no
Nothing                          {}                                            no
meta class / Conditional         {} (never consume)                            yes (buffered insert)
Ref                              FIRST(target)                                 EPS(target)
segment class with grammar       FIRST(match_grammar)                          EPS(match_grammar)
segment class, own ``match``     ANY (BracketedSegment: persistent starts)     no
Sequence                         union over the leading elements: metas and    every non-meta element
                                 Conditionals skipped, stop after the first    optional-or-EPS and some
                                 element that is neither optional nor EPS      element is meta/Cond/EPS
Bracketed                        FIRST(start_bracket override, else the        no
                                 dialect's start bracket of ``bracket_type``)
AnyNumberOf family, Delimited    union over the elements                       no (longest_match only
                                                                               keeps matches with length)
===============================  ============================================  ==================

The unparsable claim of a GREEDY / GREEDY_ONCE_STARTED sequence is *not* a consumed-by-a-leaf
match and is left out on purpose (such a claim is subject to pruning by design).
"""

from __future__ import annotations

from typing import List, Optional, Tuple

from .grammar import DialectGraph, field
from .grammar_analyses import ANY_FIRST, EMPTY_FIRST, First, Kinds, sccs


class FirstEps:
    """FIRST(node) and EPS(node) for every node of one dialect (fixpoints over SCCs)."""

    def __init__(self, d: DialectGraph, kinds: Kinds):
        self.d = d
        self.kinds = kinds
        self.nodes = d.nodes
        n = len(self.nodes)
        self.role = [kinds.role(x) for x in self.nodes]
        self.evaluations = 0
        self.persistent_starts: List[int] = []
        for ent in d.bracket_sets.get("bracket_pairs", ()):
            if ent[3] and ent[1] in d.library:
                self.persistent_starts.append(d.library[ent[1]])
        self.is_bracketed_segment = [
            r == "segment" and bool(x.get("own_match")) and "BracketedSegment" in (x.get("bases") or ())
            for r, x in zip(self.role, self.nodes)
        ]
        # ---- EPS ---------------------------------------------------------------------
        self.eps: List[bool] = [False] * n
        esucc = [self._eps_edges(i) for i in range(n)]
        for comp in sccs(n, lambda i: esucc[i]):
            cyclic = len(comp) > 1 or comp[0] in esucc[comp[0]]
            while True:
                changed = False
                for i in comp:
                    self.evaluations += 1
                    v = self._eps_transfer(i)
                    if v and not self.eps[i]:
                        self.eps[i] = True
                        changed = True
                if not cyclic or not changed:
                    break
        # ---- FIRST -------------------------------------------------------------------
        self._succ = [self._edges(i) for i in range(n)]
        self.first: List[First] = [EMPTY_FIRST] * n
        for comp in sccs(n, lambda i: self._succ[i]):
            cyclic = len(comp) > 1 or comp[0] in self._succ[comp[0]]
            while True:
                changed = False
                for i in comp:
                    self.evaluations += 1
                    v = self._transfer(i)
                    if v != self.first[i]:
                        self.first[i] = v
                        changed = True
                if not cyclic or not changed:
                    break

    # -- EPS -----------------------------------------------------------------------------
    def _eps_edges(self, i: int) -> Tuple[int, ...]:
        n = self.nodes[i]
        r = self.role[i]
        if r == "ref":
            t = self.d.library.get(n.get("ref"))
            return (t,) if t is not None else ()
        if r == "segment":
            mg = n.get("match_grammar")
            return (mg,) if mg is not None and not n.get("own_match") else ()
        if r == "sequence":
            return tuple(n.get("elements") or ())
        return ()

    def _eps_transfer(self, i: int) -> bool:
        r = self.role[i]
        n = self.nodes[i]
        if r in ("meta", "conditional"):
            return True
        if r in ("ref", "segment"):
            return any(self.eps[c] for c in self._eps_edges(i))
        if r == "sequence":
            some = False
            for e in n.get("elements") or ():
                er = self.role[e]
                if er in ("meta", "conditional"):
                    some = True
                    continue
                if self.eps[e]:
                    some = True
                    continue
                if field(self.nodes[e], "is_optional"):
                    continue
                return False
            return some
        return False

    # -- FIRST ---------------------------------------------------------------------------
    def leading(self, i: int) -> List[int]:
        """Elements of a sequence-like node that can provide its first consumed token."""
        out = []
        for e in self.nodes[i].get("elements") or ():
            er = self.role[e]
            if er in ("meta", "conditional"):
                continue
            out.append(e)
            if not field(self.nodes[e], "is_optional") and not self.eps[e]:
                break
        return out

    def effective_start(self, i: int) -> Optional[int]:
        n = self.nodes[i]
        if n.get("start_bracket") is not None:
            return n["start_bracket"]
        ent = self.d.bracket_entry(i)
        if ent is None:
            return None
        return self.d.library.get(ent[1])

    def _edges(self, i: int) -> Tuple[int, ...]:
        n = self.nodes[i]
        r = self.role[i]
        if r == "ref":
            t = self.d.library.get(n.get("ref"))
            return (t,) if t is not None else ()
        if r == "segment":
            if self.is_bracketed_segment[i]:
                return tuple(self.persistent_starts)
            mg = n.get("match_grammar")
            return (mg,) if mg is not None else ()
        if r == "sequence":
            return tuple(self.leading(i))
        if r == "bracketed":
            s = self.effective_start(i)
            return (s,) if s is not None else ()
        if r in ("delimited", "anynumberof"):
            return tuple(n.get("elements") or ())
        return ()

    def _transfer(self, i: int) -> First:
        n = self.nodes[i]
        r = self.role[i]
        if r == "parser":
            k = n["kind"]
            is_ = self.kinds.g.kind_is
            if is_(k, "MultiStringParser"):
                return First(frozenset(str(t).upper() for t in n.get("templates") or ()), frozenset(), False)
            if is_(k, "StringParser"):
                return First(frozenset((str(n.get("template")).upper(),)), frozenset(), False)
            if is_(k, "TypedParser"):
                return First(frozenset(), frozenset((n.get("template"),)), False)
            return ANY_FIRST
        if r in ("nothing", "meta", "conditional"):
            return EMPTY_FIRST
        if r == "segment":
            if self.is_bracketed_segment[i]:
                pass
            elif n.get("match_grammar") is None or n.get("own_match"):
                return ANY_FIRST
        if r in ("anything", "other", "unknown-grammar"):
            return ANY_FIRST
        s = self._succ[i]
        if r == "bracketed" and not s:
            return ANY_FIRST  # unresolvable bracket type: reported by C29, nothing to compare here
        if r == "ref" and not s:
            return EMPTY_FIRST  # dangling reference (C29): matching raises, nothing can start it
        out = EMPTY_FIRST
        for c in s:
            out = out.join(self.first[c])
            if out.any:
                break
        return out

    # -- comparison with a declared hint ---------------------------------------------------
    def uncovered(self, i: int, hint) -> Optional[Tuple[bool, List[str], List[str]]]:
        """None when ``hint`` covers FIRST(i); else (any, missing raws, missing types)."""
        f = self.first[i]
        if hint is None:
            return None
        if f.any:
            return True, [], []
        mr = sorted(f.raws - set(hint[0]))
        mt = sorted(f.types - set(hint[1]))
        if mr or mt:
            return False, mr, mt
        return None
