"""Guard inference for constant-index subscripts (used by C05 / R05e).

``judge(cx, subscript, module)`` decides whether ``X[k]`` / ``X[-k]`` (k a literal) is
*guarded*: some fact known at the subscript implies ``len(X) > k`` (``>= k`` for negative
indices).  It returns ``(idiom, explanation)`` or ``(None, why-not)``.

Idioms recognised (each one is a fact about the *same value*: same normalised text with the
same reaching definitions of every local name in it, plain-name copies followed; the receiver
must not be shrunk in place -- ``pop/remove/clear/del/attribute re-assignment`` -- between
the test and the subscript):

``try``            the subscript stands in a ``try`` whose handler catches IndexError /
                   LookupError / Exception and does not re-raise
``construction``   the value is built with enough elements: list/tuple display, string
                   constant, ``a + [x]``, ``x or [y]``, ``s.split(sep)`` (>= 1),
                   ``partition`` (3), ``splitext``/``divmod`` (2), ``Segments(a, b)``,
                   ``FunctionalContext(c).segment`` (1), a call / parameter annotated
                   ``tuple[A, B]``, through local definitions (every reaching one)
``branch``         a dominating ``if X`` / ``if not X: return`` / ``if len(X) > k`` /
                   ``len(X) == n`` / ``len(X) in (1, 2)`` / ``while X`` (real dominance on
                   the CFG, so early return / continue / raise forms are included); ``n =
                   len(X)`` held in a local is resolved
``for-loop``       the subscript is in the body of ``for .. in X`` / ``enumerate(X)``
``short-circuit``  ``X and X[0]``, ``not X or X[0]``, ``len(X) > 1 and X[1]``
``conditional-expression``  ``X[0] if X else None``
``comprehension``  a filter / iterable of the enclosing comprehension
``assert``         a dominating ``assert X`` / ``assert len(X) == 1`` (the failure is then an
                   AssertionError and not an IndexError: counted separately)
``derived``        truthiness of a value obtained from X through the utils.functional API
                   (``children/first/last/select/reversed/recursive_crawl/get/any``): these
                   return an empty result for an empty receiver, so a non-empty result
                   means X is non-empty (``y = X.children(..).first(); if y: X[0]``)
``mapped-equality``  ``[f(r) for r in X] == ["<", ">"]`` / ``not in [[..], [..]]``
``split-membership`` ``sep in s`` known and ``X = s.split(sep)``: two elements
``reflow-block``   ``B.segments[0|-1]`` with B statically a ReflowBlock (annotation,
                   ``cast``, ``isinstance`` fact, element of ``.iter_blocks()``); every
                   ReflowBlock is constructed with a one-element ``segments`` tuple (checked
                   by the caller through ``block_constructors``)
``crawler``        ``context.parent_stack[0|-1]`` in ``_eval`` of a rule whose crawler is a
                   ``SegmentSeekerCrawler`` over literal types that do not include the root
                   ("file"): every context it yields below the root has a parent
"""

from __future__ import annotations

import ast
from typing import Dict, List, Optional, Tuple

from .cfg import Branch, atoms, cfg_of, origins
from .index import (
    FuncNode,
    call_name,
    enclosing_class,
    enclosing_function,
    last_attr,
    norm,
    walk_local,
)

E_SCOPES = ("src/sqlfluff/rules/", "src/sqlfluff/utils/")
E_EXCLUDE = ("src/sqlfluff/utils/testing/",)

_SHRINK = {"pop", "remove", "clear", "popleft", "popitem"}
_IMPURE = {"next", "pop", "popleft", "popitem", "read", "readline", "readlines", "get_nowait", "send", "recv"}
_CATCH = {"IndexError", "LookupError", "Exception", "BaseException"}


def _const_index(s: ast.Subscript) -> Optional[int]:
    sl = s.slice
    if isinstance(sl, ast.Constant) and isinstance(sl.value, int) and not isinstance(sl.value, bool):
        return sl.value
    if (
        isinstance(sl, ast.UnaryOp)
        and isinstance(sl.op, ast.USub)
        and isinstance(sl.operand, ast.Constant)
        and isinstance(sl.operand.value, int)
        and not isinstance(sl.operand.value, bool)
    ):
        return -sl.operand.value
    return None


def _need(k: int) -> int:
    return k + 1 if k >= 0 else -k


def _real_function(n: ast.AST):
    """(innermost def, list of lambdas/comprehension scopes between)."""
    f = enclosing_function(n)
    while f is not None and isinstance(f, ast.Lambda):
        f = enclosing_function(f)
    return f


def _in_lambda(n: ast.AST, f) -> Optional[ast.Lambda]:
    p = getattr(n, "_parent", None)
    while p is not None and p is not f:
        if isinstance(p, ast.Lambda):
            return p
        p = getattr(p, "_parent", None)
    return None


def _in_try_catching(node: ast.AST, func: ast.AST, names: set) -> Optional[ast.ExceptHandler]:
    child, p = node, getattr(node, "_parent", None)
    while p is not None and p is not func:
        if isinstance(p, ast.Try) and child in p.body:
            for h in p.handlers:
                if h.type is None:
                    return h
                ts = list(h.type.elts) if isinstance(h.type, ast.Tuple) else [h.type]
                if any(norm(t).split(".")[-1] in names for t in ts):
                    return h
        if isinstance(p, FuncNode + (ast.Lambda, ast.ClassDef)):
            return None
        child, p = p, getattr(p, "_parent", None)
    return None


# ---------------------------------------------------------------------------
# annotations: fixed-arity tuples
# ---------------------------------------------------------------------------


def _tuple_arity(ann: Optional[ast.AST]) -> int:
    """Arity of ``tuple[A, B]`` / ``Tuple[A, B]`` (0 when not a fixed-arity tuple)."""
    if ann is None:
        return 0
    if isinstance(ann, ast.Constant) and isinstance(ann.value, str):
        try:
            ann = ast.parse(ann.value, mode="eval").body
        except SyntaxError:
            return 0
    if isinstance(ann, ast.Subscript) and norm(ann.value).split(".")[-1] in ("tuple", "Tuple"):
        sl = ann.slice
        elts = list(sl.elts) if isinstance(sl, ast.Tuple) else [sl]
        if any(isinstance(e, ast.Constant) and e.value is Ellipsis for e in elts):
            return 0
        return len(elts)
    return 0


def _elem_ann_arity(ann: Optional[ast.AST]) -> int:
    """``list[tuple[A, B]]`` / ``Sequence[Tuple[A, B]]`` / ``Iterator[tuple[..]]`` -> 2."""
    if ann is None:
        return 0
    if isinstance(ann, ast.Constant) and isinstance(ann.value, str):
        try:
            ann = ast.parse(ann.value, mode="eval").body
        except SyntaxError:
            return 0
    if isinstance(ann, ast.Subscript) and norm(ann.value).split(".")[-1] in (
        "list", "List", "Sequence", "Iterable", "Iterator", "Generator", "set", "Set", "frozenset", "deque",
    ):
        sl = ann.slice
        if isinstance(sl, ast.Tuple):  # Generator[Y, S, R]
            if norm(ann.value).split(".")[-1] != "Generator" or not sl.elts:
                return 0
            sl = sl.elts[0]
        return _tuple_arity(sl)
    return 0


class Ctx:
    """Per-run caches."""

    def __init__(self, repo):
        self.repo = repo
        self._by_name: Optional[Dict[str, List[ast.AST]]] = None
        self._shrunk: Dict[int, set] = {}
        self._rule_mros: Optional[list] = None

    def defs_named(self, name: str) -> List[ast.AST]:
        if self._by_name is None:
            idx: Dict[str, List[ast.AST]] = {}
            for m in self.repo.iter_modules("src/sqlfluff/"):
                for q, fn in m.functions():
                    idx.setdefault(fn.name, []).append(fn)
            self._by_name = idx
        return self._by_name.get(name, [])

    def ret_arity(self, call: ast.Call, m, f, of=_tuple_arity) -> int:
        """Fixed tuple arity of the value a call returns (``of=_elem_ann_arity``: of the
        elements of the collection it returns), from return annotations."""
        fn = call.func
        cands: List[ast.AST] = []
        if isinstance(fn, ast.Name):
            r = self.repo.resolve_name(m, fn.id)
            if r and isinstance(r[1], FuncNode):
                cands = [r[1]]
        elif isinstance(fn, ast.Attribute):
            if isinstance(fn.value, ast.Name) and fn.value.id in ("self", "cls"):
                c = enclosing_class(call)
                if c is not None:
                    r = self.repo.lookup_method(m, c, fn.attr)
                    if r:
                        cands = [r[1]]
            if not cands:
                # receiver class unknown: every method of that name in the tree must agree
                cands = self.defs_named(fn.attr)
        if not cands:
            return 0
        return min(of(c.returns) for c in cands)

    def rule_subclasses(self, c: ast.ClassDef) -> list:
        """Classes of rules/ whose source MRO contains ``c``."""
        if self._rule_mros is None:
            self._rule_mros = []
            for mm in self.repo.iter_modules("src/sqlfluff/rules/"):
                for q, cc in mm.classes():
                    self._rule_mros.append((mm, cc, [x for _, x in self.repo.mro(mm, cc)]))
        return [(mm, cc) for mm, cc, mro in self._rule_mros if any(x is c for x in mro)]

    def shrunk_names(self, f) -> set:
        """Texts of receivers that some statement of ``f`` may shrink in place."""
        s = self._shrunk.get(id(f))
        if s is None:
            s = set()
            for n in walk_local(f):
                if isinstance(n, ast.Call) and isinstance(n.func, ast.Attribute) and n.func.attr in _SHRINK:
                    s.add(norm(n.func.value))
                elif isinstance(n, ast.Delete):
                    for t in n.targets:
                        if isinstance(t, ast.Subscript):
                            s.add(norm(t.value))
                elif isinstance(n, ast.Subscript) and isinstance(n.ctx, ast.Store) and isinstance(n.slice, ast.Slice):
                    s.add(norm(n.value))
                elif isinstance(n, ast.Attribute) and isinstance(n.ctx, (ast.Store, ast.Del)):
                    s.add(norm(n))  # self.x = ... : not seen by the reaching definitions of local names
            self._shrunk[id(f)] = s
        return s

    def may_change(self, f, text: str) -> bool:
        """May some statement of ``f`` shrink / re-assign (a prefix of) the receiver ``text`` in place?"""
        return any(_affects(t, text) for t in self.shrunk_names(f))


def _affects(changed: str, text: str) -> bool:
    return text == changed or text.startswith(changed + ".") or text.startswith(changed + "[")


# ---------------------------------------------------------------------------
# length known by construction
# ---------------------------------------------------------------------------


def _comprehension_iter(name: ast.Name) -> Optional[ast.AST]:
    """The iterable a comprehension variable ranges over (``for x in ITER`` of an enclosing comprehension)."""
    p = getattr(name, "_parent", None)
    while p is not None and not isinstance(p, FuncNode + (ast.Lambda, ast.ClassDef, ast.Module)):
        if isinstance(p, (ast.ListComp, ast.SetComp, ast.GeneratorExp, ast.DictComp)):
            for g in p.generators:
                if isinstance(g.target, ast.Name) and g.target.id == name.id:
                    return g.iter
        p = getattr(p, "_parent", None)
    return None


def _elem_arity(cx: Ctx, e: ast.AST, cfg, at, f, m, depth: int = 0) -> int:
    """Fixed tuple arity of the *elements* of collection ``e`` (annotations only)."""
    if depth > 3:
        return 0
    if isinstance(e, ast.Call):
        if isinstance(e.func, ast.Name) and e.func.id in ("list", "tuple", "sorted", "reversed") and e.args:
            return _elem_arity(cx, e.args[0], cfg, at, f, m, depth + 1)
        return cx.ret_arity(e, m, f, of=_elem_ann_arity)
    if isinstance(e, ast.Name) and cfg is not None:
        best = None
        os_ = origins(cfg, e, at)
        if not os_:
            return 0
        for o in os_:
            if o.kind == "param" and not o.path:
                v = _elem_ann_arity(getattr(o.expr, "annotation", None))
            elif o.kind == "expr" and not o.path:
                if isinstance(o.stmt, ast.AnnAssign) and isinstance(o.stmt.target, ast.Name) and o.stmt.target.id == e.id:
                    v = _elem_ann_arity(o.stmt.annotation)
                else:
                    v = _elem_arity(cx, o.expr, cfg, o.stmt, f, m, depth + 1)
            elif o.kind == "aug":
                continue  # x += [...] keeps the declared element type
            else:
                v = 0
            best = v if best is None else min(best, v)
        return best or 0
    return 0


def _min_len(cx: Ctx, e: ast.AST, cfg, at, f, m, depth: int = 0) -> int:
    """Lower bound of ``len(e)`` that follows from how the value is built."""
    if depth > 5:
        return 0
    if isinstance(e, ast.Subscript) and _const_index(e) is not None:
        # an element of a collection annotated list[tuple[A, B]]
        return _elem_arity(cx, e.value, cfg, at, f, m)
    if isinstance(e, ast.Name):
        it = _comprehension_iter(e)
        if it is not None:
            return _elem_arity(cx, it, cfg, at, f, m)
    if isinstance(e, (ast.List, ast.Tuple)):
        n = 0
        for x in e.elts:
            if isinstance(x, ast.Starred):
                n += _min_len(cx, x.value, cfg, at, f, m, depth + 1)
            else:
                n += 1
        return n
    if isinstance(e, ast.Constant) and isinstance(e.value, (str, bytes)):
        return len(e.value)
    if isinstance(e, ast.BinOp) and isinstance(e.op, ast.Add):
        return _min_len(cx, e.left, cfg, at, f, m, depth + 1) + _min_len(cx, e.right, cfg, at, f, m, depth + 1)
    if isinstance(e, ast.IfExp):
        return min(_min_len(cx, e.body, cfg, at, f, m, depth + 1), _min_len(cx, e.orelse, cfg, at, f, m, depth + 1))
    if isinstance(e, ast.BoolOp) and isinstance(e.op, ast.Or):
        # the result is an earlier operand only when it is truthy (len >= 1)
        vals = [max(1, _min_len(cx, v, cfg, at, f, m, depth + 1)) for v in e.values[:-1]]
        vals.append(_min_len(cx, e.values[-1], cfg, at, f, m, depth + 1))
        return min(vals)
    if isinstance(e, ast.Attribute) and e.attr == "segment" and isinstance(e.value, ast.Call) and call_name(e.value) == "FunctionalContext":
        return 1  # FunctionalContext.segment == Segments(context.segment)
    if isinstance(e, ast.Call):
        name = last_attr(e)
        if isinstance(e.func, ast.Name) and name == "Segments":
            n = 0
            for x in e.args:
                n += _min_len(cx, x.value, cfg, at, f, m, depth + 1) if isinstance(x, ast.Starred) else 1
            return n
        if isinstance(e.func, ast.Attribute):
            if name in ("split", "rsplit"):
                sep = e.args[0] if e.args else next((k.value for k in e.keywords if k.arg == "sep"), None)
                if sep is not None and not (isinstance(sep, ast.Constant) and sep.value is None):
                    return 1  # str.split(sep) never returns an empty list
                return 0
            if name in ("partition", "rpartition"):
                return 3
            if name == "splitext":
                return 2
        if isinstance(e.func, ast.Name):
            if name in ("list", "tuple", "sorted", "reversed") and len(e.args) >= 1:
                return _min_len(cx, e.args[0], cfg, at, f, m, depth + 1)
            if name == "divmod":
                return 2
            if name == "cast" and len(e.args) == 2:
                return _min_len(cx, e.args[1], cfg, at, f, m, depth + 1)
        return cx.ret_arity(e, m, f)
    if isinstance(e, ast.Name) and cfg is not None:
        if cx.may_change(f, e.id):
            return 0
        best = None
        for o in origins(cfg, e, at):
            if o.kind == "param":
                v = 0 if o.path else _tuple_arity(getattr(o.expr, "annotation", None))
            elif o.kind == "expr" and not o.path:
                v = _min_len(cx, o.expr, cfg, o.stmt, f, m, depth + 1)
            elif o.kind == "for" and not o.path:
                v = _elem_arity(cx, o.expr, cfg, o.stmt, f, m)  # for t in <list[tuple[A, B]]>
            else:
                v = 0
            best = v if best is None else min(best, v)
        return best or 0
    return 0


# ---------------------------------------------------------------------------
# facts
# ---------------------------------------------------------------------------


class Fact:
    __slots__ = ("expr", "truth", "guard", "kind")

    def __init__(self, expr, truth, guard, kind):
        self.expr, self.truth, self.guard, self.kind = expr, truth, guard, kind


def _left_facts(test: ast.AST, site: ast.AST, pol=True) -> list:
    def contains(x):
        return any(n is site for n in ast.walk(x))

    if isinstance(test, ast.UnaryOp) and isinstance(test.op, ast.Not):
        return _left_facts(test.operand, site, not pol)
    if isinstance(test, ast.BoolOp):
        is_and = isinstance(test.op, ast.And)
        out = []
        for val in test.values:
            if contains(val):
                return out + _left_facts(val, site, pol)
            out += atoms(val, True if is_and else False)
        return out
    return []


def _iter_collection(it: ast.AST) -> ast.AST:
    """``for .. in enumerate(X)/reversed(X)/sorted(X)/list(X)/zip(X, ..)``: the loop runs only if X has an element."""
    while isinstance(it, ast.Call) and isinstance(it.func, ast.Name) and it.func.id in ("enumerate", "reversed", "sorted", "list", "tuple") and it.args:
        it = it.args[0]
    return it


def _local_facts(site: ast.AST, stop: ast.AST) -> List[Fact]:
    """Facts established inside the statement / lambda that holds the site:
    short-circuit operands, conditional expressions, comprehension filters and
    comprehension iterables."""
    out: List[Fact] = []
    p = site
    while p is not None and p is not stop:
        par = getattr(p, "_parent", None)
        if par is None:
            break
        if isinstance(par, ast.BoolOp):
            out += [Fact(e, t, None, "short-circuit") for e, t in _left_facts(par, site)]
        elif isinstance(par, ast.IfExp) and p is not par.test:
            out += [Fact(e, t, None, "conditional-expression") for e, t in atoms(par.test, p is par.body)]
        elif isinstance(par, (ast.ListComp, ast.SetComp, ast.GeneratorExp, ast.DictComp)):
            gens = par.generators
            if p in gens:
                upto = gens.index(p)
                # inside generator #upto: its iterable sees the earlier generators; its
                # filters see its own iterable and the filters to their left
                gi = gens[upto]
                inner = None
                for c in [gi.iter] + list(gi.ifs):
                    if any(n is site for n in ast.walk(c)):
                        inner = c
                for g in gens[:upto]:
                    out.append(Fact(_iter_collection(g.iter), True, None, "comprehension"))
                    for c in g.ifs:
                        out += [Fact(e, t, None, "comprehension") for e, t in atoms(c, True)]
                if inner is not None and inner is not gi.iter:
                    out.append(Fact(_iter_collection(gi.iter), True, None, "comprehension"))
                    for c in gi.ifs:
                        if c is inner:
                            break
                        out += [Fact(e, t, None, "comprehension") for e, t in atoms(c, True)]
            else:
                for g in gens:
                    out.append(Fact(_iter_collection(g.iter), True, None, "comprehension"))
                    for c in g.ifs:
                        out += [Fact(e, t, None, "comprehension") for e, t in atoms(c, True)]
        if isinstance(par, ast.Lambda):
            break
        p = par
    return out


def _through_flag(cfg, e: ast.AST, truth: bool, at, kind: str) -> List[Fact]:
    """``ok = X and len(X) > 1`` ... ``if ok:``: a tested plain local that holds a condition
    (single reaching definition) stands for that condition, evaluated where it was assigned."""
    if not isinstance(e, ast.Name):
        return []
    ds = cfg.reaching().IN.get(at, {}).get(e.id, set())
    if len(ds) != 1:
        return []
    (d,) = ds
    if d.kind != "assign" or d.path or d.stmt is None or not isinstance(d.value, (ast.Compare, ast.BoolOp, ast.UnaryOp)):
        return []
    return [Fact(e2, t2, d.stmt, kind) for e2, t2 in atoms(d.value, truth)]


def _flow_facts(cfg, st) -> List[Fact]:
    out: List[Fact] = []
    if st is None:
        return out
    dom = cfg.dominators().get(st, set())
    for g in dom:
        got: List[Fact] = []
        if isinstance(g, Branch):
            if isinstance(g.stmt, (ast.If, ast.While)):
                got = [Fact(e, t, g.stmt, "branch") for e, t in atoms(g.stmt.test, g.polarity)]
            elif isinstance(g.stmt, (ast.For, ast.AsyncFor)) and g.polarity:
                out.append(Fact(_iter_collection(g.stmt.iter), True, g.stmt, "for-loop"))
        elif isinstance(g, ast.Assert) and g is not st:
            got = [Fact(e, t, g, "assert") for e, t in atoms(g.test, True)]
        for fa in got:
            out.append(fa)
            out += _through_flag(cfg, fa.expr, fa.truth, fa.guard, fa.kind)
    return out


def _same_value(cfg, a: ast.AST, a_at, b: ast.AST, b_at, a_before: bool = False) -> bool:
    """Does expression ``a`` evaluated after statement ``a_at`` denote the same value as
    ``b`` evaluated at ``b_at``?  Same normalised text and no local name in it redefined in
    between (same reaching definitions); plain-name copies are followed."""
    rd = cfg.reaching()

    def defs_after(at, name):
        if at is None:
            return None
        return frozenset(rd.OUT.get(at, {}).get(name, set()))

    def defs_before(at, name):
        return frozenset(rd.IN.get(at, {}).get(name, set()))

    def root(e, at, before):
        """Follow single plain copies ``x = y``."""
        seen = 0
        while isinstance(e, ast.Name) and seen < 6:
            ds = defs_before(at, e.id) if before else defs_after(at, e.id)
            if ds is None or len(ds) != 1:
                break
            (d,) = ds
            if d.kind in ("assign", "walrus") and not d.path and isinstance(d.value, ast.Name) and d.stmt is not None:
                e, at, before = d.value, d.stmt, True
                seen += 1
                continue
            return ("def", id(d))
        return None

    if a_at is None:  # same statement
        return norm(a) == norm(b)
    ra, rb = root(a, a_at, a_before), root(b, b_at, True)
    if ra is not None and ra == rb:
        return True
    if norm(a) != norm(b):
        return False
    for n in ast.walk(a):
        if isinstance(n, ast.Name):
            if (defs_before(a_at, n.id) if a_before else defs_after(a_at, n.id)) != defs_before(b_at, n.id):
                return False
    return True


def _resolve_len_operand(cfg, e: ast.AST, at) -> ast.AST:
    """A plain local that holds ``len(X)`` / an int constant on every path."""
    if isinstance(e, ast.Name) and cfg is not None and at is not None:
        os_ = origins(cfg, e, at)
        if len(os_) == 1 and os_[0].kind == "expr" and not os_[0].path:
            return os_[0].expr
    return e


def _int(e: ast.AST) -> Optional[int]:
    if isinstance(e, ast.Constant) and isinstance(e.value, int) and not isinstance(e.value, bool):
        return e.value
    if isinstance(e, ast.UnaryOp) and isinstance(e.op, ast.USub) and isinstance(e.operand, ast.Constant) and isinstance(e.operand.value, int):
        return -e.operand.value
    return None


_NEG = {ast.Lt: ast.GtE, ast.LtE: ast.Gt, ast.Gt: ast.LtE, ast.GtE: ast.Lt, ast.Eq: ast.NotEq, ast.NotEq: ast.Eq}
_SWAP = {ast.Lt: ast.Gt, ast.LtE: ast.GtE, ast.Gt: ast.Lt, ast.GtE: ast.LtE, ast.Eq: ast.Eq, ast.NotEq: ast.NotEq}


_PRESERVING = {"children", "first", "last", "select", "reversed", "recursive_crawl", "get", "any"}


def _chain_root(e: ast.AST) -> Optional[ast.AST]:
    """``R.children(..).first(..)`` -> R: the methods of utils.functional return an empty
    collection (``get`` returns None, ``any`` False) for an empty receiver."""
    seen = False
    while True:
        if isinstance(e, ast.Call) and isinstance(e.func, ast.Attribute) and e.func.attr in _PRESERVING:
            if e.func.attr == "get" and any(k.arg in ("default", None) for k in e.keywords):
                break  # get(default=x) may be truthy for an empty receiver
            e, seen = e.func.value, True
        else:
            break
    return e if seen else None


def _derived_roots(cfg, e: ast.AST, at, before: bool) -> list:
    """Expressions whose non-emptiness follows from the truthiness of ``e`` (evaluated
    after/before statement ``at``): the roots of functional chains, through single local definitions."""
    out = []
    depth = 0
    cur, cur_at, cur_before = e, at, before
    while depth < 4:
        depth += 1
        r = _chain_root(cur)
        if r is not None:
            out.append((r, cur_at, cur_before))
            cur = r
            continue
        if isinstance(cur, ast.Name) and cfg is not None and cur_at is not None:
            rd = cfg.reaching()
            ds = (rd.IN if cur_before else rd.OUT).get(cur_at, {}).get(cur.id, set())
            if len(ds) == 1:
                (d,) = ds
                if d.kind in ("assign", "walrus") and not d.path and d.stmt is not None and d.value is not None:
                    cur, cur_at, cur_before = d.value, d.stmt, True
                    continue
        break
    return out


def _list_lits(e: ast.AST) -> Optional[List[int]]:
    if isinstance(e, (ast.List, ast.Tuple)) and not any(isinstance(x, ast.Starred) for x in e.elts):
        return [len(e.elts)]
    return None


def _implied_min(cfg, fact: Fact, is_recv, fact_at, is_recv_at=None) -> int:
    """Smallest ``len(receiver)`` compatible with the fact (0 = says nothing)."""
    e, truth = fact.expr, fact.truth
    if is_recv(e):
        return 1 if truth else 0
    if truth and is_recv_at is not None:
        for r, r_at, r_before in _derived_roots(cfg, e, fact_at, False):
            if is_recv_at(r, r_at, r_before):
                fact.kind = "derived:" + fact.kind
                return 1
    # [f(x) for x in RECV] == [a, b]   /   not in [[a, b], [c, d]]
    if isinstance(e, ast.Compare) and len(e.ops) == 1 and cfg is not None:
        op, l, r = e.ops[0], e.left, e.comparators[0]
        lens = None
        if (isinstance(op, ast.Eq) and truth) or (isinstance(op, ast.NotEq) and not truth):
            lens = _list_lits(r)
        elif (isinstance(op, ast.In) and truth) or (isinstance(op, ast.NotIn) and not truth):
            if isinstance(r, (ast.List, ast.Tuple, ast.Set)) and r.elts and all(_list_lits(x) for x in r.elts):
                lens = [_list_lits(x)[0] for x in r.elts]
        if lens:
            src = _resolve_len_operand(cfg, l, fact_at)
            if isinstance(src, ast.ListComp) and len(src.generators) == 1 and not src.generators[0].ifs and not src.generators[0].is_async:
                it = src.generators[0].iter
                at = fact_at
                if isinstance(l, ast.Name):
                    os_ = origins(cfg, l, fact_at)
                    at = os_[0].stmt
                if is_recv_at is not None and is_recv_at(it, at, True):
                    fact.kind = "mapped-equality"
                    return min(lens)
    if isinstance(e, ast.Call) and isinstance(e.func, ast.Name) and e.func.id == "len" and len(e.args) == 1 and is_recv(e.args[0]):
        return 1 if truth else 0
    if isinstance(e, ast.Call) and isinstance(e.func, ast.Name) and e.func.id == "bool" and len(e.args) == 1 and is_recv(e.args[0]):
        return 1 if truth else 0
    if isinstance(e, ast.Compare) and len(e.ops) == 1 and isinstance(e.ops[0], (ast.In, ast.NotIn)):
        # len(X) in (1, 2)
        l = _resolve_len_operand(cfg, e.left, fact_at)
        r = e.comparators[0]
        if (
            isinstance(l, ast.Call) and isinstance(l.func, ast.Name) and l.func.id == "len" and len(l.args) == 1 and is_recv(l.args[0])
            and isinstance(r, (ast.Tuple, ast.List, ast.Set)) and r.elts and all(_int(x) is not None for x in r.elts)
            and (isinstance(e.ops[0], ast.In) == bool(truth))
        ):
            return max(min(_int(x) for x in r.elts), 0)
        # "sep" in S   with   X = S.split("sep")
        if isinstance(e.ops[0], ast.In) == bool(truth) and isinstance(l, ast.Constant) and isinstance(l.value, str) and l.value and is_recv_at is not None:
            if is_recv_at(("split", l.value, r), fact_at, False):
                fact.kind = "split-membership"
                return 2
        return 0
    if isinstance(e, ast.Compare) and len(e.ops) == 1:
        op = type(e.ops[0])
        if op not in _NEG:
            return 0
        l = _resolve_len_operand(cfg, e.left, fact_at)
        r = _resolve_len_operand(cfg, e.comparators[0], fact_at)

        def is_len(x):
            return isinstance(x, ast.Call) and isinstance(x.func, ast.Name) and x.func.id == "len" and len(x.args) == 1 and is_recv(x.args[0])

        if is_len(l) and _int(r) is not None:
            c = _int(r)
        elif is_len(r) and _int(l) is not None:
            c, op = _int(l), _SWAP[op]
        else:
            return 0
        if not truth:
            op = _NEG[op]
        # now: len(recv) <op> c
        if op is ast.Gt:
            return max(c + 1, 0)
        if op in (ast.GtE, ast.Eq):
            return max(c, 0)
        if op is ast.NotEq:
            return 1 if c == 0 else 0
        return 0
    return 0


_KIND_RANK = {"branch": 0, "for-loop": 1, "short-circuit": 2, "conditional-expression": 3, "comprehension": 4, "mapped-equality": 5, "split-membership": 6, "derived": 7, "assert": 8}


def _mutated_between(cx: Ctx, cfg, f, recv_text: str, guard, site_stmt) -> bool:
    """May the receiver be shrunk / re-assigned in place on a path from the guard to the site?"""
    if not cx.may_change(f, recv_text):
        return False
    if guard is None:
        return False
    for n in walk_local(f):
        hit = False
        if isinstance(n, ast.Call) and isinstance(n.func, ast.Attribute) and n.func.attr in _SHRINK and _affects(norm(n.func.value), recv_text):
            hit = True
        elif isinstance(n, ast.Delete) and any(isinstance(t, ast.Subscript) and _affects(norm(t.value), recv_text) for t in n.targets):
            hit = True
        elif isinstance(n, ast.Subscript) and isinstance(n.ctx, ast.Store) and isinstance(n.slice, ast.Slice) and _affects(norm(n.value), recv_text):
            hit = True
        elif isinstance(n, ast.Attribute) and isinstance(n.ctx, (ast.Store, ast.Del)) and _affects(norm(n), recv_text):
            hit = True
        if not hit:
            continue
        ms = cfg.stmt_of(n)
        if ms is None or ms not in cfg.succ:
            continue
        if ms is site_stmt:
            # evaluated in the same statement: order unknown, be conservative
            return True
        if cfg.paths_avoiding(guard, ms, lambda x: x is guard) and cfg.paths_avoiding(ms, site_stmt, lambda x: x is guard):
            return True
    return False


# ---------------------------------------------------------------------------
# crawler guarantee for context.parent_stack
# ---------------------------------------------------------------------------


def _crawler_guarantee(cx: Ctx, s: ast.Subscript, f, m, cfg, st) -> Optional[str]:
    """``<ctx>.parent_stack[0|-1]`` in ``_eval`` of a rule whose crawler is a
    SegmentSeekerCrawler that does not seek the root ("file") segment: every context it
    yields other than the root has a parent."""
    v = s.value
    if not (isinstance(v, ast.Attribute) and v.attr == "parent_stack" and isinstance(v.value, ast.Name)):
        return None
    if not (isinstance(f, FuncNode) and f.name == "_eval"):
        return None
    os_ = origins(cfg, v.value, st)
    if not os_ or any(o.kind != "param" for o in os_):
        return None
    params = [a.arg for a in f.args.posonlyargs + f.args.args]
    if len(params) < 2 or os_[0].expr.arg != params[1]:
        return None
    c = enclosing_class(f)
    if c is None or getattr(c, "_parent", None) is not m.tree:
        return None
    repo = cx.repo
    classes = [(m, c)] + [(mm, cc) for mm, cc in cx.rule_subclasses(c) if cc is not c]
    seen_types = []
    for mm, cc in classes:
        # does this class run this very _eval?
        r = repo.lookup_method(mm, cc, "_eval")
        if not r or r[1] is not f:
            continue
        cb = None
        for am, ac in repo.mro(mm, cc):
            for item in ac.body:
                if isinstance(item, ast.Assign) and any(isinstance(t, ast.Name) and t.id == "crawl_behaviour" for t in item.targets):
                    cb = item.value
                    break
                if isinstance(item, ast.AnnAssign) and isinstance(item.target, ast.Name) and item.target.id == "crawl_behaviour" and item.value is not None:
                    cb = item.value
                    break
            if cb is not None:
                break
        if not (isinstance(cb, ast.Call) and call_name(cb) == "SegmentSeekerCrawler" and cb.args and isinstance(cb.args[0], ast.Set)):
            return None
        types = [x.value for x in cb.args[0].elts if isinstance(x, ast.Constant) and isinstance(x.value, str)]
        if len(types) != len(cb.args[0].elts) or "file" in types or "base" in types:
            return None
        seen_types.append(cc.name)
    if not seen_types:
        return None
    return "crawler"


# ---------------------------------------------------------------------------
# reflow blocks: exactly one segment
# ---------------------------------------------------------------------------


def _mentions_block_only(ann: Optional[ast.AST]) -> bool:
    if ann is None:
        return False
    if isinstance(ann, ast.Constant) and isinstance(ann.value, str):
        try:
            ann = ast.parse(ann.value, mode="eval").body
        except SyntaxError:
            return False
    names = {n.id for n in ast.walk(ann) if isinstance(n, ast.Name)} | {n.attr for n in ast.walk(ann) if isinstance(n, ast.Attribute)}
    for c in ast.walk(ann):
        if isinstance(c, ast.Constant) and isinstance(c.value, str):
            try:
                inner = ast.parse(c.value, mode="eval").body
            except SyntaxError:
                return False
            names |= {n.id for n in ast.walk(inner) if isinstance(n, ast.Name)} | {n.attr for n in ast.walk(inner) if isinstance(n, ast.Attribute)}
    return "ReflowBlock" in names and not (names & {"ReflowPoint", "ReflowElement", "Union", "list", "List", "Sequence", "tuple", "Tuple", "Iterator", "dict", "Dict"})


def _is_block_expr(cx: Ctx, e: ast.AST, cfg, at, facts, st, depth=0) -> bool:
    """Is ``e`` statically a ReflowBlock?  (parameter annotation, cast(), isinstance fact,
    element yielded by ``.iter_blocks()``)."""
    if depth > 3:
        return False
    if isinstance(e, ast.Call) and isinstance(e.func, ast.Name) and e.func.id == "cast" and len(e.args) == 2 and norm(e.args[0]) == "ReflowBlock":
        return True
    for fa in facts:
        x = fa.expr
        if fa.truth and isinstance(x, ast.Call) and isinstance(x.func, ast.Name) and x.func.id == "isinstance" and len(x.args) == 2 and norm(x.args[1]) == "ReflowBlock":
            if fa.guard is None:
                if norm(x.args[0]) == norm(e):
                    return True
            elif _same_value(cfg, x.args[0], fa.guard, e, st):
                return True
    if isinstance(e, ast.Name) and cfg is not None:
        os_ = origins(cfg, e, at)
        if not os_:
            return False
        for o in os_:
            if o.kind == "param":
                if o.path or not _mentions_block_only(getattr(o.expr, "annotation", None)):
                    return False
            elif o.kind == "for":
                it = o.expr
                if o.path or not (isinstance(it, ast.Call) and isinstance(it.func, ast.Attribute) and it.func.attr == "iter_blocks"):
                    return False
            elif o.kind == "expr" and not o.path:
                v = o.expr
                if isinstance(v, ast.Call) and isinstance(v.func, ast.Name) and v.func.id == "next" and v.args and isinstance(v.args[0], ast.Call) and isinstance(v.args[0].func, ast.Attribute) and v.args[0].func.attr == "iter_blocks":
                    continue  # next(line.iter_blocks(..)[, None]): a block (or None, which is a different failure)
                if not _is_block_expr(cx, v, cfg, o.stmt, [], o.stmt, depth + 1):
                    return False
            else:
                return False
        return True
    return False


def block_constructors(repo):
    """Every ``ReflowBlock(..)`` / ``ReflowBlock.from_config(..)`` call in the tree with the
    ``segments`` argument (None if it cannot be found)."""
    for m in repo.iter_modules("src/sqlfluff/"):
        for n in ast.walk(m.tree):
            if isinstance(n, ast.Call) and call_name(n) in ("ReflowBlock", "ReflowBlock.from_config", "cls") and (
                call_name(n) != "cls" or (enclosing_class(n) is not None and enclosing_class(n).name == "ReflowBlock")
            ):
                seg = next((k.value for k in n.keywords if k.arg == "segments"), None)
                if seg is None and n.args:
                    seg = n.args[0]
                if call_name(n) == "cls" and isinstance(seg, ast.Name):
                    f = enclosing_function(n)
                    if isinstance(f, FuncNode) and seg.id in {x.arg for x in f.args.args + f.args.kwonlyargs}:
                        continue  # alternative constructor forwarding its own `segments` parameter
                yield m, n, seg


# ---------------------------------------------------------------------------
# the site judge
# ---------------------------------------------------------------------------


def judge(cx: Ctx, s: ast.Subscript, m) -> Tuple[Optional[str], str]:
    """-> (idiom or None, explanation)."""
    k = _const_index(s)
    need = _need(k)
    f = _real_function(s)
    if f is None:
        return None, "module level"
    h = _in_try_catching(s, f, _CATCH)
    if h is not None and not any(isinstance(x, ast.Raise) for x in ast.walk(h)):
        return "try", "inside try/except IndexError"
    lam = _in_lambda(s, f)
    cfg = cfg_of(f)
    st = cfg.stmt_of(s)
    if st is not None and not cfg.reachable(st):
        return "unreachable", "statement not reachable"
    recv = s.value
    # (1) by construction
    if lam is None and st is not None:
        ml = _min_len(cx, recv, cfg, st, f, m)
    else:
        ml = _min_len(cx, recv, None, None, f, m)
    if ml >= need:
        return "construction", f"built with >= {ml} element(s)"
    # (2) facts
    facts = _local_facts(s, lam if lam is not None else st)
    if st is not None and lam is None:
        facts += _flow_facts(cfg, st)
    rtext = norm(recv)
    best, how, how_rank = 0, None, (99, 9)
    if any(isinstance(c, ast.Call) and last_attr(c) in _IMPURE for c in ast.walk(recv)):
        facts = []  # evaluating the receiver again need not give the tested value
    for fa in facts:
        g = fa.guard

        def is_recv(e, g=g):
            if g is None:
                return norm(e) == rtext
            return _same_value(cfg, e, g, recv, st)

        def is_recv_at(e, at, before):
            if isinstance(e, tuple):
                _, sep, subject = e
                src = recv
                src_at = st
                if isinstance(recv, ast.Name):
                    os_ = origins(cfg, recv, st)
                    if len(os_) != 1 or os_[0].kind != "expr" or os_[0].path:
                        return False
                    src, src_at = os_[0].expr, os_[0].stmt
                if not (isinstance(src, ast.Call) and isinstance(src.func, ast.Attribute) and src.func.attr in ("split", "rsplit") and src.args
                        and isinstance(src.args[0], ast.Constant) and src.args[0].value == sep):
                    return False
                return at is None or _same_value(cfg, subject, at, src.func.value, src_at, a_before=before)
            if at is None:
                return norm(e) == rtext
            return _same_value(cfg, e, at, recv, st, a_before=before)

        v = _implied_min(cfg, fa, is_recv, g if g is not None else st, is_recv_at if lam is None else None)
        if v <= 0:
            continue
        if g is not None and _mutated_between(cx, cfg, f, rtext, g, st):
            continue
        # deterministic choice of the reported idiom: strongest kind first, then the longest bound
        rank = (_KIND_RANK.get(fa.kind.split(":")[0], 9), 0 if v >= need else 1)
        if v >= need and (how is None or best < need or rank < how_rank):
            best, how, how_rank = max(best, v), fa.kind, rank
        elif v > best and best < need:
            best, how, how_rank = v, fa.kind, rank
    if best >= need:
        return how, f"len >= {best} known"
    # (2b) <ReflowBlock>.segments[0|-1]
    if need == 1 and lam is None and isinstance(recv, ast.Attribute) and recv.attr == "segments" and st is not None:
        if _is_block_expr(cx, recv.value, cfg, st, facts, st):
            return "reflow-block", "a ReflowBlock holds exactly one segment"
    # (3) crawler
    if lam is None and need == 1 and st is not None:
        cg = _crawler_guarantee(cx, s, f, m, cfg, st)
        if cg:
            return cg, "SegmentSeekerCrawler never yields the root"
    return None, f"need len >= {need}, known >= {max(best, ml)}"


def sites(repo):
    for scope in E_SCOPES:
        for m in repo.iter_modules(scope):
            if m.relpath.startswith(E_EXCLUDE):
                continue
            for n in ast.walk(m.tree):
                if isinstance(n, ast.Subscript) and isinstance(n.ctx, ast.Load) and _const_index(n) is not None:
                    yield m, n
