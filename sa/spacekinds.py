"""RQ-space — coordinate-space ("kind") inference (DESIGN.md 2.6), a ``KindInterp`` instantiation.

Offsets, slices and texts of a templated file live in one of two spaces: the *source*
file (``SRC``) or the *rendered* file (``TPL``).  Line numbers (``LINE``) and columns
(``COL``) form a second, independent dimension.  A value of one kind used where the other
is required is wrong on every input on which the two spaces differ (any templated file),
and tests mostly exercise untemplated text where the two coincide.

Where kinds come from (repository facts, never names of locals)
  * the slice-typed fields declared by the dataclasses / NamedTuples themselves
    (``FIELD_KINDS`` below; every entry is validated against the class definition and a
    vanished field is an analysis error): ``PositionMarker.source_slice/templated_slice``,
    ``TemplatedFileSlice.*``, ``RawFileSlice.source_idx``, ``SourceFix.*``, ``FixPatch.*``,
    ``TemplateElement.template_slice``; the two texts and the two newline tables of
    ``TemplatedFile``; ``working_line_no/working_line_pos`` and the violation's
    ``line_no/line_pos``; for a receiver whose class is unknown the field *name* decides, but
    only for names on which every declaring class of the tree agrees (``REVIEWED_SLICE_FIELDS``:
    ``JinjaTracer.source_idx`` is a rendered-space cursor, so ``source_idx`` has no fallback);
  * ``.start`` / ``.stop`` of a kinded slice keep the kind; ``slice(a, b)`` of equal kinds
    keeps it; ``K + length`` is ``K``; ``K - K`` is a length; ``text.find(..)`` is an offset
    into that text;
  * receiver *types* come from annotations (parameters, dataclass fields, ``self.x = param``
    in ``__init__``, return annotations of properties) resolved through the module's
    imports; callees inside the analysed module set are re-analysed per distinct argument
    kinds (context sensitive), so a helper such as ``zero_slice`` or
    ``raw_slices_spanning_source_slice`` is checked with the kinds of each call site.

Sinks (a known kind that differs from the required one is reported; anything touching
TOP is silent)
  ``text-subscript``  ``TemplatedFile.source_str[..]`` needs SRC, ``.templated_str[..]`` TPL
  ``converter``       ``get_line_pos_of_char_pos(x, source=<const>)`` needs SRC iff source
  ``newline-table``   ``bisect*(table, x)`` – table and x of the same space
  ``ctor-field``      every kinded field of a constructed record, by keyword or position
  ``attr-store``      stores into kinded attributes (``self._source_newlines = ..``,
                      ``self.line_no = ..``, ``object.__setattr__(self, "working_line_no", ..)``)
  ``dict-schema``     ``*_line_no`` / ``*_line_pos`` / ``*_file_pos`` entries of a serialised
                      position dict (LINE / COL / SRC)
  ``translate-arg``   the argument of ``templated_slice_to_source_slice`` is TPL
  ``compare`` / ``arith`` / ``minmax`` / ``slice-bounds``  two offsets of different spaces
                      compared, added/subtracted, min/max-ed or used as the two bounds of one
                      slice — except ``SRC - TPL`` inside the functions of ``TRANSLATORS``
                      (frozen table with reasons), whose result is a *translation delta*
                      that may only be added to the space it translates from.

The interpreter is flow-insensitive inside a function (inherited from ``KindInterp``): a
local that is used for both spaces becomes TOP and silences the sites it reaches — never
an alarm.
"""

from __future__ import annotations

import ast
from typing import Dict, List, Optional, Tuple

from .index import AnalysisError, FuncNode, Module, Repo, call_name, norm, short, walk_local
from .quals import BOT, NEUTRAL, TOP, KindInterp, Seq, Tup, join

SRC, TPL = "SRC", "TPL"
SRCTEXT, TPLTEXT = "SRCTEXT", "TPLTEXT"
LINE, COL = "LINE", "COL"
XL_ST = "XLATE(TPL->SRC)"  # SRC - TPL : add to a TPL offset to obtain the SRC offset
XL_TS = "XLATE(SRC->TPL)"
DIM = {SRC: 0, TPL: 0, LINE: 1, COL: 1}
COORD = (SRC, TPL, LINE, COL)
TEXT_SPACE = {SRCTEXT: SRC, TPLTEXT: TPL}

MARKERS = "src/sqlfluff/core/parser/markers.py"
TBASE = "src/sqlfluff/core/templaters/base.py"
ERRORS = "src/sqlfluff/core/errors.py"
FIXPY = "src/sqlfluff/core/rules/fix.py"
PATCH = "src/sqlfluff/core/linter/patch.py"
LFILE = "src/sqlfluff/core/linter/linted_file.py"
LEXER = "src/sqlfluff/core/parser/lexer.py"
META = "src/sqlfluff/core/parser/segments/meta.py"
SEGBASE = "src/sqlfluff/core/parser/segments/base.py"
SLICEH = "src/sqlfluff/core/helpers/slice.py"

#: modules whose function bodies are analysed (DESIGN §3 C23) + the slice helpers they call
SCOPE = (MARKERS, TBASE, ERRORS, FIXPY, PATCH, LFILE, LEXER, META, SLICEH)

#: (module, class) -> {field: kind}.  The kinds are the *declared meaning* of the field.
FIELD_KINDS: Dict[Tuple[str, str], Dict[str, object]] = {
    (MARKERS, "PositionMarker"): {"source_slice": SRC, "templated_slice": TPL, "working_line_no": LINE, "working_line_pos": COL},
    (TBASE, "TemplatedFileSlice"): {"source_slice": SRC, "templated_slice": TPL},
    (TBASE, "RawFileSlice"): {"source_idx": SRC},
    (TBASE, "TemplatedFile"): {"source_str": SRCTEXT, "templated_str": TPLTEXT, "_source_newlines": Seq(SRC), "_templated_newlines": Seq(TPL)},
    (SEGBASE, "SourceFix"): {"source_slice": SRC, "templated_slice": TPL},
    (PATCH, "FixPatch"): {"source_slice": SRC, "templated_slice": TPL},
    (LEXER, "TemplateElement"): {"template_slice": TPL},
    (ERRORS, "SQLBaseError"): {"line_no": LINE, "line_pos": COL},
}
#: Every class of the tree that declares a field with one of these names, with the meaning found
#: when reading it.  A class that is not listed is an analysis error (read it, then add it).
#: The by-name fallback for receivers of unknown class (``NAME_KINDS``) is derived from this table
#: and only covers names on which *all* declaring classes agree.
REVIEWED_SLICE_FIELDS: Dict[str, Dict[str, str]] = {
    "PositionMarker": {"source_slice": SRC, "templated_slice": TPL},
    "TemplatedFileSlice": {"source_slice": SRC, "templated_slice": TPL},
    "RawFileSlice": {"source_idx": SRC},
    "SourceFix": {"source_slice": SRC, "templated_slice": TPL},
    "FixPatch": {"source_slice": SRC, "templated_slice": TPL},
    "TemplateElement": {"template_slice": TPL},
    # templaters/python.py: source / rendered slice of one intermediate file slice
    "IntermediateFileSlice": {"source_slice": SRC, "templated_slice": TPL},
    # templaters/slicers/tracer.py: despite its name, JinjaTracer.source_idx is the running offset
    # in the *rendered* output (it becomes TemplatedFileSlice.templated_slice) -> no fallback for it
    "JinjaTracer": {"source_idx": TPL},
}
NAME_KINDS: Dict[str, str] = {}
for _c, _fs in REVIEWED_SLICE_FIELDS.items():
    for _n, _k in _fs.items():
        NAME_KINDS[_n] = _k if NAME_KINDS.get(_n, _k) == _k else "?"
NAME_KINDS = {n: k for n, k in NAME_KINDS.items() if k != "?"}
_SLICE_FIELD_NAMES = {n for fs in REVIEWED_SLICE_FIELDS.values() for n in fs}
#: declared result kinds of methods (the body is still analysed for its own sinks)
SUMMARIES = {
    (TBASE, "TemplatedFile.get_line_pos_of_char_pos"): Tup([LINE, COL]),
    (TBASE, "TemplatedFile.templated_slice_to_source_slice"): SRC,
}
#: functions whose *job* is the translation between the two spaces: ``SRC - TPL`` is allowed
#: there and yields a translation delta (DESIGN 2.6: frozen table with the reason).
TRANSLATORS = {
    (LEXER, "_iter_segments"): "tfs_offset = literal slice's source start - templated start; added to rendered offsets inside that literal slice",
    (TBASE, "TemplatedFile.templated_slice_to_source_slice"): "the rendered->source mapping itself",
}
SCHEMA_SUFFIX = {"_line_no": LINE, "_line_pos": COL, "_file_pos": SRC}


class Inst:
    """An object of a class of the analysed tree."""

    def __init__(self, key):
        self.key = key  # (relpath, qualname)

    def __eq__(self, o):
        return isinstance(o, Inst) and o.key == self.key

    def __hash__(self):
        return hash(("Inst", self.key))

    def __repr__(self):
        return f"<{self.key[1]}>"


class ClassRef:
    def __init__(self, key):
        self.key = key

    def __eq__(self, o):
        return isinstance(o, ClassRef) and o.key == self.key

    def __hash__(self):
        return hash(("ClassRef", self.key))

    def __repr__(self):
        return f"<class {self.key[1]}>"


class Dct:
    """Dict with constant string keys, tracked per key."""

    def __init__(self, items):
        self.items = dict(items)

    def __eq__(self, o):
        return isinstance(o, Dct) and o.items == self.items

    def __hash__(self):
        return hash(("Dct", tuple(sorted((k, repr(v)) for k, v in self.items.items()))))

    def __repr__(self):
        return "{" + ", ".join(f"{k}: {v!r}" for k, v in self.items.items()) + "}"


def jn(a, b):
    if isinstance(a, Dct) and isinstance(b, Dct):
        keys = set(a.items) | set(b.items)
        return Dct({k: jn(a.items.get(k, BOT), b.items.get(k, BOT)) for k in keys})
    return join(a, b)


def coord(v) -> bool:
    return isinstance(v, str) and v in COORD


class Site:
    """One evaluation of a sink in one calling context."""

    __slots__ = ("cat", "node", "expected", "actual", "func", "ok", "msg", "label", "chain")

    def __init__(self, cat, node, expected, actual, func, ok, msg="", label="", chain=()):
        self.cat, self.node, self.expected, self.actual, self.func, self.ok, self.msg = cat, node, expected, actual, func, ok, msg
        self.label = label
        self.chain = chain

    @property
    def decided(self) -> bool:
        return self.msg not in ("undetermined", "one side undetermined")


class SpaceKinds(KindInterp):
    MAX_DEPTH = 7

    def __init__(self, repo: Repo, scope=SCOPE):
        super().__init__({})
        self.repo = repo
        self.scope = tuple(scope)
        self.fid: Dict[int, str] = {}
        self.fnodes: Dict[str, ast.AST] = {}
        for rel in self.scope:
            m = repo.mod(rel)
            for q, f in m.functions():
                self.fid[id(f)] = f"{rel}::{q}"
                self.fnodes[f"{rel}::{q}"] = f
        self.sites: List[Site] = []  # type: ignore[assignment]
        self._seen_sites = set()
        self.undecided: List[Tuple[ast.AST, str]] = []
        self.field_kinds: Dict[Tuple[str, str], Dict[str, object]] = {}
        self._validate_tables()
        self._method_owner = self._unique_methods()
        self._ann_cache: Dict[int, object] = {}
        self._fields_cache: Dict[Tuple[str, str], List[Tuple[str, Optional[ast.expr], Module]]] = {}

    # ------------------------------------------------------------------ tables
    def _validate_tables(self) -> None:
        for (rel, cname), fields in FIELD_KINDS.items():
            c = self.repo.cls(rel, cname)
            declared = set()
            for item in c.body:
                if isinstance(item, ast.AnnAssign) and isinstance(item.target, ast.Name):
                    declared.add(item.target.id)
                if isinstance(item, FuncNode) and item.name == "__init__":
                    for n in ast.walk(item):
                        if isinstance(n, ast.Attribute) and isinstance(n.ctx, ast.Store) and isinstance(n.value, ast.Name) and n.value.id == "self":
                            declared.add(n.attr)
            for f in fields:
                if f not in declared:
                    raise AnalysisError(f"RQ-space: {rel}::{cname} no longer declares field '{f}' (kind table out of date)")
            self.field_kinds[(rel, cname)] = dict(fields)
        # the by-name fallback is only sound if the field names mean the same everywhere
        for m in self.repo.iter_modules():
            if not any(n in m.text for n in _SLICE_FIELD_NAMES):
                continue
            for q, c in m.classes():
                names = set()
                for item in c.body:
                    if isinstance(item, ast.AnnAssign) and isinstance(item.target, ast.Name):
                        names.add(item.target.id)
                    elif isinstance(item, FuncNode) and item.name == "__init__":
                        for n in ast.walk(item):
                            if isinstance(n, ast.Attribute) and isinstance(n.ctx, ast.Store) and isinstance(n.value, ast.Name) and n.value.id == "self":
                                names.add(n.attr)
                hit = names & _SLICE_FIELD_NAMES
                if hit and not hit <= set(REVIEWED_SLICE_FIELDS.get(c.name, {})):
                    raise AnalysisError(
                        f"RQ-space: class {m.relpath}::{q} declares {sorted(hit)}; its meaning has not been reviewed "
                        f"(add it to REVIEWED_SLICE_FIELDS after reading it)"
                    )

    def _unique_methods(self) -> Dict[str, Tuple[str, str]]:
        """method name -> (relpath, class) for methods of the kinded classes whose name is
        defined by exactly one class of the whole tree (unique-name resolution)."""
        counts: Dict[str, int] = {}
        for m in self.repo.iter_modules():
            for q, c in m.classes():
                for item in c.body:
                    if isinstance(item, FuncNode):
                        counts[item.name] = counts.get(item.name, 0) + 1
        out = {}
        for (rel, cname) in FIELD_KINDS:
            c = self.repo.cls(rel, cname)
            for item in c.body:
                if isinstance(item, FuncNode) and counts.get(item.name) == 1 and not item.name.startswith("__"):
                    out[item.name] = (rel, cname)
        return out

    # ------------------------------------------------------------------ classes / annotations
    def _cls(self, key) -> Tuple[Module, ast.ClassDef]:
        m = self.repo.mod(key[0])
        return m, m.defs[key[1]]

    def _key_of(self, m: Module, c: ast.ClassDef):
        return (m.relpath, getattr(c, "_qualname", c.name))

    def _mro(self, key):
        m, c = self._cls(key)
        return self.repo.mro(m, c)

    def ann_value(self, m: Module, a: Optional[ast.expr], depth: int = 0):
        """Abstract value described by an annotation (types only; kinds never come from here)."""
        if a is None or depth > 6:
            return TOP
        if isinstance(a, ast.Constant) and isinstance(a.value, str):
            try:
                a = ast.parse(a.value, mode="eval").body
            except SyntaxError:
                return TOP
        if isinstance(a, ast.Constant):
            return TOP
        if isinstance(a, ast.BinOp) and isinstance(a.op, ast.BitOr):
            l, r = self.ann_value(m, a.left, depth + 1), self.ann_value(m, a.right, depth + 1)
            return l if l != TOP else r
        if isinstance(a, ast.Subscript):
            base = norm(a.value).split(".")[-1]
            sl = a.slice
            if base in ("Optional", "Final", "ClassVar"):
                return self.ann_value(m, sl, depth + 1)
            if base in ("type", "Type"):
                v = self.ann_value(m, sl, depth + 1)
                return ClassRef(v.key) if isinstance(v, Inst) else TOP
            if base in ("list", "List", "Sequence", "Iterable", "Iterator", "set", "Set", "frozenset", "Collection", "MutableSequence", "Generator"):
                inner = sl.elts[0] if isinstance(sl, ast.Tuple) and sl.elts else sl
                v = self.ann_value(m, inner, depth + 1)
                return Seq(v) if v != TOP else TOP
            if base in ("tuple", "Tuple"):
                elts = list(sl.elts) if isinstance(sl, ast.Tuple) else [sl]
                if len(elts) == 2 and isinstance(elts[1], ast.Constant) and elts[1].value is Ellipsis:
                    v = self.ann_value(m, elts[0], depth + 1)
                    return Seq(v) if v != TOP else TOP
                vs = [self.ann_value(m, x, depth + 1) for x in elts]
                return Tup(vs) if any(v != TOP for v in vs) else TOP
            if base == "Union":
                elts = list(sl.elts) if isinstance(sl, ast.Tuple) else [sl]
                rest = [x for x in elts if not (isinstance(x, ast.Constant) and x.value is None)]
                return self.ann_value(m, rest[0], depth + 1) if len(rest) == 1 else TOP
            return TOP
        if isinstance(a, (ast.Name, ast.Attribute)):
            r = self.repo.resolve_name(m, norm(a))
            if r and isinstance(r[1], ast.ClassDef):
                return Inst(self._key_of(r[0], r[1]))
        return TOP

    def fields_of(self, key) -> List[Tuple[str, Optional[ast.expr], Module]]:
        """Declared record fields (dataclass / NamedTuple order), base classes first."""
        if key in self._fields_cache:
            return self._fields_cache[key]
        out: List[Tuple[str, Optional[ast.expr], Module]] = []
        for mm, cc in reversed(self._mro(key)):
            for item in cc.body:
                if isinstance(item, ast.AnnAssign) and isinstance(item.target, ast.Name):
                    ann = norm(item.annotation)
                    if ann.startswith("ClassVar"):
                        continue
                    out = [x for x in out if x[0] != item.target.id] + [(item.target.id, item.annotation, mm)]
        self._fields_cache[key] = out
        return out

    def field_kind(self, key, attr):
        for mm, cc in self._mro(key):
            fk = self.field_kinds.get((mm.relpath, getattr(cc, "_qualname", cc.name)))
            if fk and attr in fk:
                return fk[attr]
        return None

    def _has_init(self, key) -> Optional[Tuple[Module, ast.AST]]:
        for mm, cc in self._mro(key):
            for item in cc.body:
                if isinstance(item, FuncNode) and item.name == "__init__":
                    return mm, item
        return None

    def inst_attr(self, key, attr):
        """Value of ``<instance of key>.attr`` (None when nothing is known)."""
        k = self.field_kind(key, attr)
        if k is not None:
            return k
        for mm, cc in self._mro(key):
            for item in cc.body:
                if isinstance(item, ast.AnnAssign) and isinstance(item.target, ast.Name) and item.target.id == attr:
                    return self.ann_value(mm, item.annotation)
                if isinstance(item, FuncNode) and item.name == attr:
                    decos = [norm(d).split(".")[-1] for d in item.decorator_list]
                    if "property" in decos or "cached_property" in decos:
                        f_id = self.fid.get(id(item))
                        if f_id is not None:
                            return self._call(f_id, item, {self._params(item)[0]: Inst(key)} if self._params(item) else {})
                        return self.ann_value(mm, item.returns)
                    return None
                if isinstance(item, FuncNode) and item.name == "__init__":
                    ann = {x.arg: x.annotation for x in item.args.posonlyargs + item.args.args + item.args.kwonlyargs}
                    for n in ast.walk(item):
                        tgt = val = an = None
                        if isinstance(n, ast.AnnAssign):
                            tgt, val, an = n.target, n.value, n.annotation
                        elif isinstance(n, ast.Assign) and len(n.targets) == 1:
                            tgt, val = n.targets[0], n.value
                        if isinstance(tgt, ast.Attribute) and tgt.attr == attr and isinstance(tgt.value, ast.Name) and tgt.value.id == "self":
                            if an is not None:
                                return self.ann_value(mm, an)
                            if isinstance(val, ast.Name) and ann.get(val.id) is not None:
                                return self.ann_value(mm, ann[val.id])
        return None

    @staticmethod
    def _params(f) -> List[str]:
        a = f.args
        return [x.arg for x in a.posonlyargs + a.args]

    # ------------------------------------------------------------------ sites
    def site(self, cat, node, expected, actual, func, ok, msg="", label="") -> None:
        if getattr(self, "_quiet", False):
            return
        key = (cat, id(node), label, repr(expected), repr(actual))
        if key in self._seen_sites:
            return
        self._seen_sites.add(key)
        chain = tuple(k[0].split("::", 1)[1] for k in self._stack[-4:])
        self.sites.append(Site(cat, node, expected, actual, func, ok, msg, label, chain))

    def need(self, cat, node, expected, actual, func, what) -> None:
        """Sink: ``actual`` must be ``expected`` whenever it is a known coordinate kind."""
        exp_elem = expected.elem if isinstance(expected, Seq) else expected
        act = actual.elem if isinstance(actual, Seq) and isinstance(expected, Seq) else actual
        if isinstance(act, str) and (act in COORD or act in TEXT_SPACE):
            ok = act == exp_elem
            self.site(cat, node, expected, actual, func, ok, "" if ok else f"{what}: needs {exp_elem}, gets {act}", label=what)
        else:
            self.site(cat, node, expected, actual, func, True, "undetermined", label=what)

    def mix(self, cat, node, l, r, func, what) -> bool:
        """Two offsets combined/compared: report when both are known, of one dimension, and differ."""
        if coord(l) and coord(r) and DIM[l] == DIM[r]:
            ok = l == r
            self.site(cat, node, l, r, func, ok, "" if ok else f"{what} mixes a {l} value with a {r} value")
            return not ok
        if coord(l) or coord(r):
            self.site(cat, node, l, r, func, True, "one side undetermined")
        return False

    def check_compare(self, node, left, right, func, what) -> None:  # from KindInterp
        l = left.elem if isinstance(left, Seq) and not isinstance(right, Seq) else left
        self.mix("compare", node, l, right, func, f"comparison '{what}'")

    # ------------------------------------------------------------------ analysis driver
    def analyse_all(self) -> None:
        for f_id, f in list(self.fnodes.items()):
            self._call(f_id, f, {})

    def _func_module(self, f) -> Module:
        return f._module

    def _enclosing_class_key(self, f):
        p = getattr(f, "_parent", None)
        if isinstance(p, ast.ClassDef):
            return self._key_of(p._module, p)
        return None

    def _bind(self, f, self_val, args, kws) -> Dict[str, object]:
        a = f.args
        pos = [x for x in a.posonlyargs + a.args]
        allp = pos + list(a.kwonlyargs)
        bound: Dict[str, object] = {}
        i0 = 0
        decos = [norm(d).split(".")[-1] for d in f.decorator_list]
        is_method = self._enclosing_class_key(f) is not None and "staticmethod" not in decos
        if is_method and pos:
            if self_val is not None:
                bound[pos[0].arg] = self_val
            i0 = 1
        for i, v in enumerate(args):
            if i0 + i < len(pos):
                bound[pos[i0 + i].arg] = v
        names = {x.arg for x in allp}
        for k, v in kws.items():
            if k in names:
                bound[k] = v
        # defaults
        nd = len(a.defaults)
        for i, x in enumerate(pos):
            if x.arg not in bound:
                di = i - (len(pos) - nd)
                if 0 <= di < nd:
                    d = a.defaults[di]
                    bound[x.arg] = (BOT if d.value is None else NEUTRAL) if isinstance(d, ast.Constant) else TOP
        for x, d in zip(a.kwonlyargs, a.kw_defaults):
            if x.arg not in bound and d is not None:
                bound[x.arg] = (BOT if d.value is None else NEUTRAL) if isinstance(d, ast.Constant) else TOP
        return bound

    def _call(self, f_id: str, f, bound: Dict[str, object]):
        """Analyse function ``f`` with parameters bound to abstract values (memoised)."""
        m = self._func_module(f)
        a = f.args
        allp = a.posonlyargs + a.args + a.kwonlyargs
        ck = self._enclosing_class_key(f)
        decos = [norm(d).split(".")[-1] for d in f.decorator_list]
        full: Dict[str, object] = {}
        for i, x in enumerate(allp):
            v = bound.get(x.arg, TOP)
            if i == 0 and ck is not None and "staticmethod" not in decos and x.arg in ("self", "cls", "mcs"):
                if v in (TOP, BOT, NEUTRAL):
                    v = ClassRef(ck) if ("classmethod" in decos or x.arg != "self") else Inst(ck)
            elif v in (TOP, BOT, NEUTRAL):
                t = self.ann_value(m, x.annotation)
                if t != TOP:
                    v = t
            full[x.arg] = v
        if f.name == "__init__" and ck is not None:
            self._seed_init(f, ck, full)
        key = (f_id, tuple(sorted((k, repr(v)) for k, v in full.items())))
        if key in self.memo:
            return self.memo[key]
        if key in self._stack or len(self._stack) >= self.MAX_DEPTH:
            return TOP
        self._stack.append(key)
        self.memo[key] = BOT
        outer_quiet = getattr(self, "_quiet", False)
        try:
            res = self._body(f, full)
        finally:
            self._stack.pop()
            self._quiet = outer_quiet
        sm = SUMMARIES.get(tuple(f_id.split("::", 1)))
        if sm is not None:
            res = sm
        self.memo[key] = res
        return res

    def _seed_init(self, f, ck, full) -> None:
        """A constructor parameter stored unconditionally into a kinded field has that kind."""
        direct: Dict[str, set] = {}
        branch: Dict[str, set] = {}
        for n in walk_local(f):
            if not (isinstance(n, ast.Assign) and len(n.targets) == 1):
                continue
            t = n.targets[0]
            if not (isinstance(t, ast.Attribute) and isinstance(t.value, ast.Name) and t.value.id == "self"):
                continue
            k = self.field_kind(ck, t.attr)
            if not isinstance(k, str):
                continue
            if isinstance(n.value, ast.Name) and n.value.id in full:
                direct.setdefault(n.value.id, set()).add(k)
            elif isinstance(n.value, ast.IfExp):
                for br in (n.value.body, n.value.orelse):
                    if isinstance(br, ast.Name) and br.id in full:
                        branch.setdefault(br.id, set()).add(k)
        for p in list(full):
            if full[p] not in (TOP, BOT, NEUTRAL):
                continue
            if p in direct:
                if len(direct[p]) == 1:
                    full[p] = next(iter(direct[p]))
            elif len(branch.get(p, ())) == 1:
                full[p] = next(iter(branch[p]))

    def _body(self, func, full: Dict[str, object]):
        env: Dict[str, object] = dict(full)
        nodes = sorted(walk_local(func), key=lambda n: (getattr(n, "lineno", 0), getattr(n, "col_offset", 0)))
        assigned = set()
        for n in nodes:
            if isinstance(n, ast.Name) and isinstance(n.ctx, (ast.Store, ast.Del)):
                assigned.add(n.id)
        env["__assigned__"] = assigned  # type: ignore[assignment]
        for _ in range(8):
            before = {k: repr(v) for k, v in env.items()}
            self._quiet = True
            self._pass(func, nodes, env)
            if {k: repr(v) for k, v in env.items()} == before:
                break
        self._quiet = False
        ret, is_gen = self._pass(func, nodes, env)
        return Seq(ret) if is_gen else ret

    # ------------------------------------------------------------------ statements
    def _pass(self, func, nodes, env):
        ret = BOT
        is_gen = False

        def ev(e):
            return self._eval(e, env, func)

        def bind(target, val, stmt):
            if isinstance(target, ast.Name):
                env[target.id] = jn(env.get(target.id, BOT), val)
            elif isinstance(target, (ast.Tuple, ast.List)):
                for i, t in enumerate(target.elts):
                    st = isinstance(t, ast.Starred)
                    tt = t.value if st else t
                    if isinstance(val, Tup) and i < len(val.items) and not st:
                        bind(tt, val.items[i], stmt)
                    elif isinstance(val, Inst) and not st:
                        fs = self.fields_of(val.key)
                        bind(tt, (self.inst_attr(val.key, fs[i][0]) if i < len(fs) else None) or TOP, stmt)
                    elif isinstance(val, Seq):
                        bind(tt, val if st else val.elem, stmt)
                    else:
                        bind(tt, BOT if val == BOT else TOP, stmt)
            elif isinstance(target, ast.Attribute):
                recv = ev(target.value)
                self._attr_store(target, recv, target.attr, val, func)
            elif isinstance(target, ast.Subscript):
                base = ev(target.value)
                k = target.slice.value if isinstance(target.slice, ast.Constant) else None
                if isinstance(k, str):
                    self._schema(target, k, val, func)
                    if isinstance(base, Dct) and isinstance(target.value, ast.Name):
                        d = dict(base.items)
                        d[k] = jn(d.get(k, BOT), val)
                        env[target.value.id] = Dct(d)

        for n in nodes:
            if isinstance(n, ast.Assign):
                v = ev(n.value)
                for t in n.targets:
                    bind(t, v, n)
            elif isinstance(n, ast.AnnAssign) and n.value is not None:
                bind(n.target, ev(n.value), n)
            elif isinstance(n, ast.AugAssign):
                if isinstance(n.target, ast.Name):
                    fake = ast.BinOp(left=n.target, op=n.op, right=n.value)
                    ast.copy_location(fake, n)
                    fake._aug = n  # type: ignore[attr-defined]
                    cur = env.get(n.target.id, BOT if n.target.id in env.get("__assigned__", ()) else TOP)
                    bind(n.target, self.binop(fake, cur, ev(n.value), func), n)
                else:
                    ev(n.value)
            elif isinstance(n, (ast.For, ast.AsyncFor, ast.comprehension)):
                it = ev(n.iter)
                bind(n.target, it.elem if isinstance(it, Seq) else (BOT if it == BOT else TOP), n)
            elif isinstance(n, ast.Return) and n.value is not None:
                ret = jn(ret, ev(n.value))
            elif isinstance(n, ast.Yield):
                is_gen = True
                if n.value is not None:
                    ret = jn(ret, ev(n.value))
            elif isinstance(n, ast.YieldFrom):
                is_gen = True
                v = ev(n.value)
                ret = jn(ret, v.elem if isinstance(v, Seq) else TOP)
            elif isinstance(n, ast.Expr):
                if not isinstance(n.value, (ast.Yield, ast.YieldFrom)):
                    ev(n.value)
            elif isinstance(n, (ast.If, ast.While, ast.Assert)):
                ev(n.test)
            elif isinstance(n, ast.NamedExpr) and isinstance(n.target, ast.Name):
                bind(n.target, ev(n.value), n)
            elif isinstance(n, ast.withitem):
                ev(n.context_expr)
                if n.optional_vars is not None:
                    bind(n.optional_vars, TOP, n)
            elif isinstance(n, ast.Raise) and n.exc is not None:
                ev(n.exc)
        return ret, is_gen

    def _attr_store(self, node, recv, attr, val, func) -> None:
        if isinstance(recv, Inst):
            k = self.field_kind(recv.key, attr)
            if k is not None:
                self.need("attr-store", node, k, val, func, f"store into {recv.key[1]}.{attr}")

    def _schema(self, node, key: str, val, func) -> None:
        for suf, k in SCHEMA_SUFFIX.items():
            if key.endswith(suf):
                self.need("dict-schema", node, k, val, func, f"serialised position entry '{key}'")

    # ------------------------------------------------------------------ expressions
    def _eval(self, e, env, func):
        if isinstance(e, ast.Constant):
            return BOT if e.value is None else NEUTRAL
        if isinstance(e, ast.Name):
            if e.id in env:
                return env[e.id]
            if e.id in env.get("__assigned__", ()):
                return BOT
            r = self.repo.resolve_name(func._module, e.id)
            if r and isinstance(r[1], ast.ClassDef):
                return ClassRef(self._key_of(r[0], r[1]))
            return TOP
        if isinstance(e, ast.Dict):
            items: Dict[str, object] = {}
            for k, v in zip(e.keys, e.values):
                val = self._eval(v, env, func)
                if k is None:
                    if isinstance(val, Dct):
                        items.update(val.items)
                elif isinstance(k, ast.Constant) and isinstance(k.value, str):
                    items[k.value] = val
                    self._schema(v, k.value, val, func)
                else:
                    self._eval(k, env, func)
            return Dct(items)
        if isinstance(e, ast.IfExp):
            self._eval(e.test, env, func)
            return jn(self._eval(e.body, env, func), self._eval(e.orelse, env, func))
        if isinstance(e, ast.BoolOp):
            v = BOT
            for x in e.values:
                v = jn(v, self._eval(x, env, func))
            return v
        if isinstance(e, ast.Subscript) and not isinstance(e.slice, ast.Slice):
            base = self._eval(e.value, env, func)
            idx = self._eval(e.slice, env, func)
            if isinstance(base, str) and base in TEXT_SPACE:
                self.need("text-subscript", e, TEXT_SPACE[base], idx, func, f"index into the {'source' if base == SRCTEXT else 'rendered'} text")
                return TOP
            if isinstance(base, Tup) and isinstance(e.slice, ast.Constant) and isinstance(e.slice.value, int):
                if -len(base.items) <= e.slice.value < len(base.items):
                    return base.items[e.slice.value]
            if isinstance(base, Dct):
                if isinstance(e.slice, ast.Constant) and e.slice.value in base.items:
                    return base.items[e.slice.value]
                return TOP
            if isinstance(base, Inst) and isinstance(e.slice, ast.Constant) and isinstance(e.slice.value, int):
                fs = self.fields_of(base.key)
                i = e.slice.value
                if -len(fs) <= i < len(fs):
                    v = self.inst_attr(base.key, fs[i][0])
                    return TOP if v is None else v
                return TOP
            if isinstance(base, Seq):
                return base.elem
            return TOP
        if isinstance(e, ast.Subscript):
            base = self._eval(e.value, env, func)
            lo = self._eval(e.slice.lower, env, func) if e.slice.lower is not None else NEUTRAL
            hi = self._eval(e.slice.upper, env, func) if e.slice.upper is not None else NEUTRAL
            if e.slice.step is not None:
                self._eval(e.slice.step, env, func)
            if isinstance(base, str) and base in TEXT_SPACE:
                for b in (lo, hi):
                    if b not in (NEUTRAL, BOT):
                        self.need("text-subscript", e, TEXT_SPACE[base], b, func, f"slice of the {'source' if base == SRCTEXT else 'rendered'} text")
                return TOP
            if isinstance(base, Seq):
                return base
            return TOP
        if isinstance(e, ast.Attribute):
            base = self._eval(e.value, env, func)
            return self._attr(e, base, func)
        if isinstance(e, ast.Starred):
            return self._eval(e.value, env, func)
        if isinstance(e, ast.JoinedStr):
            for v in e.values:
                if isinstance(v, ast.FormattedValue):
                    self._eval(v.value, env, func)
            return TOP
        return super()._eval(e, env, func)

    def _attr(self, e: ast.Attribute, base, func):
        a = e.attr
        if isinstance(base, str) and base in (SRC, TPL) and a in ("start", "stop"):
            return base
        if isinstance(base, Inst):
            if a == "__class__":
                return ClassRef(base.key)
            v = self.inst_attr(base.key, a)
            return TOP if v is None else v
        if isinstance(base, ClassRef):
            return TOP
        if a in NAME_KINDS and not isinstance(base, (Tup, Seq, Dct)):
            return NAME_KINDS[a]
        if a in ("_source_newlines", "_templated_newlines"):
            return self.field_kinds[(TBASE, "TemplatedFile")][a]
        if a == "pos_marker":
            return Inst((MARKERS, "PositionMarker"))
        return TOP

    def binop(self, e, l, r, func):
        add, sub = isinstance(e.op, ast.Add), isinstance(e.op, ast.Sub)
        if not (add or sub):
            return TOP
        node = getattr(e, "_aug", e)
        xl = (XL_ST, XL_TS)
        if l in xl or r in xl:
            if add:
                x, o = (l, r) if l in xl else (r, l)
                if o in (NEUTRAL, BOT):
                    return x
                if o in xl:
                    return TOP
                want, gives = (TPL, SRC) if x == XL_ST else (SRC, TPL)
                if o == want:
                    return gives
                if o == gives:
                    self.site("arith", node, want, o, func, False, f"a translation delta {x} is added to a {o} offset (it translates {want} offsets)")
                return TOP
            if sub and r in xl and l not in xl:
                want, gives = (SRC, TPL) if r == XL_ST else (TPL, SRC)
                if l == want:
                    return gives
                if l == gives:
                    self.site("arith", node, want, l, func, False, f"a translation delta {r} is subtracted from a {l} offset")
                return TOP
            if sub and l in xl and r in (NEUTRAL, BOT):
                return l
            return TOP
        if coord(l) and coord(r):
            if DIM[l] != DIM[r]:
                return TOP
            if l == r:
                return l if add else NEUTRAL
            if sub and DIM[l] == 0 and tuple(self.fid.get(id(func), "").split("::", 1)) in TRANSLATORS:
                self.site("arith", node, l, r, func, True, "translation delta in a reviewed translation function")
                return XL_ST if l == SRC else XL_TS
            self.mix("arith", node, l, r, func, "addition" if add else "subtraction")
            return TOP
        if coord(l):
            if r in (NEUTRAL, BOT):
                return l
            return l if add and r == TOP else TOP
        if coord(r):
            if add and l in (NEUTRAL, BOT, TOP):
                return r
            return TOP
        if l in (NEUTRAL, BOT) and r in (NEUTRAL, BOT):
            return NEUTRAL
        return TOP

    # ------------------------------------------------------------------ calls
    def _eval_call(self, e: ast.Call, env, func):
        ev = lambda x: self._eval(x, env, func)  # noqa: E731
        f = e.func
        args = [ev(a.value if isinstance(a, ast.Starred) else a) for a in e.args]
        if any(isinstance(a, ast.Starred) for a in e.args):
            args = [TOP for _ in args]
        kws: Dict[str, object] = {}
        for k in e.keywords:
            v = ev(k.value)
            if k.arg is not None:
                kws[k.arg] = v
        name = call_name(e)

        if isinstance(f, ast.Name) and f.id not in env and f.id not in env.get("__assigned__", ()):
            r = self._builtin(e, f.id, args, kws, env, func)
            if r is not None:
                return r
            res = self.repo.resolve_name(func._module, f.id)
            if res is not None:
                mm, d = res
                if isinstance(d, ast.ClassDef):
                    return self._construct(self._key_of(mm, d), args, kws, e, func)
                if isinstance(d, FuncNode):
                    return self._invoke(mm, d, None, args, kws, e, func)
            return TOP
        if isinstance(f, ast.Name):
            cv = env.get(f.id, TOP)
            if isinstance(cv, ClassRef):
                return self._construct(cv.key, args, kws, e, func)
            return TOP
        if isinstance(f, ast.Attribute):
            m = f.attr
            if name in ("object.__setattr__", "setattr") and len(e.args) >= 3 and isinstance(e.args[1], ast.Constant) and isinstance(e.args[1].value, str):
                self._attr_store(e, args[0], e.args[1].value, args[2], func)
                return NEUTRAL
            # module functions reached through an imported module (bisect.bisect_left ...)
            if isinstance(f.value, ast.Name) and f.value.id not in env and f.value.id not in env.get("__assigned__", ()):
                fq = func._module.imports.get(f.value.id)
                if fq == "bisect":
                    return self._builtin(e, m, args, kws, env, func) or TOP
            recv = ev(f.value)
            if m == "__class__" and isinstance(recv, Inst):
                return self._construct(recv.key, args, kws, e, func)
            if isinstance(recv, ClassRef):
                if m == "__new__":
                    return Inst(recv.key)
                cm, cc = self._cls(recv.key)
                r = self.repo.lookup_method(cm, cc, m)
                if r is not None:
                    return self._invoke(r[0], r[1], recv, args, kws, e, func)
                return TOP
            if isinstance(recv, Inst):
                if m == "_replace":
                    for k, v in kws.items():
                        fk = self.field_kind(recv.key, k)
                        if fk is not None:
                            self.need("ctor-field", e, fk, v, func, f"field {recv.key[1]}.{k}")
                    return recv
                cm, cc = self._cls(recv.key)
                r = self.repo.lookup_method(cm, cc, m)
                if r is not None:
                    return self._invoke(r[0], r[1], recv, args, kws, e, func)
                return TOP
            if isinstance(recv, str) and recv in TEXT_SPACE and m in ("find", "rfind", "index", "rindex"):
                return TEXT_SPACE[recv]
            if isinstance(recv, Seq):
                if m in ("append", "add") and isinstance(f.value, ast.Name) and args:
                    env[f.value.id] = Seq(jn(recv.elem, args[0]))
                    return NEUTRAL
                if m == "extend" and isinstance(f.value, ast.Name) and args and isinstance(args[0], Seq):
                    env[f.value.id] = Seq(jn(recv.elem, args[0].elem))
                    return NEUTRAL
                if m in ("pop", "copy"):
                    return recv.elem if m == "pop" else recv
                if m in ("index", "count", "remove") and args:
                    if not getattr(self, "_quiet", False):
                        self.check_compare(e, recv.elem, args[0], func, m)
                    return NEUTRAL
                return TOP
            if isinstance(recv, Dct):
                if m == "get" and e.args and isinstance(e.args[0], ast.Constant):
                    return recv.items.get(e.args[0].value, TOP)
                if m == "copy":
                    return recv
                if m == "update" and isinstance(f.value, ast.Name):
                    d = dict(recv.items)
                    for a in args:
                        if isinstance(a, Dct):
                            d.update(a.items)
                    d.update(kws)
                    for k, v in kws.items():
                        self._schema(e, k, v, func)
                    env[f.value.id] = Dct(d)
                    return NEUTRAL
                return TOP
            if m in ("append", "add") and isinstance(f.value, ast.Name) and args and recv in (BOT,):
                env[f.value.id] = Seq(args[0])
                return NEUTRAL
            # receiver of unknown class: unique-name resolution for the kinded classes' methods
            if recv in (TOP, BOT) and m in self._method_owner:
                key = self._method_owner[m]
                cm, cc = self._cls(key)
                r = self.repo.lookup_method(cm, cc, m)
                if r is not None:
                    return self._invoke(r[0], r[1], Inst(key), args, kws, e, func)
            if m in NAME_KINDS and recv in (TOP, BOT):
                return NAME_KINDS[m]  # RawFileSlice.source_slice() on an untyped receiver
            return TOP
        # anything else (call of a call, subscripted callee ...)
        ev(f)
        return TOP

    def _invoke(self, mm: Module, d, recv, args, kws, e, func):
        """Call of a resolved function / method definition."""
        f_id = self.fid.get(id(d))
        decos = [norm(x).split(".")[-1] for x in d.decorator_list]
        if f_id is None:
            # outside the analysed module set: only the declared result type is used
            return self.ann_value(mm, d.returns)
        self_val = recv
        if "classmethod" in decos and isinstance(recv, Inst):
            self_val = ClassRef(recv.key)
        bound = self._bind(d, self_val, args, kws)
        qn = tuple(f_id.split("::", 1))
        if qn == (TBASE, "TemplatedFile.get_line_pos_of_char_pos"):
            self._converter_sink(d, bound, e, func)
        if qn == (TBASE, "TemplatedFile.templated_slice_to_source_slice"):
            ps = self._params(d)
            if len(ps) > 1:
                self.need("translate-arg", e, TPL, bound.get(ps[1], TOP), func, "argument of templated_slice_to_source_slice")
        return self._call(f_id, d, bound)

    def _converter_sink(self, d, bound, e: ast.Call, func) -> None:
        ps = self._params(d)
        if len(ps) < 3:
            raise AnalysisError("RQ-space: get_line_pos_of_char_pos no longer takes (char_pos, source)")
        off = bound.get(ps[1], TOP)
        flag = None
        if len(e.args) >= 2:
            flag = e.args[1]
        for k in e.keywords:
            if k.arg == ps[2]:
                flag = k.value
        if flag is None:
            dflt = d.args.defaults[-1] if d.args.defaults else None
            val = dflt.value if isinstance(dflt, ast.Constant) else None
        elif isinstance(flag, ast.Constant):
            val = flag.value
        else:
            val = None
        if val is None or not isinstance(val, bool):
            if not getattr(self, "_quiet", False):
                self.undecided.append((e, "converter called with a non-constant `source` flag"))
            return
        self.need("converter", e, SRC if val else TPL, off, func, f"get_line_pos_of_char_pos(.., {ps[2]}={val})")

    def _construct(self, key, args, kws, e, func):
        init = self._has_init(key)
        fields = self.fields_of(key)
        if init is not None:
            mm, d = init
            if self.fid.get(id(d)) is not None:
                self._call(self.fid[id(d)], d, self._bind(d, Inst(key), args, kws))
            return Inst(key)
        names = [n for n, _, _ in fields]
        given: Dict[str, object] = {}
        for i, v in enumerate(args):
            if i < len(names):
                given[names[i]] = v
        for k, v in kws.items():
            given[k] = v
        for n, v in given.items():
            fk = self.field_kind(key, n)
            if fk is not None:
                self.need("ctor-field", e, fk, v, func, f"field {key[1]}.{n}")
        return Inst(key)

    def _builtin(self, e: ast.Call, name: str, args, kws, env, func):
        if name == "slice":
            vals = [a for a in args[:2]]
            if len(vals) == 2 and self.mix("slice-bounds", e, vals[0], vals[1], func, "slice(start, stop)"):
                return TOP
            ks = [v for v in vals if coord(v)]
            if ks:
                return ks[0]
            return NEUTRAL if vals and all(v in (NEUTRAL, BOT) for v in vals) else TOP
        if name in ("min", "max"):
            vals = [a.elem if isinstance(a, Seq) and len(args) == 1 else a for a in args]
            known = [v for v in vals if coord(v)]
            for v in known[1:]:
                if v != known[0] and DIM[v] == DIM[known[0]]:
                    self.mix("minmax", e, known[0], v, func, f"{name}(..)")
                    return TOP
            if known:
                self.site("minmax", e, known[0], known[0], func, True)
                return known[0] if all(DIM[v] == DIM[known[0]] for v in known) else TOP
            return NEUTRAL if vals and all(v in (NEUTRAL, BOT) for v in vals) else TOP
        if name in ("int", "abs", "float"):
            return args[0] if args and isinstance(args[0], str) else TOP
        if name == "cast" and len(e.args) == 2:
            t = self.ann_value(func._module, e.args[0])
            return t if t != TOP else args[1]
        if name in ("list", "tuple", "sorted", "set", "frozenset", "reversed", "iter"):
            if not args:
                return Seq(BOT)
            return args[0] if isinstance(args[0], Seq) else TOP
        if name == "enumerate" and args:
            return Seq(Tup([NEUTRAL, args[0].elem])) if isinstance(args[0], Seq) else TOP
        if name == "zip" and args:
            return Seq(Tup([a.elem if isinstance(a, Seq) else TOP for a in args]))
        if name == "next" and args:
            return args[0].elem if isinstance(args[0], Seq) else TOP
        if name in ("len", "bool", "isinstance", "any", "all", "hasattr", "range", "id", "hash", "callable", "ord"):
            return NEUTRAL
        if name in ("str", "repr", "format", "getattr", "type", "print", "super", "vars", "dict", "sum"):
            return TOP
        if name in ("bisect_left", "bisect_right", "bisect", "insort", "insort_left", "insort_right"):
            fq = func._module.imports.get(name, "")
            if fq.startswith("bisect") or isinstance(e.func, ast.Attribute):
                if len(args) >= 2:
                    tab = args[0].elem if isinstance(args[0], Seq) else TOP
                    if coord(tab) or coord(args[1]):
                        self.mix("newline-table", e, tab, args[1], func, f"{name}(table, offset)")
                return NEUTRAL
        return None


def run_space(chk, rule: str = "RQ-space"):
    """Run the inference over SCOPE and turn the sites into obligations of ``chk``."""
    sk = SpaceKinds(chk.repo)
    sk.analyse_all()
    return sk


def report_sites(chk, sk: SpaceKinds, rule: str, cats=None, files=None) -> Dict[str, int]:
    """One obligation per sink (category, node, field), over all calling contexts in which it
    was evaluated; a finding per sink that is mismatched in some context.  Returns the number
    of sinks per category; ``<rule>.<cat>_sites`` / ``_decided`` counters are set on ``chk``."""
    from .report import construct_of

    groups: Dict[tuple, List[Site]] = {}
    for s in sk.sites:
        if cats is not None and s.cat not in cats:
            continue
        if files is not None and s.node._module.relpath not in files:
            continue
        groups.setdefault((s.cat, id(s.node), s.label), []).append(s)
    counts: Dict[str, int] = {}
    decided: Dict[str, int] = {}
    for (cat, _nid, label), ss in groups.items():
        node = ss[0].node
        counts[cat] = counts.get(cat, 0) + 1
        bad = [s for s in ss if not s.ok]
        if any(s.decided for s in ss):
            decided[cat] = decided.get(cat, 0) + 1
        what = f"{cat}: {label + ': ' if label else ''}{short(node, 100)}"
        if bad:
            b = bad[0]
            via = f" (reached through {' -> '.join(b.chain)})" if len(b.chain) > 1 else ""
            chk.fail(rule, node, f"coordinate spaces mixed ({cat}): {b.msg}{via}", detail=what)
        else:
            chk.ok(rule, construct_of(node), what)
    for k, v in counts.items():
        chk.count(f"{rule}.{k}_sites", v)
    for k, v in decided.items():
        chk.count(f"{rule}.{k}_decided", v)
    return counts


# ---------------------------------------------------------------------------
# def-use helpers shared by C23 / C31 (built on sa.cfg; no names of locals are matched)
# ---------------------------------------------------------------------------
def leaves(cfg, expr, at=None, _depth: int = 0):
    """Expressions a value may come from: plain locals expanded through reaching
    definitions, conditional expressions split into their arms.  Items are
    ``(expr, path, kind)`` with ``kind`` as in :func:`sa.cfg.origins`."""
    from .cfg import origins

    if at is None:
        at = cfg.stmt_of(expr)
    if _depth > 6:
        return [(expr, (), "expr")]
    if isinstance(expr, ast.IfExp):
        return leaves(cfg, expr.body, at, _depth + 1) + leaves(cfg, expr.orelse, at, _depth + 1)
    if isinstance(expr, ast.Name):
        out = []
        for o in origins(cfg, expr, at):
            if o.kind == "expr" and isinstance(o.expr, (ast.IfExp,)) and not o.path:
                out += leaves(cfg, o.expr, o.stmt, _depth + 1)
            else:
                out.append((o.expr, tuple(o.path), o.kind))
        return out
    return [(expr, (), "expr")]


def pair_components(cfg, expr, at=None):
    """``[(call, index)]`` when ``expr`` is component ``index`` of the tuple returned by
    ``call`` on every path (``call()[i]``, ``t = call(); t[i]``, ``a, b = call(); a``);
    None when some origin is anything else."""
    out = []
    if isinstance(expr, ast.Subscript) and isinstance(expr.slice, ast.Constant) and isinstance(expr.slice.value, int):
        for e, path, kind in leaves(cfg, expr.value, at):
            if kind == "expr" and isinstance(e, ast.Call) and not path:
                out.append((e, expr.slice.value))
            else:
                return None
        return out
    for e, path, kind in leaves(cfg, expr, at):
        if kind == "expr" and isinstance(e, ast.Call) and len(path) == 1 and isinstance(path[0], int):
            out.append((e, path[0]))
        elif kind == "expr" and isinstance(e, ast.Subscript) and not path:
            sub = pair_components(cfg, e, cfg.stmt_of(e))
            if sub is None:
                return None
            out += sub
        else:
            return None
    return out


def _own_method(cfg, name: str):
    """Method / property ``name`` defined in the class that encloses ``cfg.func`` (not inherited)."""
    c = getattr(cfg.func, "_parent", None)
    if not isinstance(c, ast.ClassDef):
        return None
    for item in c.body:
        if isinstance(item, FuncNode) and item.name == name:
            return item
    return None


def _helper_paths(cfg, name: str, as_property: bool, _depth: int):
    """Attribute chains returned by the zero-argument helper ``self.<name>()`` (or property
    ``self.<name>``) of the same class: an extracted accessor is looked through."""
    from .cfg import cfg_of

    m = _own_method(cfg, name)
    if m is None or _depth > 3:
        return None
    decos = [norm(d).split(".")[-1] for d in m.decorator_list]
    is_prop = "property" in decos or "cached_property" in decos
    if is_prop != as_property or "staticmethod" in decos or "classmethod" in decos:
        return None
    if len(m.args.args) != 1 or m.args.kwonlyargs or m.args.vararg or m.args.kwarg:
        return None
    mcfg = cfg_of(m)
    rets = [r for r in walk_local(m) if isinstance(r, ast.Return)]
    if not rets or any(r.value is None for r in rets):
        return None
    out = []
    for r in rets:
        sub = attr_path(mcfg, r.value, r, _depth + 1)
        if sub is None or any(p[0] != m.args.args[0].arg for p in sub):
            return None
        out += [("self",) + p[1:] for p in sub]
    return out


def attr_path(cfg, expr, at=None, _depth: int = 0):
    """Attribute chains ``('self', 'source_slice', 'start')`` an expression may denote,
    expanding plain locals at any level of the chain (``s = self.source_slice; s.start``) and
    zero-argument accessor methods / properties of the same class (``self._first()``).
    None when some origin is not an attribute chain rooted at a parameter."""
    from .cfg import origins

    if at is None:
        at = cfg.stmt_of(expr)
    if isinstance(expr, ast.Attribute):
        bases = attr_path(cfg, expr.value, at, _depth)
        if bases is None:
            return None
        out = []
        for b in bases:
            hp = _helper_paths(cfg, expr.attr, True, _depth) if b == ("self",) else None
            out += hp if hp else [b + (expr.attr,)]
        return out
    if isinstance(expr, ast.Call) and isinstance(expr.func, ast.Attribute) and not expr.args and not expr.keywords:
        if attr_path(cfg, expr.func.value, at, _depth) == [("self",)]:
            return _helper_paths(cfg, expr.func.attr, False, _depth)
        return None
    if isinstance(expr, ast.Name):
        out = []
        for o in origins(cfg, expr, at):
            if o.kind == "param" and not o.path:
                out.append((o.expr.arg,))
            elif o.kind == "expr" and not o.path and isinstance(o.expr, (ast.Attribute, ast.Name, ast.Call)):
                sub = attr_path(cfg, o.expr, o.stmt, _depth)
                if sub is None:
                    return None
                out += sub
            else:
                return None
        return out or None
    return None
