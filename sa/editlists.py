"""Non-emptiness inference for the edit list of create / replace fixes (used by C05 / R05h).

``LintFix.__init__`` asserts that a ``create_before`` / ``create_after`` fix has an edit ("A create fix
must have an edit") and ``apply_fixes`` asserts the same for every non-delete fix it applies ("Edit
'replace' requires `edit`").  ``judge(cx, site)`` decides whether the edit argument of a
``LintFix.create_before/create_after/replace(anchor, X)`` / ``LintFix("<type>", anchor, X)`` call is
*known non-empty* where the fix is built.  It returns ``(idiom, explanation)`` or ``(None, why-not)``.

Idioms (the inference of ``sa/subscripts.py`` is reused: ``_min_len``, ``_flow_facts``, ``_local_facts``,
``_implied_min``, ``_same_value``, ``_mutated_between``; ``call_sites`` / ``_bind`` of ``sa/asserts.py``):

``display``        a list / tuple display with at least one non-starred element, ``[*X]`` / ``list(X)`` /
                   ``tuple(X)`` / ``sorted(X)`` / ``cast(T, X)`` of something known non-empty, ``A + B`` with
                   one side known non-empty, ``D * n`` with n a positive integer on every path, ``A or B``,
                   ``A if c else B`` (both branches, or the only branch the known facts allow), through
                   local definitions (every reaching one); what ``_min_len`` knows besides (``split(sep)`` ..)
``append``         a local list: from every definition that reaches the site, every path to the site passes
                   an unconditional ``X.append(..)`` / ``X.insert(..)`` / ``X.extend(<non-empty>)`` /
                   ``X += <non-empty>`` (a ``for`` over an iterable known non-empty by construction whose
                   body grows X on every way round counts as such a passage), and X is never shrunk
``branch`` ..      the value is tested for truthiness where the fix is built: dominating ``if X`` /
                   ``if not X: return|continue`` / ``len(X) > 0`` / boolean locals / ``while X``,
                   ``short-circuit``, ``conditional-expression``, ``comprehension``, ``for-loop``, ``derived``
                   (the fact kinds of ``sa/subscripts.py``), ``assert`` counted separately
``case-split``     a known disjunction ``if A or B:``: the value is non-empty under each disjunct
                   (``([n] if A else []) + list(B)``)
``returns``        a call of a function of the tree (plain name, or ``self.m`` defined once) whose every
                   ``return`` gives a value that is non-empty where it is returned
``contract``       a parameter, and every in-tree call site of the function passes a value that is known
                   non-empty there (one level; the function must have a call site; for a method whose name
                   other classes define too the call sites are resolved by receiver, see ``call_sites``)

Not looked into: the *elements* of the list (R05f covers empty whitespace), lists passed through attributes
or containers, ``LintFix`` reached under another name than ``LintFix``.
"""

from __future__ import annotations

import ast
from typing import List, Optional, Tuple

from . import asserts as _asserts
from . import subscripts as _subs
from .cfg import Branch, cfg_of, origins
from .index import FuncNode, enclosing_class, enclosing_function, kwarg, last_attr, norm, qualname, walk_local

H_SCOPES = ("src/sqlfluff/rules/", "src/sqlfluff/utils/")
H_EXCLUDE = ("src/sqlfluff/utils/testing/",)
EDIT_TYPES = ("create_before", "create_after", "replace")
_WRAP = ("list", "tuple", "sorted", "reversed")
_GROW_CALLS = ("append", "insert", "appendleft")
_GROW_SEQ = ("extend", "extendleft")


class Site:
    __slots__ = ("m", "f", "call", "types", "arg", "form")

    def __init__(self, m, f, call, types, arg, form):
        self.m, self.f, self.call, self.types, self.arg, self.form = m, f, call, types, arg, form


def _real_function(n: ast.AST):
    f = enclosing_function(n)
    while f is not None and not isinstance(f, FuncNode):
        f = enclosing_function(f)
    return f


def _is_lintfix(e: ast.AST) -> bool:
    return norm(e).split(".")[-1] == "LintFix"


def _type_values(call: ast.Call, f) -> Optional[List[str]]:
    """Possible edit types of ``LintFix(<t>, ..)``: constants, through local definitions (None = unknown)."""
    t = call.args[0] if call.args else kwarg(call, "edit_type")
    if t is None:
        return None
    if isinstance(t, ast.Constant) and isinstance(t.value, str):
        return [t.value]
    if isinstance(t, ast.Name) and isinstance(f, FuncNode):
        cfg = cfg_of(f)
        st = cfg.stmt_of(call)
        out = []
        for o in origins(cfg, t, st):
            if o.kind == "expr" and not o.path and isinstance(o.expr, ast.Constant) and isinstance(o.expr.value, str):
                out.append(o.expr.value)
            else:
                return None
        return sorted(set(out)) or None
    return None


def sites(repo):
    """Every call in rules/ and utils/ that builds a create / replace fix, with its edit argument."""
    for scope in H_SCOPES:
        for m in repo.iter_modules(scope):
            if m.relpath.startswith(H_EXCLUDE) or "LintFix" not in m.text:
                continue
            for n in ast.walk(m.tree):
                if not isinstance(n, ast.Call):
                    continue
                fn = n.func
                f = _real_function(n)
                if isinstance(fn, ast.Attribute) and fn.attr in EDIT_TYPES and _is_lintfix(fn.value):
                    arg = n.args[1] if len(n.args) > 1 and not any(isinstance(a, ast.Starred) for a in n.args[:2]) else kwarg(n, "edit_segments")
                    yield Site(m, f, n, [fn.attr], arg, f"LintFix.{fn.attr}")
                elif _is_lintfix(fn) and isinstance(fn, (ast.Name, ast.Attribute)) and (n.args or n.keywords):
                    types = _type_values(n, f)
                    if types is not None and not (set(types) & set(EDIT_TYPES)):
                        continue  # delete
                    arg = n.args[2] if len(n.args) > 2 and not any(isinstance(a, ast.Starred) for a in n.args[:3]) else kwarg(n, "edit")
                    yield Site(m, f, n, types or ["<computed>"], arg, "LintFix")


def site_key(s: Site) -> Tuple[str, str, str]:
    return (s.m.relpath[len("src/sqlfluff/"):], qualname(s.f) if s.f is not None else "<module>", norm(s.arg) if s.arg is not None else "<no edit>")


# ---------------------------------------------------------------------------


def _pos_int(cfg, e: ast.AST, at) -> bool:
    """An integer that is >= 1 on every path (constant, or a local holding such constants)."""
    v = _subs._int(e)
    if v is not None:
        return v >= 1
    if isinstance(e, ast.Name) and cfg is not None and at is not None:
        os_ = origins(cfg, e, at)
        return bool(os_) and all(o.kind == "expr" and not o.path and (_subs._int(o.expr) or 0) >= 1 for o in os_)
    return False


def _strip(e: ast.AST) -> ast.AST:
    while isinstance(e, ast.NamedExpr):
        e = e.value
    return e


class Judge:
    """Per function."""

    def __init__(self, cx: _asserts.Ctx, f, m, allow_contract: bool = True):
        self.cx, self.f, self.m = cx, f, m
        self.cfg = cfg_of(f)
        self.allow_contract = allow_contract
        self.why = ""

    # -- facts ---------------------------------------------------------------
    def _facts(self, e: ast.AST, at, extra) -> list:
        facts = _subs._local_facts(e, at) if at is not None else []
        if at is not None:
            facts += _subs._flow_facts(self.cfg, at)
            # `ok = bool(X)` / `ok = len(X)` / `ok = X` held in a local and tested (single reaching definition);
            # comparisons and boolean formulas are looked through by _flow_facts itself
            rd = self.cfg.reaching()
            for fa in list(facts):
                if fa.guard is None or not isinstance(fa.expr, ast.Name):
                    continue
                ds = rd.IN.get(fa.guard, {}).get(fa.expr.id, set())
                if len(ds) != 1:
                    continue
                (d,) = ds
                if d.kind == "assign" and not d.path and d.stmt is not None and isinstance(d.value, ast.Call) and isinstance(d.value.func, ast.Name) \
                        and d.value.func.id in ("bool", "len") and len(d.value.args) == 1 and not d.value.keywords:
                    facts.append(_subs.Fact(d.value, fa.truth, d.stmt, fa.kind))
        return facts + list(extra)

    def _by_fact(self, e: ast.AST, at, facts) -> Optional[str]:
        cfg, cx, f = self.cfg, self.cx, self.f
        if any(isinstance(c, ast.Call) and last_attr(c) in _subs._IMPURE for c in ast.walk(e)):
            return None
        rtext = norm(e)
        best = None
        for fa in facts:
            g = fa.guard

            def is_recv(x, g=g):
                if g is None:
                    return norm(x) == rtext
                return _subs._same_value(cfg, x, g, e, at)

            def is_recv_at(x, xat, before):
                if isinstance(x, tuple):
                    return False
                if xat is None:
                    return norm(x) == rtext
                return _subs._same_value(cfg, x, xat, e, at, a_before=before)

            fa2 = _subs.Fact(fa.expr, fa.truth, fa.guard, fa.kind)
            v = _subs._implied_min(cfg, fa2, is_recv, g if g is not None else at, is_recv_at)
            if v < 1:
                continue
            if g is not None and _subs._mutated_between(cx, cfg, f, rtext, g, at):
                continue
            kind = fa2.kind.split(":")[0]
            rank = _subs._KIND_RANK.get(kind, 9)
            if best is None or rank < best[0]:
                best = (rank, kind)
        return best[1] if best else None

    def _contradicted(self, test: ast.AST, pol: bool, at, facts) -> bool:
        """Do the known facts exclude ``test`` having truth value ``pol``?"""
        from .cfg import atoms

        for a, p in atoms(test, pol):
            for fa in facts:
                if fa.truth == p:
                    continue
                if fa.guard is None:
                    same = norm(fa.expr) == norm(a)
                else:
                    same = _subs._same_value(self.cfg, fa.expr, fa.guard, a, at)
                if same:
                    return True
        return False

    # -- the judge --------------------------------------------------------------
    def nonempty(self, e: ast.AST, at, extra=(), depth: int = 0) -> Optional[str]:
        r = self._nonempty(e, at, extra, depth)
        if not r and depth == 0 and not extra:
            r = self._case_split(e, at)
        return r

    def _nonempty(self, e: ast.AST, at, extra, depth: int) -> Optional[str]:
        if depth > 7:
            return None
        e = _strip(e)
        cfg = self.cfg
        if isinstance(e, (ast.List, ast.Tuple)):
            if any(not isinstance(x, ast.Starred) for x in e.elts):
                return "display"
            for x in e.elts:
                r = self.nonempty(x.value, at, extra, depth + 1)
                if r:
                    return r
            return None
        if isinstance(e, ast.BinOp) and isinstance(e.op, ast.Add):
            return self.nonempty(e.left, at, extra, depth + 1) or self.nonempty(e.right, at, extra, depth + 1)
        if isinstance(e, ast.BinOp) and isinstance(e.op, ast.Mult):
            for seq, num in ((e.left, e.right), (e.right, e.left)):
                if _pos_int(cfg, num, at) and self.nonempty(seq, at, extra, depth + 1):
                    return "display"
            return None
        if isinstance(e, ast.IfExp):
            facts = self._facts(e, at, extra)
            got = []
            for br, pol in ((e.body, True), (e.orelse, False)):
                if self._contradicted(e.test, pol, at, facts):
                    continue
                r = self.nonempty(br, at, extra, depth + 1)
                if not r:
                    return None
                got.append(r)
            return got[0] if got else None
        if isinstance(e, ast.BoolOp) and isinstance(e.op, ast.Or):
            # an earlier operand is the result only when it is truthy
            return self.nonempty(e.values[-1], at, extra, depth + 1)
        if isinstance(e, ast.Call) and isinstance(e.func, ast.Name) and not e.keywords:
            if e.func.id in _WRAP and len(e.args) == 1 and not isinstance(e.args[0], ast.Starred):
                return self.nonempty(e.args[0], at, extra, depth + 1)
            if e.func.id == "cast" and len(e.args) == 2:
                return self.nonempty(e.args[1], at, extra, depth + 1)
        facts = self._facts(e, at, extra)
        r = self._by_fact(e, at, facts)
        if r:
            return r
        if isinstance(e, ast.Name):
            r = self._name(e, at, extra, depth)
            if r:
                return r
        elif at is not None and _subs._min_len(self.cx, e, cfg, at, self.f, self.m) >= 1:
            return "display"
        elif isinstance(e, ast.Call):
            r = self._returns(e, depth)
            if r:
                return r
        return None

    def _case_split(self, e, at) -> Optional[str]:
        for fa in self._facts(e, at, ()):
            x = fa.expr
            if fa.truth and isinstance(x, ast.BoolOp) and isinstance(x.op, ast.Or):
                if all(self.nonempty(e, at, (_subs.Fact(d, True, fa.guard, fa.kind),), 1) for d in x.values):
                    return "case-split"
        return None

    # -- local names ------------------------------------------------------------
    def _grows(self, n, name: str) -> bool:
        """Is CFG node ``n`` a statement that unconditionally adds an element to local ``name``?"""
        if isinstance(n, ast.Expr) and isinstance(n.value, ast.Call) and isinstance(n.value.func, ast.Attribute):
            c = n.value
            if isinstance(c.func.value, ast.Name) and c.func.value.id == name:
                if c.func.attr in _GROW_CALLS and (c.args or c.keywords):
                    return True
                if c.func.attr in _GROW_SEQ and len(c.args) == 1:
                    return bool(self.nonempty(c.args[0], n, (), 3))
        if isinstance(n, ast.AugAssign) and isinstance(n.op, ast.Add) and isinstance(n.target, ast.Name) and n.target.id == name:
            return bool(self.nonempty(n.value, n, (), 3))
        return False

    def _loop_exits_that_grow(self, name: str, grow: set) -> set:
        """``Branch(for, False)`` nodes of loops over an iterable that is non-empty by construction and whose
        body cannot get back to the loop head without growing ``name``."""
        cfg = self.cfg
        out = set()
        for n in cfg.nodes:
            if isinstance(n, Branch) and not n.polarity and isinstance(n.stmt, ast.For) and n.stmt in cfg.succ:
                loop = n.stmt
                if _subs._min_len(self.cx, loop.iter, cfg, loop, self.f, self.m) < 1:
                    continue
                heads = [b for b in cfg.succ[loop] if isinstance(b, Branch) and b.polarity and b.stmt is loop]
                if not heads:
                    continue
                if any(cfg.paths_avoiding(h, loop, lambda x: x in grow) for h in heads):
                    continue
                out.add(n)
        return out

    def _name(self, e: ast.Name, at, extra, depth: int) -> Optional[str]:
        cfg, cx, f = self.cfg, self.cx, self.f
        name = e.id
        if at is None or cx.may_change(f, name):
            return None
        ds = cfg.reaching().defs_at(at, name)
        base = [d for d in ds if d.kind != "aug"]
        if not base:
            return None
        for d in ds:
            if d.kind == "aug" and not isinstance(d.stmt.op, ast.Add):
                return None
        grow = None
        idioms = []
        for d in sorted(base, key=lambda d: getattr(d.stmt, "lineno", 0)):
            r = None
            if d.kind in ("assign", "walrus") and d.value is not None:
                val, path = d.value, d.path
                while path and isinstance(val, (ast.Tuple, ast.List)) and isinstance(path[0], int) and path[0] < len(val.elts) and not any(isinstance(x, ast.Starred) for x in val.elts):
                    val, path = val.elts[path[0]], path[1:]
                if not path:
                    r = self.nonempty(val, d.stmt, (), depth + 1)
            elif d.kind == "param":
                r = self._contract(name)
            start = cfg.entry if d.kind == "param" else d.stmt  # parameters are defined at the entry
            if not r and start is not None and start in cfg.succ and start is not at:
                if grow is None:
                    grow = {n for n in cfg.nodes if self._grows(n, name)}
                if grow:
                    exits = {x for x in self._loop_exits_that_grow(name, grow) if d.stmt is None or not _inside(d.stmt, x.stmt)}
                    block = grow | exits
                    if not cfg.paths_avoiding(start, at, lambda n: n in block):
                        r = "append"
            if not r:
                return None
            idioms.append(r)
        for pref in ("contract", "append"):
            if pref in idioms:
                return pref
        return idioms[0]

    # -- contract ---------------------------------------------------------------
    def _contract(self, pname: str) -> Optional[str]:
        if not self.allow_contract:
            return None
        cx, f, m = self.cx, self.f, self.m
        cs = call_sites(cx, f, m)
        if cs is None:
            self.why = f"the call sites of {f.name}() cannot be told apart from calls of other functions of that name"
            return None
        if not cs:
            self.why = f"{f.name}() has no call site in the tree"
            return None
        for cm, call in cs:
            cf = _real_function(call)
            where_ = f"{cm.relpath[len('src/sqlfluff/'):]}::{qualname(cf) if cf is not None else '<module>'}"
            bound = _asserts._bind(f, call)
            if not bound or pname not in bound or cf is None:
                self.why = f"the call in {where_} cannot be bound to the parameters"
                return None
            j = Judge(cx, cf, cm, allow_contract=False)
            arg = bound[pname]
            at = j.cfg.stmt_of(arg)
            if at is None or not j.nonempty(arg, at, (), 1):
                self.why = f"the call in {where_} passes `{norm(arg)[:80]}`, which is not known to be non-empty there"
                return None
        return "contract"

    # -- returns ----------------------------------------------------------------
    def _returns(self, call: ast.Call, depth: int) -> Optional[str]:
        """A call of a function of the tree (plain name or ``self.m``) whose every ``return`` gives a
        value that is non-empty where it is returned."""
        if depth > 3:
            return None
        cx, m = self.cx, self.m
        fn = call.func
        target = None
        if isinstance(fn, ast.Name):
            r = cx.repo.resolve_name(m, fn.id)
            if r and isinstance(r[1], FuncNode):
                target = r
        elif isinstance(fn, ast.Attribute) and isinstance(fn.value, ast.Name) and fn.value.id in ("self", "cls"):
            c = enclosing_class(call)
            if c is not None:
                # every override in the rule classes that inherit the caller must agree: only final lookups
                r = cx.repo.lookup_method(m, c, fn.attr)
                if r and isinstance(r[1], FuncNode) and len([d for d in cx.defs_named(fn.attr)]) == 1:
                    target = r
        if target is None:
            return None
        tm, tf = target
        if any(isinstance(n, (ast.Yield, ast.YieldFrom)) for n in walk_local(tf)):
            return None
        rets = [n for n in walk_local(tf) if isinstance(n, ast.Return)]
        if not rets:
            return None
        j = Judge(cx, tf, tm, allow_contract=False)
        ends_open = j.cfg.exit in j.cfg.succ and any(not isinstance(p, ast.Return) for p in j.cfg.pred[j.cfg.exit])
        if ends_open:
            return None  # may fall off the end (returns None)
        for r_ in rets:
            if r_.value is None or not j.cfg.reachable(r_):
                if r_.value is None:
                    return None
                continue
            if not j.nonempty(r_.value, r_, (), depth + 4):
                return None
        return "returns"


_STR_ATTRS = ("raw", "raw_upper", "source_str", "name")
_STR_METHODS = ("upper", "lower", "strip", "lstrip", "rstrip", "replace", "format", "join", "get_type", "raw_normalized")


def _strish(cfg, e: ast.AST, at, depth: int = 0) -> bool:
    """Is ``e`` provably a ``str`` (so that ``e.replace(..)`` is ``str.replace``)?"""
    if depth > 3:
        return False
    if isinstance(e, ast.JoinedStr) or (isinstance(e, ast.Constant) and isinstance(e.value, str)):
        return True
    if isinstance(e, ast.Attribute) and e.attr in _STR_ATTRS:
        return True
    if isinstance(e, ast.Call):
        if isinstance(e.func, ast.Name) and e.func.id == "str":
            return True
        if isinstance(e.func, ast.Attribute) and e.func.attr in _STR_METHODS:
            return True
    if isinstance(e, ast.Name) and cfg is not None and at is not None:
        os_ = origins(cfg, e, at)
        if not os_:
            return False
        for o in os_:
            if o.kind == "param" and not o.path:
                ann = getattr(o.expr, "annotation", None)
                if ann is None or norm(ann) not in ("str", "'str'"):
                    return False
            elif o.kind == "expr" and not o.path:
                if not _strish(cfg, o.expr, o.stmt, depth + 1):
                    return False
            else:
                return False
        return True
    return False


def call_sites(cx: _asserts.Ctx, f, m) -> Optional[list]:
    """``sa.asserts.call_sites`` and, where that gives up on a method whose name other classes define too
    (``ReflowSequence.replace`` next to ``LintFix.replace`` and ``str.replace``), a resolution by receiver:
    a chain of methods of the class that are annotated to return the class, rooted at the class itself
    (``C.from_x(..).m(..)``), is a call of the method; a receiver that is another class of the tree or
    provably a ``str`` is not; any other receiver makes the call sites unknown (None)."""
    cs = _asserts.call_sites(cx, f, m)
    if cs is not None:
        return cs
    c = enclosing_class(f)
    if c is None:
        return None
    repo = cx.repo

    def returns_self(meth: str) -> bool:
        r = repo.lookup_method(m, c, meth)
        if not r or not isinstance(r[1], FuncNode) or r[1].returns is None:
            return False
        return norm(r[1].returns).strip("'\"") == c.name

    out = []
    for cm, call in cx.calls_named(f.name):
        fn = call.func
        if not isinstance(fn, ast.Attribute):
            continue
        recv = fn.value
        chain = []
        root = recv
        while isinstance(root, ast.Call) and isinstance(root.func, ast.Attribute):
            chain.append(root.func.attr)
            root = root.func.value
        if isinstance(root, ast.Call) and isinstance(root.func, ast.Name):
            chain.append("__init__")
            root = root.func
        if isinstance(root, ast.Name):
            r = repo.resolve_name(cm, root.id)
            if r and isinstance(r[1], ast.ClassDef):
                if r[1] is not c:
                    if not chain:
                        continue  # OtherClass.m(..)
                    return None
                if chain and all(x == "__init__" or returns_self(x) for x in chain):
                    out.append((cm, call))
                    continue
                return None
            if root.id in ("self", "cls") and not chain:
                cc = enclosing_class(call)
                rr = repo.lookup_method(cm, cc, f.name) if cc is not None else None
                if rr and rr[1] is f:
                    out.append((cm, call))
                    continue
                if rr:
                    continue
                return None
        if not call.args and call.keywords and all(k.arg is None for k in call.keywords) and f.args.kwarg is None:
            continue  # m(**{..}) cannot be a call of a method without ** parameter that has positional ones
        cf = _real_function(call)
        ccfg = cfg_of(cf) if cf is not None else None
        at = ccfg.stmt_of(call) if ccfg is not None else None
        if (call.args and isinstance(call.args[0], ast.Constant) and isinstance(call.args[0].value, str)) or _strish(ccfg, recv, at):
            continue
        return None
    return out


def _inside(stmt, loop) -> bool:
    p = stmt
    while p is not None:
        if p is loop:
            return True
        p = getattr(p, "_parent", None)
    return False


def judge(cx: _asserts.Ctx, s: Site) -> Tuple[Optional[str], str]:
    if s.arg is None:
        return None, "no edit argument"
    if s.f is None:
        return None, "module level"
    j = Judge(cx, s.f, s.m)
    st = j.cfg.stmt_of(s.call)
    if st is None:
        return None, "statement not found"
    if not j.cfg.reachable(st):
        return "unreachable", "statement not reachable"
    r = j.nonempty(s.arg, st)
    if r:
        return r, "known non-empty"
    return None, j.why or "nothing known where the fix is built implies that the edit list has an element"
