"""C05 — no rule fails internally (decided clause: *shapes* of latent IndexError / StopIteration / ValueError, the
exception-to-violation handler, and flag forwarding in recursive walks).

R05a  unbounded index scan.  A ``while`` loop (or ``for .. in count()``) in
      ``rules/`` or ``utils/`` that subscripts a sequence with an index variable
      which the loop itself advances, without a bound of that index against the
      sequence's length that is known at the subscript.

      Accepted idioms (each is a *fact known at the subscript*: a conjunct of the
      loop/if test standing to the left of the subscript (short circuit), or a
      branch condition that dominates the subscript's statement, provided the
      index is not advanced between the test and the subscript):

        ``i < len(s)``  ``i + k < len(s)``  ``i < n - 1`` with ``n = len(s)``
        ``len(s) > i``  ``not (i >= len(s))`` / ``if i >= len(s): break``
        (for decreasing indices) ``i >= 0``  ``i > 0``  ``0 <= i``
        the subscript standing inside ``try: .. except IndexError/LookupError/Exception``
        slices (never raise); ``for i in range(len(s))`` / ``enumerate`` are not
        index scans in the sense of this rule and are not examined.

      When both the bound and the subscript are linear in the index
      (``i + a < len(s) + b`` against ``s[i + k]``) the offsets are compared, so a
      bound that is off by one is reported too.

R05b  ``next(it)`` without default and ``seq.index(x)`` in ``rules/`` and ``utils/``.
      A site is accepted when (i) it stands in a ``try`` whose handler catches
      StopIteration / ValueError (or Exception) and does not raise, (ii) for
      ``index``: a dominating ``x in seq`` test, or (iii) it is one of the sites
      read once and frozen in ``REVIEWED`` below (keyed by function + normalised
      call text, with the reason).  TEST-class entries name the dominating
      condition they rely on; if it is gone the entry no longer applies.  A site
      in none of the three groups is a new unreviewed way to raise inside a rule.

R05c  ``BaseRule.crawl`` converts anything ``_eval`` (and the whole-rule native
      ``_eval_rust``) raises into an "Unexpected exception" ``SQLLintError``: the call
      stands in a ``try`` whose handlers are exactly ``(bdb.BdbQuit,
      KeyboardInterrupt) -> raise`` and ``Exception -> log, append SQLLintError,
      return`` (no ``raise`` in the converting handler).

R05d  flag forwarding in recursive / delegating calls (see ``_r05d``).

R05e  constant-index subscripts.  Every ``X[k]`` / ``X[-k]`` with a literal ``k`` (Load
      context) in ``rules/`` and ``utils/`` (``utils/testing`` excluded) is *guarded*: a
      fact known at the subscript implies that ``X`` has more than ``k`` elements.  The
      guard inference and the list of accepted idioms live in ``sa/subscripts.py``
      (dominating truthiness / ``len`` tests, short circuit, conditional expression,
      comprehension filter, ``for`` over the collection, ``try/except IndexError``,
      construction with a known number of elements, ``str.split(sep)``, values derived
      through the utils.functional API, ``[f(r) for r in X] == [a, b]``, typed
      ReflowBlocks, the crawler guarantee for ``context.parent_stack``).  A site the
      inference cannot discharge must be an entry of ``R05E_TABLE`` -- read once, keyed
      by (path, qualified function, normalised subscript text) with the reason why the
      collection is long enough:

        PARSER        child list / raw-segment list of a parsed node of a never-raw type
                      (``MatchResult.apply`` cannot build a node over an empty slice); the
                      type list is re-checked against the dialect grammar graph in the
                      thorough tier
        GRAMMAR       a named fact about the dialect grammars
        LEXER         lexed tokens have a non-empty raw
        CONSTRUCTION  built by the surrounding code with that many elements
        CONTRACT      precondition established by the (only) callers
        CRAWLER       crawler guarantee reached through a helper
        INVARIANT     data-model invariant of utils/reflow (I-ALT, I-LINE, one-segment blocks)
        NO_WITNESS    no argument found and no crashing input found: listed, counted
                      separately (``R05e.no_witness``), not claimed to be safe

      An unguarded site that is not in the table (new code, a dropped guard, ``.get(0)``
      turned into ``[0]``, one more occurrence than reviewed) is a violation.  A table
      entry whose site vanished is a stale note.  ``ReflowBlock`` constructors must pass a
      one-element ``segments`` tuple (what the ``reflow-block`` idiom relies on).
      An ``assert`` is accepted as a guard of the *IndexError* shape only (it turns the
      failure into an AssertionError; counted as ``R05e.guarded.assert``).

R05g  ``assert`` statements.  Every ``assert <cond>`` in ``rules/`` and ``utils/`` (``utils/testing``
      excluded) raises AssertionError inside a rule when the condition is false, which R05c turns
      into an "Unexpected exception" violation.  Each one is (inference and idioms: ``sa/asserts.py``)

        discharged    the condition follows from what is known where the assert stands: dominating
                      branch conditions and earlier asserts (whole formulas, boolean locals and repeated
                      pure calls looked through), ``for x in Y.recursive_crawl(T..)``, the crawler guarantee
                      for ``<ctx>.segment`` (``SegmentSeekerCrawler({..})`` / ``RootOnlyCrawler()`` of every
                      rule class running the function), the functional API (non-empty ``Segments`` =>
                      ``.get()`` is a segment; a non-empty derived selection => non-empty receiver),
                      ``"t" in X.direct_descendant_type_set`` <=> ``X.get_child("t")``, ``try/except
                      AssertionError``, a parameter condition that holds at every call site (``contract``,
                      ``caller-constants``), a value built by a constructor / non-Optional function
        typing-only   ``X.pos_marker`` [``is not None``] (also through a local) where X is not a segment
                      constructed in the same function: every segment of a parsed tree carries a position
                      marker (lexer, ``BaseSegment.__init__``, re-positioning after each fix loop); the
                      assert exists for mypy
        table         an entry of ``R05G_TABLE`` -- read once, keyed by (path, qualified function,
                      normalised condition) with the number of reviewed occurrences, a class and the reason
                      why the condition cannot be false:
                        PARSER / GRAMMAR   shape of parsed nodes / a named fact about the dialect grammars
                        CONSTRUCTION       follows from how the surrounding code built the value
                        CONTRACT           established by all callers in the tree (named in the reason)
                        INVARIANT          data-model invariant of utils/reflow
                        CONFIG             holds for every documented value of a configuration key
                                           (an undocumented value makes it fail: noted in the reason)
                        NO_WITNESS         no argument found and no failing input found: listed, counted
                                           separately (``R05g.no_witness``), not claimed to be safe

      An assert in none of the groups (new code, a dropped guard, one more occurrence than reviewed)
      is a violation.  A table entry whose assert vanished or is discharged now is a stale note.
      What "a segment is always truthy" relies on is checked too: no segment class defines
      ``__bool__`` / ``__len__``.

R05h  fixes are never built with an empty edit.  ``LintFix.__init__`` asserts that a create fix has an
      edit ("A create fix must have an edit" -> 'Unexpected exception' violation); a ``replace`` fix with
      an empty edit passes the constructor and fails later, outside the converting handler:
      ``get_fix_slices`` subscripts ``source_edit_slices[0]`` (IndexError that aborts the lint run) and
      ``apply_fixes`` asserts "Edit 'replace' requires `edit`".  Every ``LintFix.create_before /
      create_after / replace(anchor, X)`` and ``LintFix("<type>", anchor, X)`` (type not provably
      ``delete``) in ``rules/`` and ``utils/`` (``utils/testing`` excluded) is

        discharged    X is known non-empty where the fix is built (inference and idioms:
                      ``sa/editlists.py``): ``display`` (a display with a non-starred element,
                      concatenation / ``list()`` / ``[*x]`` / ``D * n`` of such, through locals),
                      ``append`` (an unconditional append / ``+= [x]`` on every path since the list was
                      created), a dominating truthiness test (``branch``, ``short-circuit``,
                      ``conditional-expression`` ..), ``case-split`` over a known disjunction,
                      ``returns`` (a function of the tree whose every return is non-empty),
                      ``contract`` (a parameter that every in-tree call site passes non-empty)
        table         a row of ``R05H_TABLE`` keyed by (path, qualified function, normalised argument)
                      with the number of reviewed occurrences, a class (CONSTRUCTION / PARSER / GRAMMAR /
                      CONTRACT / NO_WITNESS) and the reason; a row may name a *witness*: an expression
                      that must be known truthy at the site, without which the row does not apply

      Anything else is a violation.  The two asserts and the unguarded subscript the rule is about are
      anchors (gone -> analysis error: the premise changed, re-read).
"""

from __future__ import annotations

import ast
from typing import Dict, List, Optional, Tuple

from ..cfg import Branch, atoms, cfg_of, origins
from ..index import (
    AnalysisError,
    FuncNode,
    call_name,
    calls_in,
    enclosing_function,
    kwarg,
    last_attr,
    norm,
    qualname,
    short,
    walk_local,
)
from ..report import construct_of
from ..flowutil import param_origin, sole_expr_origin
from .. import subscripts as _subs
from .. import asserts as _asserts

SCOPES = ("src/sqlfluff/rules/", "src/sqlfluff/utils/")
BASE = "src/sqlfluff/core/rules/base.py"

# ---------------------------------------------------------------------------
# R05b frozen classification (read once, 2026-09; see module docstring)
#   key: ("<path below src/sqlfluff/>::<function qualname>", "<normalised call>")
#   value: (CLASS, reason[, witness])
#     CONSTRUCTION  the element was taken from that very collection / the iterable
#                   is non-empty by the way it was just built
#     TEST          a dominating test establishes membership (witness = text that
#                   must occur in a condition known at the site)
#     GRAMMAR       the parse-tree shape guaranteed by the dialect grammar
#     CONTRACT      documented precondition of a helper API (caller's duty)
#     UNREVIEWED    read, but no argument found that it cannot raise; listed in the
#                   evidence, neither accepted nor reported
# ---------------------------------------------------------------------------
R = "rules/"
U = "utils/"
REVIEWED: Dict[Tuple[str, str], tuple] = {
    # ---- next() without default -------------------------------------------
    (R + "ambiguous/AM04.py::Rule_AM04._handle_alias",
     "next(query.crawl_sources(alias_info.from_expression_element, True))"):
        ("UNREVIEWED", "crawl_sources() yields nothing if the from_expression_element has neither a table reference, a nested select nor a table_expression child; no dialect grammar found that produces that, none proven impossible"),
    (R + "ambiguous/AM07.py::Rule_AM07.__resolve_selectable_wildcard",
     "next(root_query.crawl_sources(alias_info.from_expression_element))"):
        ("UNREVIEWED", "same generator as AM04: relies on every from_expression_element having a table_expression child"),
    (R + "capitalisation/CP01.py::Rule_CP01._init_capitalisation_policy",
     "next((k for k in self.config_keywords if k.endswith('capitalisation_policy')))"):
        ("CONSTRUCTION", "config_keywords is a class constant; every CP rule class lists a *capitalisation_policy keyword"),
    (R + "convention/CV12.py::Rule_CV12._eval_gen",
     "next(join_clause.recursive_crawl('from_expression_element', no_recursive_seg_type=['select_statement']))"):
        ("UNREVIEWED", "relies on every join_clause of every dialect containing a from_expression_element outside nested selects"),
    (R + "convention/CV12.py::Rule_CV12._get_subexpression_chunks",
     "next(stop_segments_iter)"):
        ("CONSTRUCTION", "iterator over the list display [None, *..., None] built two lines above: never empty"),
    (R + "references/RF03.py::_check_references",
     "next(iter_raw_references(ref, dialect_name))"):
        ("TEST", "qualification(ref) == 'qualified' means len(list(iter_raw_references(ref))) > 1", "this_ref_type == 'qualified'"),
    (R + "structure/ST05.py::Rule_ST05._lint_query",
     "next(anchor.recursive_crawl('keyword', 'symbol'))"):
        ("GRAMMAR", "anchor is the first child of the from_expression_element of a nested select: a bracketed/table_expression (contains bracket symbols / SELECT keyword) or a keyword itself (recursive_crawl allows self)"),
    (R + "structure/ST09.py::Rule_ST09._eval",
     "next(get_from_expression_element_alias(children.recursive_crawl('from_expression_element')[0], context.dialect.name))"):
        ("UNREVIEWED", "the generator yields nothing when an alias_expression has no identifier child; not excluded for every dialect"),
    (R + "tsql/TQ01.py::Rule_TQ01._eval",
     "next((s for s in context.segment.segments if s.type == 'object_reference'))"):
        ("GRAMMAR", "tsql CreateProcedureStatementSegment has a mandatory ObjectReferenceSegment; the rule returns early for other dialects"),
    (U + "reflow/rebreak.py::first_create_anchor",
     "next((elem_buff[i].segments for i in loc_range if elem_buff[i].segments))"):
        ("UNREVIEWED", "StopIteration is caught but re-raised as NotImplementedError ('should always find something'); still an internal error if it happens"),
    # ---- seq.index(x) -----------------------------------------------------
    (R + "structure/ST05.py::_CTEBuilder.ensure_space_after_from",
     "from_clause_children.index(from_segment[0])"):
        ("CONSTRUCTION", "missing_space_after_from is only True when from_segment = from_clause_children.first(...) is non-empty"),
    (R + "convention/CV06.py::Rule_CV06._handle_preceding_inline_comments",
     "before_segment.index(same_line_comment)"):
        ("CONSTRUCTION", "same_line_comment was selected from before_segment by the generator above and is truthy here"),
    (R + "tsql/TQ03.py::Rule_TQ03._eval", "segments.index(context.segment)"):
        ("CONSTRUCTION", "crawler invariant: context.segment is a child of context.parent_stack[-1]"),
    (R + "oracle/OR01.py::Rule_OR01._eval", "segments.index(context.segment)"):
        ("CONSTRUCTION", "crawler invariant: context.segment is a child of context.parent_stack[-1]"),
    (R + "tsql/TQ04.py::Rule_TQ04._eval", "alias_expression_segments.index(alias_identifier)"):
        ("CONSTRUCTION", "alias_identifier was selected from alias_expression.segments and tested non-empty"),
    (R + "tsql/TQ04.py::Rule_TQ04._eval", "alias_expression_segments.index(alias_operator)"):
        ("CONSTRUCTION", "alias_operator = alias_expression.get_child(...) is a direct child, tested not None"),
    (R + "tsql/TQ04.py::Rule_TQ04._eval", "select_clause_segments.index(alias_expression)"):
        ("CONSTRUCTION", "crawler invariant: context.segment is a child of context.parent_stack[-1]"),
    (R + "tsql/TQ04.py::Rule_TQ04._eval", "select_clause_segments.index(expression_segment)"):
        ("CONSTRUCTION", "expression_segment was selected from select_clause_element.segments and tested non-empty"),
    (R + "layout/LT07.py::Rule_LT07._eval", "context.segment.raw_segments.index(seg)"):
        ("CONSTRUCTION", "seg is the closing bracket of a CTE found below context.segment by children()/recursive walk"),
    (R + "layout/LT03.py::Rule_LT03._check_trail_lead_shortcut", "parent.segments.index(segment)"):
        ("CONTRACT", "documented precondition 'parent must contain segment'; the only caller passes context.segment, context.parent_stack[-1]"),
    (R + "layout/LT05.py::Rule_LT05._eval", "raw_segments.index(cast(RawSegment, res.anchor))"):
        ("CONSTRUCTION", "anchors produced by break_long_lines are raw segments of the sequence built from context.segment"),
    (R + "layout/LT09.py::Rule_LT09._eval_multiple_select_target_elements", "segment.segments.index(modifier)"):
        ("CONSTRUCTION", "modifier = segment.get_child(...) is a direct child and truthy"),
    (R + "layout/LT09.py::Rule_LT09._eval_single_select_target_element", "select_children.index(modifier.get())"):
        ("CONSTRUCTION", "modifier = select_children.first(...) is non-empty at both uses (tested in the same condition / enclosing if)"),
    (R + "layout/LT09.py::Rule_LT09._eval_single_select_target_element", "select_stmt.segments.index(select_clause.get())"):
        ("CONSTRUCTION", "crawler invariant: the select_clause is a child of parent_stack[-1]"),
    (U + "reflow/helpers.py::deduce_line_indent", "root_segment.raw_segments.index(raw_segment)"):
        ("CONTRACT", "callers in rebreak pass raw segments of elements built from the same root"),
    (U + "reflow/reindent.py::_fix_long_line_with_comment", "elements.index(line_buffer[-1])"):
        ("CONTRACT", "line_buffer is a slice of elements (lint_line_length)"),
    (U + "reflow/rebreak.py::identify_rebreak_spans", "elem.depth_info.stack_hashes.index(key)"):
        ("CONSTRUCTION", "key iterates the element's own line_position_configs / keyword configs, which are keyed by its stack hashes"),
    (U + "reflow/rebreak.py::identify_keyword_rebreak_spans", "elem.depth_info.stack_hashes.index(key)"):
        ("CONSTRUCTION", "key iterates the element's own keyword_line_position_configs, keyed by its stack hashes"),
    (U + "reflow/sequence.py::ReflowSequence.from_around_target", "all_raws.index(target_raws[0])"):
        ("CONTRACT", "target_segment must be part of root_segment (documented); raw segments of a descendant are raw segments of the root"),
    (U + "reflow/sequence.py::ReflowSequence.from_around_target", "all_raws.index(target_raws[-1])"):
        ("CONTRACT", "target_segment must be part of root_segment (documented)"),
    (U + "reflow/sequence.py::ReflowSequence.replace", "current_raws.index(target_raws[0])"):
        ("CONTRACT", "target must be part of the sequence (API precondition)"),
    (U + "reflow/sequence.py::ReflowSequence.replace", "current_raws.index(target_raws[-1])"):
        ("CONTRACT", "target must be part of the sequence (API precondition)"),
    (U + "reflow/respace.py::determine_constraints", "prev_block.depth_info.stack_hashes.index(common[-1])"):
        ("CONSTRUCTION", "common = prev.common_with(next) is a prefix of prev's stack_hashes"),
    (U + "reflow/respace.py::handle_respace__inline_with_space", "segment_buffer.index(last_whitespace)"):
        ("CONTRACT", "both come from process_spacing(): last_whitespace is kept in the returned buffer"),
    (U + "reflow/elements.py::ReflowPoint.indent_to", "self.segments.index(indent_seg)"):
        ("CONSTRUCTION", "indent_seg = self._get_indent_segment() iterates self.segments"),
    (U + "reflow/elements.py::ReflowPoint.indent_to", "self.segments.index(ws_seg)"):
        ("CONSTRUCTION", "ws_seg was picked from self.segments in the loop above"),
    (U + "reflow/elements.py::ReflowPoint.respace_point", "self.segments.index(last_whitespace)"):
        ("CONSTRUCTION", "process_spacing(list(self.segments)) returns one of the segments it was given"),
    (U + "functional/segments.py::Segments.select", "self.index(start_seg)"):
        ("CONTRACT", "start_seg must be a member (API precondition)"),
    (U + "functional/segments.py::Segments.select", "self.index(stop_seg)"):
        ("CONTRACT", "stop_seg must be a member (API precondition)"),
    (U + "functional/raw_file_slices.py::RawFileSlices.select", "self.index(start_slice)"):
        ("CONTRACT", "start_slice must be a member (API precondition)"),
    (U + "functional/raw_file_slices.py::RawFileSlices.select", "self.index(stop_slice)"):
        ("CONTRACT", "stop_slice must be a member (API precondition)"),
    (U + "functional/templated_file_slices.py::TemplatedFileSlices.select", "self.index(start_slice)"):
        ("CONTRACT", "start_slice must be a member (API precondition)"),
    (U + "functional/templated_file_slices.py::TemplatedFileSlices.select", "self.index(stop_slice)"):
        ("CONTRACT", "stop_slice must be a member (API precondition)"),
}


# ---------------------------------------------------------------------------
# small helpers
# ---------------------------------------------------------------------------

def _names(e: ast.AST) -> set:
    return {n.id for n in ast.walk(e) if isinstance(n, ast.Name)}


def _is_advance(st: ast.stmt) -> List[Tuple[str, str]]:
    """(name, 'up'|'down') for statements that move an integer index."""
    out = []
    if isinstance(st, ast.AugAssign) and isinstance(st.target, ast.Name):
        if isinstance(st.op, ast.Add):
            out.append((st.target.id, "up"))
        elif isinstance(st.op, ast.Sub):
            out.append((st.target.id, "down"))
    elif isinstance(st, ast.Assign) and len(st.targets) == 1 and isinstance(st.targets[0], ast.Name):
        v = st.targets[0].id
        if isinstance(st.value, ast.BinOp) and isinstance(st.value.op, (ast.Add, ast.Sub)) and v in _names(st.value):
            down = isinstance(st.value.op, ast.Sub) and isinstance(st.value.left, ast.Name) and st.value.left.id == v
            out.append((v, "down" if down else "up"))
    return out


def _assigns_to(st: ast.AST, v: str) -> bool:
    if isinstance(st, ast.AugAssign):
        return isinstance(st.target, ast.Name) and st.target.id == v
    if isinstance(st, ast.Assign):
        return any(isinstance(t, ast.Name) and t.id == v for tg in st.targets for t in ast.walk(tg))
    if isinstance(st, (ast.For, ast.AsyncFor)):
        return any(isinstance(t, ast.Name) and t.id == v for t in ast.walk(st.target))
    return False


class Lin:
    """v*cv + c + L*cl  (v = the index variable, L = len(seq))."""

    def __init__(self, cv=0, c=0, cl=0):
        self.cv, self.c, self.cl = cv, c, cl

    def add(self, o, sign=1):
        return Lin(self.cv + sign * o.cv, self.c + sign * o.c, self.cl + sign * o.cl)


def _lin(e: ast.AST, v: str, seq: str, cfg, at, depth=0) -> Optional[Lin]:
    if isinstance(e, ast.Constant) and isinstance(e.value, int) and not isinstance(e.value, bool):
        return Lin(c=e.value)
    if isinstance(e, ast.UnaryOp) and isinstance(e.op, ast.USub):
        r = _lin(e.operand, v, seq, cfg, at, depth)
        return Lin(-r.cv, -r.c, -r.cl) if r else None
    if isinstance(e, ast.Name):
        if e.id == v:
            return Lin(cv=1)
        if depth > 2:
            return None
        # a plain local that holds len(seq) (+/- const) on every path
        os_ = origins(cfg, e, at)
        res = None
        for o in os_:
            if o.kind != "expr" or o.path:
                return None
            r = _lin(o.expr, v, seq, cfg, o.stmt, depth + 1)
            if r is None or r.cv:
                return None
            if res is not None and (res.c, res.cl) != (r.c, r.cl):
                return None
            res = r
        return res
    if isinstance(e, ast.Call) and call_name(e) == "len" and len(e.args) == 1 and norm(e.args[0]) == seq:
        return Lin(cl=1)
    if isinstance(e, ast.BinOp) and isinstance(e.op, (ast.Add, ast.Sub)):
        l = _lin(e.left, v, seq, cfg, at, depth)
        r = _lin(e.right, v, seq, cfg, at, depth)
        if l is None or r is None:
            return None
        return l.add(r, 1 if isinstance(e.op, ast.Add) else -1)
    return None


_FLIP = {ast.Lt: ast.GtE, ast.LtE: ast.Gt, ast.Gt: ast.LtE, ast.GtE: ast.Lt}


def _cmp(fact) -> Optional[Tuple[ast.AST, str, ast.AST]]:
    """Normalise (expr, truth) to (small, '<'|'<=', big)."""
    e, truth = fact
    if not (isinstance(e, ast.Compare) and len(e.ops) == 1):
        return None
    op = type(e.ops[0])
    if op not in _FLIP:
        return None
    if not truth:
        op = _FLIP[op]
    l, r = e.left, e.comparators[0]
    if op is ast.Lt:
        return l, "<", r
    if op is ast.LtE:
        return l, "<=", r
    if op is ast.Gt:
        return r, "<", l
    return r, "<=", l


def _bound_verdict(fact, v, seq, k, direction, cfg, at) -> Optional[str]:
    """'ok' / 'off:<n>' when the fact bounds the index in the needed direction."""
    c = _cmp(fact)
    if c is None:
        return None
    small, op, big = c
    strict = 1 if op == "<" else 0
    ls, lb = _lin(small, v, seq, cfg, at), _lin(big, v, seq, cfg, at)
    if direction == "up":
        # v + a (<|<=) L + b
        if ls is not None and lb is not None and ls.cv - lb.cv == 1 and lb.cl - ls.cl == 1:
            if k is None:
                return "ok"
            # v <= L + (lb.c - ls.c) - strict ; need v + k <= L - 1
            slack = (lb.c - ls.c) - strict + k + 1
            return "ok" if slack <= 0 else f"off:{slack}"
        # non-linear but of the right form: index on the small side, len(seq) on the big side
        if v in _names(small) and any(
            isinstance(n, ast.Call) and call_name(n) == "len" and n.args and norm(n.args[0]) == seq for n in ast.walk(big)
        ):
            return "ok"
        return None
    # direction down:  c (<|<=) v + a   i.e. index on the big side, constants only on the small side
    if ls is not None and lb is not None and lb.cv - ls.cv == 1 and lb.cl == ls.cl:
        if k is None:
            return "ok"
        # v >= ls.c - lb.c + strict ; need v + k >= 0
        low = ls.c - lb.c + strict + k
        return "ok" if low >= 0 else f"off:{-low}"
    return None


def _left_facts(test: ast.AST, site: ast.AST, pol=True) -> list:
    """Facts established by short-circuit evaluation before ``site`` inside ``test``."""

    def contains(x):
        return any(n is site for n in ast.walk(x))

    if isinstance(test, ast.UnaryOp) and isinstance(test.op, ast.Not):
        return _left_facts(test.operand, site, not pol)
    if isinstance(test, ast.BoolOp):
        is_and = isinstance(test.op, ast.And)
        out = []
        for val in test.values:
            if contains(val):
                return out + _left_facts(val, site, pol)
            # reaching a later operand of `and` means the earlier ones were true,
            # of `or` that they were false
            out += atoms(val, True if is_and else False)
        return out
    return []


def _in_try_catching(node: ast.AST, func: ast.AST, names: set) -> Optional[ast.ExceptHandler]:
    """Innermost handler (same function) that catches one of ``names`` for ``node``."""
    child, p = node, getattr(node, "_parent", None)
    while p is not None and p is not func:
        if isinstance(p, ast.Try) and child in p.body:
            for h in p.handlers:
                if h.type is None:
                    return h
                ts = list(h.type.elts) if isinstance(h.type, ast.Tuple) else [h.type]
                if any(norm(t).split(".")[-1] in names for t in ts):
                    return h
        if isinstance(p, FuncNode + (ast.Lambda, ast.ClassDef)):
            return None
        child, p = p, getattr(p, "_parent", None)
    return None


def _stale(cfg, guard: Branch, site_stmt, advs) -> bool:
    """Can the index be advanced after ``guard`` was evaluated and before the site?"""
    for a in advs:
        if a is site_stmt:
            continue
        if a not in cfg.succ:
            continue
        if cfg.paths_avoiding(guard, a, lambda n: n is guard) and cfg.paths_avoiding(a, site_stmt, lambda n: n is guard):
            return True
    return False


def _rel(m) -> str:
    return m.relpath[len("src/sqlfluff/"):]


# ---------------------------------------------------------------------------


def run(chk) -> None:
    chk.rule("R05a", "no while/count() loop in rules/ or utils/ subscripts a sequence with an index it advances unless a length (or >= 0) bound of that index is known at the subscript")
    chk.rule("R05b", "every next(it) without default and seq.index(x) in rules/ and utils/ is guarded (try / membership test) or is a site reviewed and frozen in the table")
    chk.rule("R05c", "BaseRule.crawl runs _eval/_eval_rust inside try: (BdbQuit, KeyboardInterrupt) re-raised, Exception logged and converted to an 'Unexpected exception' SQLLintError without re-raising")
    chk.rule("R05d", "a function in rules/ or utils/ that calls a function of its own name (recursion, or delegation to a parent/child object) forwards each of its boolean flag parameters unchanged, or the site is a reviewed table entry")
    chk.rule("R05e", "every constant-index subscript X[k] / X[-k] in rules/ and utils/ is guarded by a fact that implies len(X) > k (dominating test, short circuit, construction, try, ...; sa/subscripts.py) or is a site reviewed into R05E_TABLE with the shape invariant that makes it safe; ReflowBlock is only constructed with a one-element segments tuple")
    _r05a(chk)
    _r05b(chk)
    _r05c(chk)
    _r05d(chk)
    _r05e(chk)
    chk.rule("R05i", "a rule that keeps working memory between evaluations hands it on with every result: in a rule method that dereferences context.memory, every LintResult(...) that is returned passes memory= (a result without it resets the memory to None and the next evaluation fails on it)")
    _r05i(chk)
    chk.rule("R05f", "no WhitespaceSegment is built from a text that may be empty: the text is a non-empty constant, or known to be truthy where the segment is built (dominating test, conditional expression, short circuit), or the site is reviewed into R05F_REVIEWED -- LintFix refuses an edit that contains a segment with an empty raw (\"Invalid edit found\"), which surfaces as an 'Unexpected exception' violation")
    _r05f(chk)
    chk.rule("R05g", "every assert in rules/ and utils/ is discharged by a fact known where it stands (dominating test, crawler guarantee, functional API, call sites, construction; sa/asserts.py), is a typing-only assertion on a parsed segment's pos_marker, or is reviewed into R05G_TABLE with the reason why its condition cannot be false; no segment class defines __bool__/__len__")
    _r05g(chk)
    chk.rule("R05j", "no create_before / create_after fix in rules/ and utils/ re-creates an unfiltered positional span of tree siblings (a Segments.select(start_seg=.., stop_seg=..) without a type predicate, a slice or the whole of a node's .segments): such a span holds the Indent / Dedent metas lying between, whose raw is empty, and LintFix.__init__ asserts every segment of a create edit has a raw; spans passed through filter_meta / `not seg.is_meta` / a type predicate are accepted")
    chk.rule("R05h", "every LintFix.create_before / create_after / replace (and LintFix(<type>, ..) whose type is not provably 'delete') in rules/ and utils/ is built with an edit list that is known non-empty there (display, unconditional append on every path, dominating truthiness test, case split, non-empty returns, call-site contract; sa/editlists.py) or is a row of R05H_TABLE -- an empty create fix raises \"A create fix must have an edit\" inside the rule, an empty replace fix aborts the lint run in get_fix_slices / apply_fixes")
    _r05h(chk)
    _r05j(chk)


# ---- R05j -------------------------------------------------------------------
_R05J_WRAP = ("list", "tuple", "sorted", "reversed", "cast")
_R05J_CHILD_ATTRS = ("segments", "raw_segments")


def _r05j_mentions_meta(e: ast.AST) -> bool:
    """``sp.is_meta()`` un-negated somewhere in a predicate expression."""
    for n in ast.walk(e):
        if isinstance(n, ast.Call) and last_attr(n) == "is_meta":
            p = getattr(n, "_parent", None)
            if isinstance(p, ast.Call) and last_attr(p) == "not_":
                continue
            return True
    return False


def _r05j_spans(cfg, e: ast.AST, at, depth: int = 0, seen=None):
    """Yield (node, what) for every unfiltered positional span of tree siblings that can reach ``e``."""
    seen = seen if seen is not None else set()
    if e is None or depth > 6:
        return
    if isinstance(e, ast.Name):
        for o in origins(cfg, e, at):
            if o.kind == "expr" and isinstance(o.expr, ast.AST) and id(o.expr) not in seen:
                seen.add(id(o.expr))
                yield from _r05j_spans(cfg, o.expr, o.stmt if o.stmt is not None else at, depth + 1, seen)
        # in-place growth of a local list
        f = cfg.func if hasattr(cfg, "func") else None
        if f is not None:
            for n in walk_local(f):
                if isinstance(n, ast.Call) and isinstance(n.func, ast.Attribute) and isinstance(n.func.value, ast.Name) and n.func.value.id == e.id and n.func.attr in ("extend", "append", "insert") and n.args and id(n) not in seen:
                    seen.add(id(n))
                    a = n.args[-1]
                    ast_ = cfg.stmt_of(n)
                    os_ = origins(cfg, a, ast_) if isinstance(a, ast.Name) and n.func.attr != "extend" else []
                    if len(os_) == 1 and os_[0].kind == "for" and not os_[0].path and isinstance(os_[0].stmt, ast.For):
                        # ``for x in span: [if not x.is_meta:] xs.append(x)``: the loop spelling of the comprehension below
                        conds = [(norm(x), pol) for x, pol in cfg.conditions(ast_) if a.id in {y.id for y in ast.walk(x) if isinstance(y, ast.Name)}]
                        if any((not pol and t.endswith(".is_meta")) or (pol and (".is_type(" in t or t.endswith(".is_code"))) for t, pol in conds):
                            continue
                        yield from _r05j_spans(cfg, os_[0].stmt.iter, os_[0].stmt, depth + 1, seen)
                        continue
                    yield from _r05j_spans(cfg, a, ast_, depth + 1, seen)
                if isinstance(n, ast.AugAssign) and isinstance(n.target, ast.Name) and n.target.id == e.id and id(n) not in seen:
                    seen.add(id(n))
                    yield from _r05j_spans(cfg, n.value, n, depth + 1, seen)
        return
    if isinstance(e, (ast.List, ast.Tuple, ast.Set)):
        for x in e.elts:
            # a single element is one chosen segment, not a span: only starred parts are sequences
            if isinstance(x, ast.Starred):
                yield from _r05j_spans(cfg, x.value, at, depth + 1, seen)
        return
    if isinstance(e, ast.BinOp) and isinstance(e.op, (ast.Add, ast.Mult)):
        yield from _r05j_spans(cfg, e.left, at, depth + 1, seen)
        yield from _r05j_spans(cfg, e.right, at, depth + 1, seen)
        return
    if isinstance(e, ast.IfExp):
        yield from _r05j_spans(cfg, e.body, at, depth + 1, seen)
        yield from _r05j_spans(cfg, e.orelse, at, depth + 1, seen)
        return
    if isinstance(e, ast.BoolOp):
        for v in e.values:
            yield from _r05j_spans(cfg, v, at, depth + 1, seen)
        return
    if isinstance(e, (ast.ListComp, ast.GeneratorExp)):
        g = e.generators[0]
        if isinstance(e.elt, ast.Name) and isinstance(g.target, ast.Name) and e.elt.id == g.target.id:
            tests = [norm(t) for gg in e.generators for t in gg.ifs]
            if any("is_meta" in t and t.startswith("not ") for t in tests) or any(".is_type(" in t or ".is_code" in t for t in tests):
                return
            yield from _r05j_spans(cfg, g.iter, at, depth + 1, seen)
        return
    if isinstance(e, ast.Subscript):
        if isinstance(e.slice, ast.Slice):
            base = e.value
            if isinstance(base, ast.Attribute) and base.attr in _R05J_CHILD_ATTRS or (isinstance(base, ast.Call) and last_attr(base) == "children" and not base.args and not base.keywords):
                yield e, f"the slice `{short(e, 60)}` of a node's children"
                return
            yield from _r05j_spans(cfg, base, at, depth + 1, seen)
        return
    if isinstance(e, ast.Call):
        la = last_attr(e)
        if la == "filter_meta":
            keep = kwarg(e, "keep_meta") if kwarg(e, "keep_meta") is not None else (e.args[1] if len(e.args) > 1 else None)
            if keep is None or (isinstance(keep, ast.Constant) and not keep.value):
                return
            yield e, f"`{short(e, 60)}`, which keeps the metas instead of dropping them"
            return
        if isinstance(e.func, ast.Name) and e.func.id in _R05J_WRAP and e.args:
            yield from _r05j_spans(cfg, e.args[-1], at, depth + 1, seen)
            return
        if la == "fromkeys" and e.args:
            yield from _r05j_spans(cfg, e.args[0], at, depth + 1, seen)
            return
        if la == "select" and isinstance(e.func, ast.Attribute):
            kws = {k.arg: k.value for k in e.keywords if k.arg}
            sel = kws.get("select_if") or (e.args[0] if e.args else None)
            loop = kws.get("loop_while") or (e.args[1] if len(e.args) > 1 else None)
            if sel is not None and not _r05j_mentions_meta(sel):
                return  # chosen by a predicate (types / code / comments): judged with the predicate, not a blind span
            if loop is not None and not _r05j_mentions_meta(loop) and sel is None:
                return
            if sel is None and loop is None and not ({"start_seg", "stop_seg"} & set(kws)):
                # select() of everything: as good as its receiver
                yield from _r05j_spans(cfg, e.func.value, at, depth + 1, seen)
                return
            why = "admits metas in its predicate" if (sel is not None or loop is not None) else "has no predicate"
            # the receiver may already be meta-free
            inner = list(_r05j_spans(cfg, e.func.value, at, depth + 1, seen))
            recv = e.func.value
            recv_e = sole_expr_origin(cfg, recv, at) if isinstance(recv, ast.Name) else recv
            if isinstance(recv_e, ast.Call) and last_attr(recv_e) in ("filter_meta",):
                return
            if isinstance(recv_e, ast.Call) and last_attr(recv_e) in ("children", "select") and (recv_e.args or recv_e.keywords) and not any(_r05j_mentions_meta(a) for a in list(recv_e.args) + [k.value for k in recv_e.keywords]) and not inner:
                return
            yield e, f"the positional span `{short(e, 80)}` ({why}: everything between the two siblings, metas included)"
            return
        return
    if isinstance(e, ast.Attribute) and e.attr in _R05J_CHILD_ATTRS:
        v = e.value
        if isinstance(v, ast.Name):
            v = sole_expr_origin(cfg, v, at) or v
        if isinstance(v, ast.Call) and isinstance(v.func, ast.Name) and v.func.id[:1].isupper():
            for a in list(v.args) + [k.value for k in v.keywords]:
                yield from _r05j_spans(cfg, a, at, depth + 1, seen)
            return
        if isinstance(v, (ast.Name, ast.Attribute, ast.Subscript)) and e.attr == "segments":
            # all children of an existing node, taken whole
            if isinstance(v, ast.Name) and param_origin(cfg, v, at) is None and not isinstance(sole_expr_origin(cfg, v, at), ast.AST):
                return
            yield e, f"all children `{short(e, 60)}` of an existing node (its indent / dedent metas included)"
        return


def _r05j_resolve(cfg, e, at):
    """``e`` read through single-definition locals, with ``.get()`` (the one segment of a Segments) peeled."""
    for _ in range(8):
        if isinstance(e, ast.Name):
            os_ = origins(cfg, e, at)
            if len(os_) == 1 and os_[0].kind == "expr" and not os_[0].path and isinstance(os_[0].expr, ast.AST) and not isinstance(os_[0].expr, ast.Name):
                e, at = os_[0].expr, (os_[0].stmt if os_[0].stmt is not None else at)
                continue
            return e, at
        if isinstance(e, ast.Call) and last_attr(e) == "get" and not e.args and not e.keywords and isinstance(e.func, ast.Attribute):
            e = e.func.value
            continue
        return e, at
    return e, at


def _r05j_span_bounds(c):
    """{start_seg, stop_seg} of a purely positional ``<recv>.select(start_seg=.., stop_seg=..)``, else None."""
    if not (isinstance(c, ast.Call) and last_attr(c) == "select" and isinstance(c.func, ast.Attribute)) or c.args:
        return None
    kws = {k.arg: k.value for k in c.keywords}
    if None in kws or not kws or set(kws) - {"start_seg", "stop_seg"}:
        return None
    return kws


def _r05j_when_else_gap(cfg, node, at) -> bool:
    """``node`` is a positional sub-span of ``X.select(start_seg=<X.last(is_type('when_clause'))>, stop_seg=<the
    is_type('else_clause') element of X>)``: siblings between the last WHEN clause and the ELSE clause of one node.
    Matched on what the locals hold, not on their names."""
    if _r05j_span_bounds(node) is None:
        return False
    outer, oat = _r05j_resolve(cfg, node.func.value, at)
    kws = _r05j_span_bounds(outer)
    if kws is None or set(kws) != {"start_seg", "stop_seg"}:
        return False

    def picked(e, methods, typ):
        c, cat = _r05j_resolve(cfg, e, oat)
        if not (isinstance(c, ast.Call) and isinstance(c.func, ast.Attribute) and c.func.attr in methods and len(c.args) == 1 and not c.keywords):
            return None
        a = c.args[0]
        if not (isinstance(a, ast.Call) and last_attr(a) == "is_type" and len(a.args) == 1 and not a.keywords and isinstance(a.args[0], ast.Constant) and a.args[0].value == typ):
            return None
        return _r05j_resolve(cfg, c.func.value, cat)[0]

    recv = _r05j_resolve(cfg, outer.func.value, oat)[0]
    first = picked(kws["start_seg"], ("last",), "when_clause")
    last = picked(kws["stop_seg"], ("select", "first", "last"), "else_clause")
    return first is not None and first is recv and last is recv


# (file, function) -> [(span matcher, backing check, reason)].  A span recognised here is re-verified on every run by
# the named grammar check; it is matched on what the span is built from (not on its text or position).
R05J_REVIEWED = {
    ("rules/structure/ST04.py", "Rule_ST04._eval"): [(
        _r05j_when_else_gap,
        "case_no_meta_between_when_and_else",
        "a prefix of the siblings between the last WHEN clause and the ELSE clause of a case_expression: every dialect's CaseExpressionSegment puts its Indent before the WHEN "
        "clauses and its Dedent after the ELSE clause, so only whitespace / newlines / comments lie in between",
    )],
}


def _case_no_meta_between_when_and_else(repo) -> Optional[str]:
    """None when no CaseExpressionSegment grammar has a meta between its WHEN clauses and its ELSE clause."""
    n = 0
    for m in repo.iter_modules("src/sqlfluff/dialects/"):
        for c in ast.walk(m.tree):
            if not (isinstance(c, ast.ClassDef) and c.name == "CaseExpressionSegment"):
                continue
            for seq in ast.walk(c):
                if not (isinstance(seq, ast.Call) and last_attr(seq) == "Sequence"):
                    continue
                texts = [norm(a) for a in seq.args]
                wi = [i for i, t in enumerate(texts) if "WhenClauseSegment" in t]
                ei = [i for i, t in enumerate(texts) if "ElseClauseSegment" in t]
                if not wi or not ei:
                    continue
                n += 1
                for t in texts[max(wi) + 1 : min(ei)] + [texts[i] for i in wi + ei]:
                    if any(k in t for k in ("Indent", "Dedent", "Conditional(")):
                        return f"{m.relpath}: CaseExpressionSegment has `{t[:60]}` between / inside its WHEN .. ELSE elements"
    if n < 2:
        raise AnalysisError("R05j: no CaseExpressionSegment grammar with WHEN and ELSE clauses found in the dialects (anchor moved)")
    return None


_R05J_BACKING = {"case_no_meta_between_when_and_else": _case_no_meta_between_when_and_else}


def _r05j(chk) -> None:
    from .. import editlists as _edits

    repo = chk.repo
    init = repo.fn("src/sqlfluff/core/rules/fix.py", "LintFix.__init__")
    anchor = [n for n in walk_local(init) if isinstance(n, ast.Assert) and "seg.raw" in norm(n.test) and "self.edit" in norm(n.test)]
    if not anchor:
        raise AnalysisError("R05j: LintFix.__init__ no longer asserts that every segment of a create edit has a raw (anchor refactored: re-read what a meta in an edit does)")
    n = flagged = 0
    for s in _edits.sites(repo):
        if s.arg is None or not (set(s.types) & {"create_before", "create_after", "<computed>"}):
            continue
        n += 1
        cfg = cfg_of(s.f)
        st = cfg.stmt_of(s.call)
        spans = list(_r05j_spans(cfg, s.arg, st))
        q = qualname(s.f)
        for node, what in spans:
            key = (s.m.relpath.replace("src/sqlfluff/", "", 1), q)
            rev = next((r[1:] for r in R05J_REVIEWED.get(key, []) if r[0](cfg, node, cfg.stmt_of(node) or st)), None)
            if rev is not None:
                bad = _R05J_BACKING[rev[0]](repo)
                if bad is None:
                    chk.count("R05j.reviewed")
                    chk.ok("R05j", f"{s.m.relpath}::{q}", f"span `{short(node, 50)}` [grammar: {rev[0]}]")
                    continue
                what = what + f"; the grammar fact it was reviewed under no longer holds ({bad})"
            flagged += 1
            chk.fail(
                "R05j", s.call,
                f"{q} builds a {'/'.join(s.types)} fix whose edit takes {what}: an Indent / Dedent among them has an empty raw and LintFix.__init__ "
                "raises \"Invalid edit found\" inside the rule ('Unexpected exception' instead of its result); filter the metas out (filter_meta / `not seg.is_meta`) before the segments are re-created",
                detail=f"{q}: create edit takes an unfiltered span of tree siblings: {short(node, 60)}",
            )
        if not spans:
            chk.ok("R05j", f"{s.m.relpath}::{q}", f"create edit `{short(s.arg, 60)}` takes no unfiltered span of siblings")
    chk.count("R05j.create_sites", n)
    chk.count("R05j.flagged", flagged)
    chk.floor("R05j.create_sites", 25)


# ---- R05h -------------------------------------------------------------------

# (path below src/sqlfluff/, qualified function, normalised edit argument, reviewed occurrences, CLASS, reason[, witness])
#   witness: an expression that must be known to be truthy where the fix is built (a condition atom, early
#   returns included); without it the row does not apply and the site is reported
R05H_TABLE = [
    ("rules/structure/ST04.py", "Rule_ST04._eval", "segments", 1, "CONSTRUCTION",
     "segments ends with self._rebuild_spacing(when_indent_str, nested_clauses), nested_clauses being the when_clause / else_clause / newline / comment / whitespace children of the "
     "nested CASE; _rebuild_spacing emits [NewlineSegment(), WhitespaceSegment(indent), seg] for every when_clause / else_clause it meets, and the nested CASE has one: case2_first_when "
     "(its first when_clause / else_clause child) is tested before -- without that test `CASE END WHEN a THEN 1 ELSE CASE END END` (ansi, clickhouse: END is not reserved) builds the fix "
     "from an empty list", "case2_first_when"),
]

R05H_CLASSES = ("CONSTRUCTION", "PARSER", "GRAMMAR", "CONTRACT", "NO_WITNESS")


def _r05h_anchors(chk) -> None:
    """The premise: the two asserts an empty edit list runs into."""
    repo = chk.repo
    init = repo.fn("src/sqlfluff/core/rules/fix.py", "LintFix.__init__")
    a1 = [n for n in walk_local(init) if isinstance(n, ast.Assert) and norm(n.test) == "self.edit"]
    ok1 = False
    if a1:
        cfg = cfg_of(init)
        for a in a1:
            for e, pol in cfg.conditions(a):
                if pol and isinstance(e, ast.Compare) and norm(e.left) == "self.edit_type" and "create_before" in norm(e) and "create_after" in norm(e):
                    ok1 = True
    if not ok1:
        raise AnalysisError("R05h: LintFix.__init__ no longer asserts `self.edit` for create_before / create_after fixes (anchor refactored: re-read what an empty edit list does)")
    ap = repo.fn("src/sqlfluff/core/linter/fix.py", "apply_fixes")
    if not any(isinstance(n, ast.Assert) and norm(n.test).endswith(".edit") for n in ast.walk(ap)):
        raise AnalysisError("R05h: apply_fixes no longer asserts that a fix it applies has an edit (anchor refactored)")
    chk.count("R05h.anchors", 2)


def _r05h(chk) -> None:
    from .. import editlists as _edits
    from ..idioms import conditions_at

    _r05h_anchors(chk)
    repo = chk.repo
    cx = _asserts.Ctx(repo)
    table = {}
    for ent in R05H_TABLE:
        if ent[4] not in R05H_CLASSES:
            raise AnalysisError(f"R05h: table entry {ent[0]}::{ent[1]} `{ent[2]}` has unknown class {ent[4]}")
        table[(ent[0], ent[1], ent[2])] = ent
    open_sites: Dict[tuple, list] = {}
    n_sites = 0
    sampled = 0
    for s in _edits.sites(repo):
        n_sites += 1
        for t in s.types:
            chk.count(f"R05h.sites.{t}")
        idiom, why = _edits.judge(cx, s)
        if idiom is None:
            open_sites.setdefault(_edits.site_key(s), []).append((s, why))
            continue
        chk.count("R05h.discharged")
        chk.count(f"R05h.discharged.{idiom}")
        if idiom != "display" and sampled < 8:
            sampled += 1
            chk.sample({"rule": "R05h", "site": f"{s.m.relpath}:{s.call.lineno}", "fix": s.form, "edit": short(s.arg, 70), "idiom": idiom})
    chk.count("R05h.sites", n_sites)
    used: Dict[tuple, int] = {}
    for key, occ in open_sites.items():
        s0, why0 = occ[0]
        construct = f"src/sqlfluff/{key[0]}::{key[1]}"
        kinds = "/".join(sorted({t for s, _ in occ for t in s.types}))
        detail = f"{key[1]}: {kinds} fix built with `{key[2]}`, which may be empty"
        ent = table.get(key)
        applies = ent is not None
        why_not = ""
        if ent is not None and len(ent) > 6 and ent[6]:
            for s, _ in occ:
                cfg = cfg_of(s.f)
                st = cfg.stmt_of(s.call)
                conds = (cfg.conditions(st) + conditions_at(cfg, st)) if st is not None else []
                w = ent[6]
                if not any((pol and norm(e) in (w, f"{w} is not None", f"bool({w})")) or (not pol and norm(e) in (f"{w} is None", f"not {w}")) for e, pol in conds):
                    applies = False
                    why_not = f" (reviewed as {ent[4]} under a condition on `{ent[6]}`, which is not known here)"
        if not applies:
            chk.count("R05h.unreviewed", len(occ))
            for i, (s, why) in enumerate(occ):
                what = "raises \"A create fix must have an edit\" inside the rule ('Unexpected exception' instead of its result)" if set(s.types) & {"create_before", "create_after", "<computed>"} else \
                    "is accepted by LintFix and then fails outside the rule: IndexError in get_fix_slices aborts the lint run, apply_fixes asserts \"Edit 'replace' requires `edit`\""
                chk.fail(
                    "R05h", s.call,
                    f"{key[1]} builds a {'/'.join(s.types)} fix with the edit `{short(s.arg, 80) if s.arg is not None else '<missing>'}`: {why}{why_not}; an empty edit list {what}. "
                    "Test the list and skip the fix (or the construct) when it is empty, or, if it cannot be empty, review the site into R05H_TABLE",
                    detail=detail + (f" #{i + 1}" if len(occ) > 1 else ""), construct=construct,
                )
            continue
        used[key] = len(occ)
        limit, cls, reason = ent[3], ent[4], ent[5]
        if len(occ) > limit:
            chk.count("R05h.unreviewed", len(occ) - limit)
            chk.fail(
                "R05h", occ[-1][0].call,
                f"{len(occ)} fixes built with `{short(s0.arg, 80)}` in {key[1]} that nothing known there makes non-empty, but only {limit} reviewed ({cls})",
                detail=detail + f" (more than {limit} occurrences)", construct=construct,
            )
            continue
        chk.count(f"R05h.table.{cls}", len(occ))
        chk.count("R05h.table", len(occ))
        if cls == "NO_WITNESS":
            chk.count("R05h.no_witness", len(occ))
            chk.note(f"R05h no witness / no invariant (listed, not claimed safe): {key[0]}::{key[1]} {key[2][:80]} -- {reason}")
        chk.ok("R05h", construct, f"edit `{key[2][:90]}` [{cls}]")
    stale = [k for k in table if k not in used]
    chk.count("R05h.table_entries", len(table))
    chk.count("R05h.table_entries_stale", len(stale))
    if stale:
        chk.note(f"R05h: {len(stale)} reviewed-table entries apply to no open site (site removed, discharged by the inference now, or the witness condition is missing and the site is reported): " + "; ".join(f"{a}::{b} {c[:40]}" for a, b, c in stale[:8]))
    chk.floor("R05h.sites", 60)
    chk.floor("R05h.discharged.display", 45)


# ---- R05f -------------------------------------------------------------------
# (relative path, qualified function, normalised text argument) -> why the text cannot be empty there
_ST04_INDENT = (
    "result of Rule_ST04._get_indentation: the leading whitespace when it is longer than one character, else construct_single_indent(..) * indent_level "
    "with indent_level = 1, or indent_val + 1 of the last indent meta before the clause -- among the children of a case_expression only the Indent after "
    "CASE precedes a WHEN/ELSE clause (the Dedent stands before END in every dialect's CaseExpressionSegment), so the level is >= 1 and the unit is a "
    "validated non-empty config value; no input producing an empty string was found"
)
R05F_REVIEWED: Dict[Tuple[str, str, str], str] = {
    ("src/sqlfluff/rules/structure/ST04.py", "Rule_ST04._nested_end_trailing_comment", "end_indent_str"): _ST04_INDENT,
    ("src/sqlfluff/rules/structure/ST04.py", "Rule_ST04._rebuild_spacing", "indent_str"): _ST04_INDENT,
}


def _nonempty_const(e) -> bool:
    return isinstance(e, ast.Constant) and isinstance(e.value, str) and e.value != ""


def _r05i(chk) -> None:
    repo = chk.repo
    n = 0
    for m in repo.iter_modules("src/sqlfluff/rules/"):
        if "memory" not in m.text:
            continue
        for q, f in m.functions():
            deref = False
            aliases = {"context.memory"}
            for st in walk_local(f):
                if isinstance(st, ast.Assign) and len(st.targets) == 1 and isinstance(st.targets[0], ast.Name) and norm(st.value) == "context.memory":
                    aliases.add(st.targets[0].id)
            for x in walk_local(f):
                if isinstance(x, ast.Attribute) and norm(x.value) in aliases and isinstance(getattr(x, "_parent", None), ast.Call):
                    deref = True
                if isinstance(x, ast.Subscript) and norm(x.value) in aliases:
                    deref = True
            if not deref:
                continue
            for c in [c for c in walk_local(f) if isinstance(c, ast.Call) and last_attr(c) == "LintResult"]:
                # only results that leave the function
                par = getattr(c, "_parent", None)
                returned = isinstance(par, ast.Return) or (isinstance(par, (ast.List, ast.Tuple)) and isinstance(getattr(par, "_parent", None), ast.Return))
                if not returned:
                    continue
                n += 1
                chk.require(
                    kwarg(c, "memory") is not None, "R05i", c,
                    f"{q} reads its working memory from context.memory but returns `{short(c, 50)}` without memory=: the crawler then carries None into the next evaluation, where "
                    "`context.memory.get(..)` raises AttributeError ('Unexpected exception')",
                    detail=f"{q}: every returned LintResult hands the memory on",
                )
    chk.count("R05i.results_of_memory_rules", n)
    chk.floor("R05i.results_of_memory_rules", 5)


def _nonempty_subject(e, pol):
    """(subject, True) when the atom says ``subject`` is non-empty: ``x``, ``bool(x)``, ``len(x)``,
    ``len(x) > 0`` / ``>= 1`` / ``!= 0``, ``x != ""`` taken; ``not x``, ``x == ""``, ``len(x) == 0`` not taken."""
    if isinstance(e, ast.UnaryOp) and isinstance(e.op, ast.Not):
        return _nonempty_subject(e.operand, not pol)
    if isinstance(e, ast.Call) and isinstance(e.func, ast.Name) and e.func.id in ("bool", "len") and len(e.args) == 1 and not e.keywords:
        return _nonempty_subject(e.args[0], pol)
    if isinstance(e, ast.Compare) and len(e.ops) == 1:
        l, op, r = e.left, e.ops[0], e.comparators[0]
        if isinstance(r, ast.Constant) and r.value == "" and isinstance(op, (ast.NotEq, ast.Eq)):
            return l, (pol if isinstance(op, ast.NotEq) else not pol)
        if isinstance(l, ast.Call) and isinstance(l.func, ast.Name) and l.func.id == "len" and len(l.args) == 1 and isinstance(r, ast.Constant) and isinstance(r.value, int):
            if (isinstance(op, ast.Gt) and r.value == 0) or (isinstance(op, ast.GtE) and r.value == 1) or (isinstance(op, ast.NotEq) and r.value == 0):
                return l.args[0], pol
            if isinstance(op, ast.Eq) and r.value == 0:
                return l.args[0], not pol
    return e, pol


def _r05f(chk) -> None:
    from ..cfg import cfg_of, origins
    from ..idioms import conditions_at

    repo = chk.repo
    n = n_const = n_guard = n_table = 0
    for pre in ("src/sqlfluff/rules/", "src/sqlfluff/utils/", "src/sqlfluff/core/rules/"):
        for m in repo.iter_modules(pre):
            if m.relpath.startswith("src/sqlfluff/utils/testing/") or "WhitespaceSegment" not in m.text:
                continue
            for q, f in m.functions():
                cs = [c for c in calls_in(f) if last_attr(c) == "WhitespaceSegment" and (c.args or kwarg(c, "raw") is not None)]
                if not cs:
                    continue
                cfg = cfg_of(f)
                rd = cfg.reaching()
                for c in cs:
                    a = kwarg(c, "raw") or c.args[0]
                    n += 1
                    st = cfg.stmt_of(c)
                    if _nonempty_const(a):
                        n_const += 1
                        continue
                    if isinstance(a, ast.Name):
                        os_ = origins(cfg, a, st)
                        if os_ and all(o.kind == "expr" and _nonempty_const(o.expr) and not o.path for o in os_):
                            n_const += 1
                            continue
                    guarded = False
                    text = norm(a)
                    # within the statement: `[W(x)] if x else []`, `x and W(x)`
                    child, par = c, getattr(c, "_parent", None)
                    while par is not None and par is not st and not guarded:
                        if isinstance(par, ast.IfExp) and child is par.body and norm(par.test) == text:
                            guarded = True
                        if isinstance(par, ast.BoolOp) and isinstance(par.op, ast.And):
                            idx = [i for i, v in enumerate(par.values) if v is child]
                            if idx and any(norm(v) == text for v in par.values[: idx[0]]):
                                guarded = True
                        child, par = par, getattr(par, "_parent", None)
                    # a dominating truthiness test of the same value
                    if not guarded and st is not None:
                        for e, pol in conditions_at(cfg, st):
                            e, pol = _nonempty_subject(e, pol)
                            if pol and norm(e) == text:
                                if isinstance(a, ast.Name):
                                    at_test = cfg.stmt_of(e)
                                    if at_test is not None and {id(d.node) for d in rd.defs_at(at_test, a.id)} != {id(d.node) for d in rd.defs_at(st, a.id)}:
                                        continue
                                guarded = True
                    if guarded:
                        n_guard += 1
                        chk.ok("R05f", f"{m.relpath}::{q}", f"WhitespaceSegment({text}) built where the text is known to be non-empty")
                        continue
                    why = R05F_REVIEWED.get((m.relpath, q, text))
                    if why is not None:
                        n_table += 1
                        continue
                    chk.fail(
                        "R05f", c,
                        f"{q} builds WhitespaceSegment({short(a, 40)}) from a text that is not known to be non-empty here: when it is empty the LintFix built with it "
                        "raises \"Invalid edit found\" and the rule reports an 'Unexpected exception' instead of its result",
                        detail=f"{q}: WhitespaceSegment({text}) may be empty",
                    )
    chk.count("R05f.whitespace_constructions_with_text", n)
    chk.count("R05f.constant_text", n_const)
    chk.count("R05f.guarded", n_guard)
    chk.count("R05f.reviewed", n_table)
    chk.floor("R05f.whitespace_constructions_with_text", 5)


# ---- R05g -------------------------------------------------------------------

# (path below src/sqlfluff/, qualified function, normalised condition, reviewed occurrences, CLASS, reason)
_G_CV12 = "where_clause_simplifable is the result of _is_where_clause_simplifable(where_clause), which returns True only after `where_clause.get_child('expression')` was found (`if not expr: return False`); this is the same call on the same where_clause"
_G_LT05 = "results = ReflowSequence.from_root(..).break_long_lines().get_results(); break_long_lines refuses pre-existing results, so every result comes from lint_line_length, whose only LintResult is built with the anchor first_seg = line_buffer[0].segments[0] -- a segment of a reflow element, i.e. a RawSegment (ReflowSequence._elements_from_raw_segments), and RawSegment._class_types contains 'raw'"
_G_ALT = "I-ALT: elements alternate ReflowBlock / ReflowPoint (built that way by _elements_from_raw_segments, checked here on construction of every ReflowSequence)"
_G_RAWS = "raw_segments of a segment is never empty: a raw segment returns [self], a parsed node has at least one child (MatchResult.apply never instantiates a segment class over an empty slice)"
_G_FIX = "reached only by `break` out of both loops (the inner `else: continue` and the outer `else: raise ValueError`): res / fix are the loop variables of the iteration whose test `fix.edit and insertion.uuid in [..]` was true, fix was drawn from `res.fixes or []`, and LintResult / LintFix define no __bool__ / __len__"
R05G_TABLE = [
    # ---- rules/ -------------------------------------------------------------------
    ("rules/convention/CV12.py", "Rule_CV12._eval_gen", "expr is not None", 1, "CONSTRUCTION", _G_CV12 + " (under `if where_clause_simplifable:`)"),
    ("rules/convention/CV12.py", "Rule_CV12._eval_gen", "where_clause_expr is not None", 1, "CONSTRUCTION", _G_CV12 + " (after `if not where_clause_simplifable: return`)"),
    ("rules/jinja/JJ01.py", "Rule_JJ01._find_raw_at_src_idx", "segment.segments", 1, "CONTRACT", "two callers: _eval passes context.segment, the root of a file that has a templated raw slice (RootOnlyCrawler; a lexed file holds at least its placeholders and end_of_file), the recursion passes `seg` only after `seg.is_raw()` was False, and is_raw() is `len(self.segments) == 0`"),
    ("rules/layout/LT05.py", "Rule_LT05._eval", "res.anchor", 2, "CONSTRUCTION", _G_LT05),
    ("rules/layout/LT05.py", "Rule_LT05._eval", "res.anchor.is_type('raw')", 2, "CONSTRUCTION", _G_LT05),
    ("rules/layout/LT09.py", "Rule_LT09._eval_multiple_select_target_elements", "target_initial_code", 1, "PARSER", "select_target is a select_clause_element child of the select clause; a node matched by the grammar holds at least one code raw segment (a match never consists of whitespace / comments / metas only: non-code is only consumed between matched elements)"),
    ("rules/layout/LT09.py", "Rule_LT09._eval_multiple_select_target_elements", "previous_code", 1, "GRAMMAR", "the selection runs over the raw segments of the select clause before the target: for the first target it contains the SELECT keyword every dialect's SelectClauseSegment starts with (code, not a comma); for a later target it starts right after the previous target's predecessor and so contains the previous target's first code raw, which is not ',' (no select_clause_element starts with a comma); dialect fixtures and 19 hand-made inputs (templated targets, trailing commas, modifiers) gave no witness"),
    ("rules/structure/ST04.py", "Rule_ST04._eval", "case1_first_case", 1, "GRAMMAR", "the crawler seeks case_expression; both CaseExpressionSegment definitions (ansi, oracle) are OneOf(Sequence('CASE', ..), Sequence('CASE', ..)): the CASE keyword is a mandatory direct child"),
    ("rules/structure/ST05.py", "_is_child", "len(maybe_child) == 1", 1, "CONTRACT", "only caller _CTEBuilder.insert_cte passes inbound_subquery = Segments(cte).children().last(<has pos_marker>): last() returns at most one segment, and a CTE has a positioned child -- a parsed CTE keeps its markers, a CTE made by _create_cte_seg ends with the cloned (positioned) subquery"),
    ("rules/structure/ST05.py", "_is_child", "len(maybe_parent) == 1", 1, "CONTRACT", "only caller passes Segments(el).children().last() for a CTEDefinitionSegment el: last() without predicate returns the last child, and a common_table_expression is never childless (MatchResult.apply never instantiates a segment class over an empty slice)"),
    ("rules/structure/ST05.py", "_get_case_preference", "first_keyword", 1, "GRAMMAR", "only caller passes the segment the rule crawls (select_statement / set_expression / with_compound_statement, after `if not is_select ..: return`): each contains a keyword (SELECT, WITH, ..) at or below its first level, and recursive_crawl('keyword', recurse_into=False) descends until it finds one"),
    ("rules/structure/ST05.py", "Rule_ST05._eval", "any((from_expression is seg for seg in subquery_parent.recursive_crawl_all()))", 1, "CONSTRUCTION", "_lint_query yields (.., nsq.table_alias.from_expression_element, .., nsq.selectable.selectable, ..) and _nested_subqueries takes table_alias from selectable.select_info.table_aliases: aliases of the FROM clause below that very selectable (get_aliases_from_select) or, for non-select selectables, AliasInfo(.., self.selectable, ..) -- recursive_crawl_all yields the segment itself first"),
    ("rules/structure/ST07.py", "_extract_deletion_sequence_and_anchor", "insert_anchor", 1, "GRAMMAR", "called only when the join_clause has a USING keyword child; in the join-USING grammars the rule can meet (ansi JoinUsingConditionGrammar, sparksql JoinClauseSegment; the rule returns early for clickhouse) the Bracketed column list is followed by a Dedent -- unconditional in ansi, Conditional(indented_using_on=False) inside plus Conditional(indented_using_on=True) outside in sparksql -- so a sibling follows the brackets for either setting; `JOIN .. USING (x)` in all 28 dialects x both settings gave no witness"),
    ("rules/structure/ST07.py", "Rule_ST07._eval", "table_a.segment", 1, "CONSTRUCTION", "table_a comes from table_aliases, filtered by `if ta.ref_str`; every AliasInfo with a non-empty ref_str is built with its segment (core/dialects/common.py get_from_expression_element_alias: alias_segment / penultimate_ref.segments[0]; utils/analysis/query.py: `name[0] if name else None` next to `name[0].raw if name else ''`); only AliasInfo('', None, ..) has no segment"),
    ("rules/structure/ST07.py", "Rule_ST07._eval", "table_b.segment", 1, "CONSTRUCTION", "see table_a.segment"),
    ("rules/structure/ST12.py", "Rule_ST12._eval", "res.anchor is not None", 1, "CONSTRUCTION", "results is filled in this function only, by LintResult(anchor=terms[i], ..) with terms[i] an element of the collected terminator segments"),
    # ---- utils/analysis ---------------------------------------------------------------
    ("utils/analysis/query.py", "Query._extract_subqueries", "selectable.selectable.is_type(*SELECTABLE_TYPES, *SUBSELECT_TYPES)", 1, "CONTRACT", "only caller Query.from_segment passes the Selectables it has just built: Selectable(segment) under `segment.is_type('select_statement', *SUBSELECT_TYPES)` or Selectable(_seg) for _seg from recursive_crawl('select_statement')"),
    ("utils/analysis/query.py", "Query.from_root", "selectable_segment", 1, "CONTRACT", "two callers: ST03 passes the with_compound_statement its crawler seeks, which recursive_crawl(*SELECTABLE_TYPES, ..) yields itself (allow_self); ST05._nested_subqueries wraps the call in try/except AssertionError (a from_expression_element without selectable is skipped)"),
    ("utils/analysis/query.py", "Query.from_segment", "segment.is_type(*SELECTABLE_TYPES, *SUBSELECT_TYPES)", 1, "CONTRACT", "callers: AL05 / AM04 / RF03 / ST11 pass the segment of a SegmentSeekerCrawler over select_statement, RF01 over SELECTABLE/SUBSELECT-typed statements, AM07 the set_expression root or its with_compound_statement parent, ST05 after `if not is_select: return`; inside query.py the argument comes from recursive_crawl over SELECTABLE_TYPES / SUBSELECT_TYPES / values_clause (crawl_sources, _extract_subqueries, from_root after its assert, the CTE loop)"),
    ("utils/analysis/select.py", "get_select_statement_info", "segment.is_type('select_statement')", 1, "CONTRACT", "callers: AL04 / AL05 pass the select_statement their crawler seeks or a parent found by `is_type('select_statement')`, RF02 / RF07 / ST07 a parent_stack entry selected by is_type('select_statement'), ST05 the result of _get_first_select_statement_descendant, Selectable.select_info after `if self.selectable.is_type('select_statement')`"),
    ("utils/analysis/select.py", "_get_lambda_argument_columns", "start_bracket", 1, "PARSER", "child_segment.is_type('bracketed') holds: a BracketedSegment is built by the Bracketed grammar / bracket matcher around its start_bracket and end_bracket children"),
    # ---- utils/reflow -------------------------------------------------------------------
    ("utils/reflow/depthmap.py", "DepthInfo.common_with", "common_hashes", 1, "INVARIANT", "both DepthInfo objects describe raw segments of the same tree (DepthMap.from_parent(root)): their stacks share at least the root ('file') hash"),
    ("utils/reflow/elements.py", "ReflowPoint.indent_to", "'\\n' not in desired_indent", 1, "CONTRACT", "callers (reindent.py) pass construct_single_indent(..) multiples -- spaces or tabs from the indent_unit / tab_space_size config -- or the current indent of a line as returned by _deduce_line_current_indent, which is the text after the last newline (it asserts the same)"),
    ("utils/reflow/elements.py", "ReflowPoint.indent_to", "'\\n' in indent_seg.source_str", 1, "CONSTRUCTION", "indent_seg = self._get_indent_segment() is a placeholder here, and that helper returns a placeholder only through its branch `'\\n' in (get_consumed_whitespace(seg) or '')`, where the consumed whitespace is seg.source_str"),
    ("utils/reflow/elements.py", "ReflowPoint.indent_to", "'\\n' in new_source_str", 1, "CONSTRUCTION", "new_source_str is indent_seg.source_str with only the text after its last newline (current_indent) replaced, and source_str contains a newline (asserted above)"),
    ("utils/reflow/reindent.py", "_fix_long_line_with_comment", "trailing_comments in ('after', 'before')", 1, "CONFIG", "value of the `trailing_comments` key of [sqlfluff:indentation] (ReflowConfig), documented values `before` / `after`; an undocumented value (e.g. `neither`) does make LT05 fail with this AssertionError -- configuration error, not input dependent"),
    ("utils/reflow/reindent.py", "lint_line_length", "line_buffer[0].segments", 1, "INVARIANT", "line_buffer[0] is the first element after a line-breaking point, i.e. a ReflowBlock (" + _G_ALT + "; a block holds one segment), or the first element of the file, and _elements_from_raw_segments creates a leading point only from a non-empty buffer"),
    ("utils/reflow/reindent.py", "has_untemplated_newline", "seg.block_type == 'literal'", 1, "INVARIANT", "a placeholder enters a ReflowPoint only through _elements_from_raw_segments, which puts a segment into the point buffer when it is whitespace / newline / indent or `get_consumed_whitespace(seg)` is all space -- and that helper returns None unless block_type == 'literal'; points built by fixes hold new whitespace / newline segments only"),
    ("utils/reflow/reindent.py", "_revise_templated_lines", "segment.is_type('placeholder', 'template_loop')", 1, "INVARIANT", "reached only when line.is_all_templates(elements) (every block of the line is a placeholder / template_loop) and `block` iterates line.iter_blocks(elements)"),
    ("utils/reflow/reindent.py", "_revise_templated_lines", "first_block.segments", 1, "INVARIANT", "elements[first_point_idx + 1] follows an indent point: " + _G_ALT + ", and every ReflowBlock is constructed with a one-element segments tuple (checked by R05e)"),
    ("utils/reflow/reindent.py", "_deduce_line_current_indent", "'\\n' not in indent_seg.raw", 1, "INVARIANT", "indent_seg is a whitespace segment (from ReflowPoint._get_indent_segment or the leading point of the file); every dialect lexes whitespace with a pattern that excludes \\r and \\n (newline is a separate token), and whitespace inserted by fixes is indent text"),
    ("utils/reflow/reindent.py", "_crawl_indent_points", "cached_point", 1, "CONSTRUCTION", "cached_indent_stats and cached_point are assigned together (both set at the end of a comment-only line, both reset to None after use): a non-None IndentStats (a NamedTuple of three fields, always truthy) implies a cached point"),
    ("utils/reflow/reindent.py", "_map_line_buffers", "_pt", 1, "NO_WITNESS", "the loop over range(loc, indent_point.idx) ends with _pt bound to a line-breaking point only if one lies between the untaken indent location and the current point; loc is on an earlier line (`any(ip.idx == loc for ip in point_buffer)` skipped the current one), so a line break should lie in between, but the loop also leaves _pt = None when it runs to the end (the last index is a block); no failing input found (2 500 dialect fixtures, the LT02 yaml cases)"),
    ("utils/reflow/respace.py", "_extract_alignment_config", "':' in constraint", 1, "CONFIG", "only caller passes post_constraint under `post_constraint.startswith('align')`; the documented form of the spacing_before value is `align:<type>[:<within>[:<scope>[:<space>]]]`; an undocumented value that merely starts with `align` (e.g. `alignx`) fails here -- configuration error"),
    ("utils/reflow/respace.py", "_extract_alignment_config", "alignment_config[0] == 'align'", 1, "CONFIG", "see `':' in constraint`: `aligned:alias_expression` is the failing (undocumented) value"),
    ("utils/reflow/respace.py", "handle_respace__inline_without_space", "insertion", 1, "CONSTRUCTION", "under `if existing_fix:`; existing_fix and insertion are assigned together (both branches set both), insertion being prev_block.segments[-1] / next_block.segments[0], a segment"),
    ("utils/reflow/respace.py", "handle_respace__inline_without_space", "res", 1, "CONSTRUCTION", _G_FIX),
    ("utils/reflow/respace.py", "handle_respace__inline_without_space", "fix", 1, "CONSTRUCTION", _G_FIX),
    ("utils/reflow/respace.py", "handle_respace__inline_without_space", "fix in res.fixes", 1, "CONSTRUCTION", _G_FIX),
    ("utils/reflow/respace.py", "handle_respace__inline_without_space", "fix.edit", 1, "CONSTRUCTION", _G_FIX + " (fix.edit is re-assigned only after this assert)"),
    ("utils/reflow/respace.py", "determine_constraints", "prev_block", 1, "CONSTRUCTION", "within_spacing is non-empty here, and it is assigned only inside `if prev_block and next_block:`"),
    ("utils/reflow/sequence.py", "ReflowSequence.from_around_target", "target_raws", 1, "PARSER", _G_RAWS),
    ("utils/reflow/sequence.py", "ReflowSequence.replace", "target_raws", 1, "PARSER", _G_RAWS),
    ("utils/reflow/sequence.py", "ReflowSequence._validate_reflow_sequence", "all((isinstance(elem, OddType) for elem in elements[::2]))", 1, "INVARIANT", _G_ALT + "; the AssertionError is caught right here only to log the elements and re-raised"),
    ("utils/reflow/sequence.py", "ReflowSequence._validate_reflow_sequence", "all((isinstance(elem, EvenType) for elem in elements[1::2]))", 1, "INVARIANT", _G_ALT),
]

R05G_CLASSES = ("PARSER", "GRAMMAR", "CONFIG", "CONSTRUCTION", "CONTRACT", "INVARIANT", "NO_WITNESS")


def _r05g(chk) -> None:
    repo = chk.repo
    cx = _asserts.Ctx(repo)
    table = {}
    for ent in R05G_TABLE:
        path, func, text, limit, cls, reason = ent
        if cls not in R05G_CLASSES:
            raise AnalysisError(f"R05g: table entry {path}::{func} `{text}` has unknown class {cls}")
        table[(path, func, text)] = ent
    open_sites: Dict[tuple, list] = {}
    n_sites = 0
    sampled = 0
    for m, a in _asserts.sites(repo):
        n_sites += 1
        group, idiom, why = _asserts.judge(cx, a, m)
        key = _asserts.site_key(m, a)
        if group is None:
            open_sites.setdefault(key, []).append((a, why))
            continue
        chk.count(f"R05g.{group}")
        for part in idiom.split("+"):
            chk.count(f"R05g.{group}.{part.replace(':', '_')}")
        if sampled < 6 and idiom not in ("crawler", "typing:pos_marker"):
            sampled += 1
            chk.sample({"rule": "R05g", "site": f"{m.relpath}:{a.lineno}", "assert": short(a.test, 70), "group": group, "idiom": idiom})
    chk.count("R05g.asserts", n_sites)
    used: Dict[tuple, int] = {}
    for key, occ in open_sites.items():
        a0 = occ[0][0]
        construct = f"src/sqlfluff/{key[0]}::{key[1]}"
        detail = f"{key[1]}: assert {key[2]}"
        ent = table.get(key)
        if ent is None:
            chk.count("R05g.unreviewed", len(occ))
            for i, (a, why) in enumerate(occ):
                chk.fail(
                    "R05g", a,
                    f"assert {short(a.test, 90)} in {key[1]}: {why}; when the condition is false the rule raises AssertionError and reports an 'Unexpected exception' "
                    "instead of its result. Test the condition and skip the construct (return / continue) instead of asserting it, or, if it cannot be false, review it into R05G_TABLE",
                    detail=detail + (f" #{i + 1}" if len(occ) > 1 else ""), construct=construct,
                )
            continue
        used[key] = len(occ)
        limit, cls, reason = ent[3], ent[4], ent[5]
        if len(occ) > limit:
            chk.count("R05g.unreviewed", len(occ) - limit)
            chk.fail(
                "R05g", occ[-1][0],
                f"{len(occ)} occurrences of assert {short(a0.test, 80)} in {key[1]} that nothing known there implies, but only {limit} reviewed ({cls})",
                detail=detail + f" (more than {limit} occurrences)", construct=construct,
            )
            continue
        chk.count(f"R05g.table.{cls}", len(occ))
        chk.count("R05g.table", len(occ))
        if cls == "NO_WITNESS":
            chk.count("R05g.no_witness", len(occ))
            chk.note(f"R05g no witness / no invariant (listed, not claimed safe): {key[0]}::{key[1]} assert {key[2][:80]} -- {reason}")
        chk.ok("R05g", construct, f"assert {key[2][:90]} [{cls}]")
    stale = [k for k in table if k not in used]
    chk.count("R05g.table_entries", len(table))
    chk.count("R05g.table_entries_stale", len(stale))
    if stale:
        chk.note(f"R05g: {len(stale)} reviewed-table entries matched no open assert (removed, or discharged by the inference now): " + "; ".join(f"{a}::{b} {c[:40]}" for a, b, c in stale[:8]))
    # what N <-> T for Optional[BaseSegment] values relies on
    for m, c, item in _asserts.segment_truthiness_overrides(repo):
        chk.fail(
            "R05g", item,
            f"segment class {c.name} defines {item.name}: `assert seg` / `if seg:` on an Optional[BaseSegment] no longer means `seg is not None` (R05g and R05e treat a segment as always truthy)",
            detail=f"{c.name}.{item.name} defined", construct=f"{m.relpath}::{c.name}",
        )
    _r05g_crawler_anchor(chk)
    chk.floor("R05g.asserts", 60)
    chk.floor("R05g.discharged", 30)
    chk.floor("R05g.discharged.crawler", 15)


def _r05g_crawler_anchor(chk) -> None:
    """What the ``crawler`` idiom relies on: SegmentSeekerCrawler.crawl hands a context to the rule only
    when ``is_self_match(context.segment)`` holds, and that is ``segment.is_type(*self.types)``."""
    CR = "src/sqlfluff/core/rules/crawlers.py"
    repo = chk.repo
    f = repo.fn(CR, "SegmentSeekerCrawler.crawl")
    cfg = cfg_of(f)
    ys = [n for n in walk_local(f) if isinstance(n, ast.Yield)]
    if not ys:
        raise AnalysisError("R05g: SegmentSeekerCrawler.crawl yields no context itself (anchor refactored)")
    for y in ys:
        st = cfg.stmt_of(y)
        conds = cfg.conditions(st) if st is not None else []
        ok = any(
            pol and isinstance(e, ast.Call) and last_attr(e) in ("is_self_match", "is_type") and any(norm(a).endswith(".segment") for a in list(e.args) + ([e.func.value] if isinstance(e.func, ast.Attribute) else []))
            for e, pol in conds
        )
        chk.require(
            ok, "R05g", y,
            "SegmentSeekerCrawler.crawl yields a context that is not guarded by is_self_match(context.segment): rules whose _eval asserts the type of context.segment "
            "(34 asserts discharged by the crawler guarantee) would raise AssertionError",
            detail="SegmentSeekerCrawler.crawl yields only self-matching segments",
        )
    m = repo.fn(CR, "SegmentSeekerCrawler.is_self_match")
    rets = [n for n in walk_local(m) if isinstance(n, ast.Return)]
    ok = bool(rets) and all(
        isinstance(r.value, ast.Call) and last_attr(r.value) == "is_type" and len(r.value.args) == 1 and isinstance(r.value.args[0], ast.Starred) and norm(r.value.args[0].value) == "self.types"
        for r in rets
    )
    chk.require(ok, "R05g", m, "SegmentSeekerCrawler.is_self_match is no longer `segment.is_type(*self.types)`: the crawler guarantee used by R05g does not hold", detail="SegmentSeekerCrawler.is_self_match is is_type(*self.types)")
    chk.count("R05g.crawler_anchor_yields", len(ys))


# ---- R05d -------------------------------------------------------------------

# (relative path, qualified function, flag) -> reason why the flag is deliberately not forwarded as is
R05D_REVIEWED: Dict[Tuple[str, str, str], str] = {}


def _r05d(chk) -> None:
    """Recursive / delegating calls carry the protocol of the walk in their flags: the
    flag that makes a look-up consume what it finds is what bounds the recursion of the
    wildcard analysis (AM04/AM07 follow CTE definitions until ``lookup_cte(pop=True)`` has
    removed them), a crawl's ``recurse_into`` decides what a rule sees.  A same-name call
    that pins such a flag to a constant, or drops it, changes the walk for every nested
    level only -- which no single-level test input shows."""
    repo = chk.repo
    n = 0
    for scope in SCOPES:
        for m in repo.iter_modules(scope):
            for q, f in m.functions():
                all_params = [a for a in f.args.args + f.args.kwonlyargs]
                pos_params = [a.arg for a in f.args.args]
                flags = [a.arg for a in all_params if a.annotation is not None and norm(a.annotation) == "bool"]
                if not flags:
                    continue
                for c in calls_in(f):
                    name = c.func.attr if isinstance(c.func, ast.Attribute) else (c.func.id if isinstance(c.func, ast.Name) else None)
                    if name != f.name:
                        continue
                    if isinstance(c.func, ast.Attribute) and isinstance(c.func.value, ast.Call) and call_name(c.func.value) == "super":
                        continue  # super().m(..): extension of a different method body, not a step of the walk
                    if any(k.arg is None for k in c.keywords) or any(isinstance(a, ast.Starred) for a in c.args):
                        # **kwargs / *args: cannot bind by shape; only positional-after-star is affected
                        pass
                    # bind arguments to this function's own parameter list (same signature: it is the same method)
                    bound: Dict[str, ast.expr] = {}
                    skip = 1 if pos_params and pos_params[0] in ("self", "cls") and isinstance(c.func, ast.Attribute) else 0
                    starred = False
                    for i, a in enumerate(c.args):
                        if isinstance(a, ast.Starred):
                            starred = True
                            continue
                        if not starred and i + skip < len(pos_params):
                            bound[pos_params[i + skip]] = a
                    for k in c.keywords:
                        if k.arg:
                            bound[k.arg] = k.value
                    for fl in flags:
                        n += 1
                        key = (m.relpath, q, fl)
                        v = bound.get(fl)
                        ok = isinstance(v, ast.Name) and v.id == fl
                        if not ok and key in R05D_REVIEWED:
                            chk.ok("R05d", f"{m.relpath}::{q}", f"flag {fl}: reviewed: {R05D_REVIEWED[key]}")
                            continue
                        how = "does not pass it on (the callee's default applies)" if v is None else f"passes `{norm(v)}` instead"
                        chk.require(
                            ok, "R05d", c,
                            f"{q} calls {name}() again but {how} for its flag `{fl}`: nested levels of the walk run under a different protocol than the first "
                            "(e.g. a look-up that no longer consumes what it finds never terminates on self-referencing input)",
                            detail=f"{q}: flag {fl} forwarded unchanged",
                        )
    chk.count("R05d.flag_forwarding_sites", n)
    chk.floor("R05d.flag_forwarding_sites", 4)



# ---- R05e -------------------------------------------------------------------

# (path below src/sqlfluff/, function, normalised subscript, max unguarded occurrences, CLASS, reason[, never-raw types])
_P = "the receiver is the child list / raw-segment list of a parsed node: MatchResult.apply never instantiates a segment class over an empty slice (asserted there), and the node's type is produced only by non-raw segment classes in every dialect"
_ALT = "I-ALT: ReflowSequence elements alternate block/point (_validate_reflow_sequence asserts it, _elements_from_raw_segments builds it that way); the indexed element is the neighbour of a point, i.e. a ReflowBlock, and a ReflowBlock holds exactly one segment (constructors checked by R05e)"
_LINE = "I-LINE: an _IndentLine always has at least one indent point: both construction sites in _map_line_buffers call from_points(point_buffer) right after point_buffer.append(..) / under len(point_buffer) > 1"
_RAWS = "raw_segments of a segment is never empty: a raw segment returns [self], a parsed node has at least one child (MatchResult.apply)"
R05E_TABLE = [
    # ---- rules/ -------------------------------------------------------------------
    ("rules/aliasing/AL08.py", "Rule_AL08._eval", "column_reference.segments[-1]", 1, "PARSER", _P, ("column_reference",)),
    ("rules/aliasing/AL09.py", "Rule_AL09._eval", "clause_element_raw_segments[0]", 2, "PARSER", "get_raw_segments() of a select_clause_element selected from the clause's children; " + _RAWS, ("select_clause_element",)),
    ("rules/ambiguous/AM02.py", "Rule_AM02._eval", "context.segment.segments[0]", 2, "PARSER", _P + " (crawler seeks set_operator)", ("set_operator",)),
    ("rules/ambiguous/AM05.py", "Rule_AM05._eval", "context.segment.segments[0]", 4, "PARSER", _P + " (crawler seeks join_clause)", ("join_clause",)),
    ("rules/ambiguous/AM05.py", "Rule_AM05._eval", "join_clause_keywords[0]", 3, "GRAMMAR", "every dialect's JoinClauseSegment alternatives are Sequences whose join keywords (JoinTypeKeywordsGrammar / JoinKeywordsGrammar / APPLY ..) are direct keyword children and mandatory, not GREEDY: a join_clause has >= 1 direct keyword (490 join_clause nodes of the dialect fixtures: min 1; no witness among ~20k malformed inputs)"),
    ("rules/ambiguous/AM05.py", "Rule_AM05._eval", "join_clause_keywords[1]", 2, "GRAMMAR", "evaluated only after join_clause_keywords[0] is RIGHT/LEFT/FULL (short-circuit): a join type keyword is always followed by the mandatory JOIN keyword (JoinKeywordsGrammar) in the same Sequence"),
    ("rules/convention/CV03.py", "Rule_CV03._eval", "children.last(sp.is_code())[0]", 1, "GRAMMAR", "a select_clause starts with the SELECT keyword in every dialect (first child of all 5614 select_clause nodes of the fixtures is a keyword): a code child exists", ("select_clause",)),
    ("rules/convention/CV05.py", "Rule_CV05._eval", "sub_seg.raw[0]", 1, "LEXER", "sub_seg is a null_literal (all(sp.is_type('null_literal')) and asserted present): a lexed code token has a non-empty raw"),
    ("rules/convention/CV06.py", "Rule_CV06._ensure_final_semicolon", "statement_container.segments[-1]", 2, "CONSTRUCTION", "statement_container was chosen because last_statement was found among its .segments (or is the non-raw child it was found under); 'if not statement_container: return' precedes"),
    ("rules/convention/CV06.py", "Rule_CV06._handle_preceding_inline_comments", "anchor_segment.raw_segments[-1]", 1, "PARSER", _RAWS + " (the source comment says the same)"),
    ("rules/convention/CV08.py", "Rule_CV08._eval", "context.segment.segments[0]", 1, "PARSER", _P + " (crawler seeks join_clause)", ("join_clause",)),
    ("rules/convention/CV10.py", "Rule_CV10._eval", "context.segment.raw[-1]", 1, "LEXER", "crawler seeks quoted_literal: a lexed token, raw is non-empty"),
    ("rules/convention/CV10.py", "Rule_CV10._eval", "fixed_string[0]", 1, "CONSTRUCTION", "_normalize_preferred_quoted_literal_style returns its non-empty input or prefix + quote + body + quote"),
    ("rules/convention/CV10.py", "Rule_CV10._normalize_preferred_quoted_literal_style", "value[0]", 2, "LEXER", "s is the raw of a quoted_literal: optional prefix letters followed by a quote character in every dialect's lexer pattern, so s.lstrip(prefix letters) keeps at least the quotes"),
    ("rules/convention/CV12.py", "Rule_CV12._eval_gen", "select_statement.segments[-1]", 2, "CONSTRUCTION", "where_clause = select_statement.get_child('where_clause') is not None here, so the select_statement has children"),
    ("rules/convention/CV12.py", "Rule_CV12._eval_gen", "select_statement.segments[-2]", 2, "GRAMMAR", "a select_statement that has a where_clause child also has its select_clause child (first element of the Sequence): >= 2 children"),
    ("rules/convention/CV13.py", "Rule_CV13._eval", "statements[-1].segments[0]", 1, "PARSER", _P + " (get_children('statement'))", ("statement",)),
    ("rules/jinja/JJ01.py", "Rule_JJ01._get_whitespace_ends", "s[-1]", 1, "CONTRACT", "only caller (_eval) passes `stripped` after 'if not stripped or stripped[0] != \"{\" or stripped[-1] != \"}\": continue'"),
    ("rules/jinja/JJ01.py", "Rule_JJ01._get_whitespace_ends", "s[0]", 1, "CONTRACT", "only caller (_eval) passes `stripped` after 'if not stripped or ...: continue'"),
    ("rules/layout/LT06.py", "Rule_LT06._eval", "children.first(sp.is_type('function_contents'))[0]", 1, "GRAMMAR", "FunctionSegment is Sequence(function name .., FunctionContentsSegment) in every dialect, both mandatory and not GREEDY (3172 function nodes of the fixtures all have both children)", ("function",)),
    ("rules/layout/LT06.py", "Rule_LT06._eval", "children.first(sp.is_type('function_name'))[0]", 1, "GRAMMAR", "FunctionSegment is Sequence(function name .., FunctionContentsSegment) in every dialect (3172 function nodes of the fixtures all have both children)", ("function",)),
    ("rules/layout/LT08.py", "Rule_LT08._eval", "forward_slice[0]", 1, "CONSTRUCTION", "forward_slice = expanded_segments[bracket_idx:] with bracket_idx an index produced by enumerate(expanded_segments): the slice starts at an existing element"),
    ("rules/layout/LT10.py", "Rule_LT10._eval", "child_segments[0]", 1, "PARSER", "children of the select_clause the crawler seeks; " + _P, ("select_clause",)),
    ("rules/layout/LT12.py", "Rule_LT12._eval", "parent_stack[1]", 1, "CONSTRUCTION", "else-branch of len(parent_stack) == 1; get_last_segment() pushes one entry per level that has children and the file segment of a non-empty file has children, so the length is >= 1 and here >= 2"),
    ("rules/references/RF01.py", "Rule_RF01._get_table_refs", "sr.segments[0]", 1, "NO_WITNESS", "ObjectReferencePart.segments is empty only for the empty part of a BigQuery table_reference (x..y); refs reaching here come from select_info.reference_buffer (object references inside the select clause / where / ...), no input found that puts such a table_reference there"),
    ("rules/references/RF01.py", "Rule_RF01._get_table_refs", "tr.segments[0]", 2, "NO_WITNESS", "same as sr.segments[0]: only a BigQuery table_reference yields parts without segments; none found in a reference_buffer"),
    ("rules/references/RF01.py", "Rule_RF01._resolve_reference", "tbl_refs[0]", 1, "CONTRACT", "reached only when object_ref_matches_table(possible_references, ..) is False, and that helper returns True for an empty list (core/rules/reference.py); possible_references has one entry per tbl_ref"),
    ("rules/references/RF01.py", "Rule_RF01._resolve_reference", "tbl_refs[0][0].segments[0]", 1, "NO_WITNESS", "same parts as in _get_table_refs (which subscripts them first)"),
    ("rules/references/RF02.py", "Rule_RF02._find_sql_variables", "rule_context.parent_stack[0]", 1, "CRAWLER", "called from _lint_references_and_aliases with the context of _eval; the rule's crawler is SegmentSeekerCrawler({'select_statement'}) (inherited from AL04) and never yields the root"),
    ("rules/references/RF03.py", "Rule_RF03._iter_available_targets", "subquery.selectables[0]", 1, "CONTRACT", "the only call that passes a subquery is _visit_queries(.., query) inside 'if query.selectables:'"),
    ("rules/references/RF03.py", "_check_references", "table_aliases[0]", 2, "CONTRACT", "the only caller passes select_info.table_aliases under 'len(select_info.table_aliases) == 1'"),
    ("rules/structure/ST02.py", "Rule_ST02._eval", "context.segment.segments[0]", 1, "PARSER", _P + " (crawler seeks case_expression)", ("case_expression",)),
    ("rules/structure/ST05.py", "Rule_ST05._eval", "segment[0]", 2, "CONSTRUCTION", "segment is FunctionalContext(context).segment (one element) or insert_parent, assigned only under 'elif insert_parent and ..'"),
    ("rules/structure/ST05.py", "Rule_ST05._lint_query", "nsq.table_alias.from_expression_element.segments[0]", 1, "PARSER", _P, ("from_expression_element",)),
    ("rules/structure/ST05.py", "_CTEBuilder.ensure_space_after_from", "from_segment[0]", 2, "CONSTRUCTION", "under 'if missing_space_after_from', which _missing_space_after_from sets only when from_segment is truthy"),
    ("rules/structure/ST05.py", "_is_correlated_subquery", "nested_select[0]", 1, "CONTRACT", "the only caller passes Segments(selectable_.selectable): one element"),
    ("rules/structure/ST06.py", "Rule_ST06._eval", "e[0]", 2, "CONSTRUCTION", "isinstance(e, tuple) and e[0] == ..: e ranges over the class constant select_element_order_preference whose tuple entries are ('function', 'cast') style pairs"),
    ("rules/structure/ST06.py", "Rule_ST06._eval", "e[1]", 1, "CONSTRUCTION", "the tuple entries of select_element_order_preference with e[0] == 'expression' are pairs"),
    ("rules/structure/ST06.py", "Rule_ST06._eval", "self.seen_band_elements[-1]", 1, "CONSTRUCTION", "seen_band_elements = [[] for _ in select_element_order_preference] + [[]]: never empty"),
    ("rules/structure/ST06.py", "Rule_ST06._is_simple_cast_expression", "segment.segments[0]", 1, "PARSER", _P + " (guarded by is_type('cast_expression'))", ("cast_expression",)),
    ("rules/structure/ST07.py", "Rule_ST07._eval", "parts[0].segments[0]", 1, "NO_WITNESS", "parts of a reference from select_info.reference_buffer (guarded by 'if not parts: continue'); a part without segments exists only for a BigQuery table_reference x..y, none found in a reference_buffer"),
    ("rules/structure/ST07.py", "_extract_cols_from_using", "using_segs[0]", 1, "CONTRACT", "the only caller passes using_anchor after 'if len(using_anchor) == 0: return None'"),
    ("rules/structure/ST08.py", "Rule_ST08._eval", "bracketed.children()[0]", 1, "PARSER", "bracketed = children.first(is_type('function_contents')) is non-empty here ('or not bracketed' returned); " + _P, ("function_contents",)),
    ("rules/structure/ST08.py", "Rule_ST08._remove_unneeded_brackets", "context.parent_stack[0]", 1, "CRAWLER", "called from _eval with its context; crawler SegmentSeekerCrawler({'select_clause', 'function'}) never yields the root"),
    ("rules/structure/ST09.py", "Rule_ST09._eval", "children.recursive_crawl('from_expression_element')[0]", 1, "GRAMMAR", "a from_expression starts with a from_expression_element, a bracketed from_expression or (BigQuery) an ml_table_expression wrapping one; with a join_on_condition present (checked above) the join's own from_expression_element is found by the recursive crawl in any case"),
    ("rules/structure/ST09.py", "Rule_ST09._eval", "subcondition[0]", 1, "CONSTRUCTION", "column_operator_column_subconditions keeps only lists accepted by _is_qualified_column_operator_qualified_column_sequence, which requires len == 3"),
    ("rules/structure/ST09.py", "Rule_ST09._eval", "subcondition[1]", 1, "CONSTRUCTION", "see subcondition[0] (len == 3)"),
    ("rules/structure/ST09.py", "Rule_ST09._eval", "subcondition[2]", 1, "CONSTRUCTION", "see subcondition[0] (len == 3)"),
    ("rules/structure/ST11.py", "Rule_ST11._extract_references_from_expression", "table_reference.segments[-1]", 1, "PARSER", _P, ("table_reference",)),
    ("rules/tsql/TQ01.py", "Rule_TQ01._eval", "object_reference_segment.segments[-1]", 1, "PARSER", _P + " (selected by s.type == 'object_reference')", ("object_reference",)),
    # ---- utils/analysis, utils/functional -----------------------------------------
    ("utils/analysis/query.py", "Query.from_segment", "cte.segments[0]", 1, "PARSER", _P + " (recursive_crawl('common_table_expression'))", ("common_table_expression",)),
    ("utils/functional/context.py", "FunctionalContext.raw_segments", "self.context.parent_stack[0]", 1, "CONTRACT", "unused convenience property (pragma: no cover, no caller in the tree); needs a non-root context"),
    # ---- utils/reflow ---------------------------------------------------------------
    ("utils/reflow/elements.py", "_indent_description", "indent[0]", 2, "CONSTRUCTION", "after 'if indent == \"\": return': the string is non-empty"),
    ("utils/reflow/rebreak.py", "identify_rebreak_spans", "element_buffer[idx].segments[0]", 1, "INVARIANT", "element_buffer[idx] is `elem` of the enumerating loop, which skips everything that is not a ReflowBlock ('if not isinstance(elem, ReflowBlock): continue'); a ReflowBlock holds exactly one segment"),
    ("utils/reflow/rebreak.py", "rebreak_keywords_sequence", "elem_buff[loc.next.adj_pt_idx - 1].segments[-1]", 2, "INVARIANT", _ALT),
    ("utils/reflow/rebreak.py", "rebreak_keywords_sequence", "elem_buff[loc.prev.adj_pt_idx + 1].segments[0]", 2, "INVARIANT", _ALT),
    ("utils/reflow/rebreak.py", "rebreak_sequence", "first_create_anchor(elem_buff, range(loc.next.pre_code_pt_idx, loc.next.adj_pt_idx - 1, -1))[-1]", 1, "CONSTRUCTION", "first_create_anchor returns the first elem_buff[i].segments that is truthy (generator filter) or raises"),
    ("utils/reflow/rebreak.py", "rebreak_sequence", "lead_create_anchor[-1]", 1, "CONSTRUCTION", "lead_create_anchor = first_create_anchor(..): a truthy segments tuple"),
    ("utils/reflow/rebreak.py", "rebreak_sequence", "loc.target.raw_segments[-1]", 2, "PARSER", _RAWS),
    ("utils/reflow/rebreak.py", "rebreak_sequence", "loc.target.raw_segments[0]", 2, "PARSER", _RAWS),
    ("utils/reflow/respace.py", "determine_constraints", "common[-1]", 2, "INVARIANT", "prev_block and next_block are raw segments of the same file: their DepthInfo stacks share at least the root ('file') hash, so common_with() is non-empty (it asserts a common depth itself)"),
    ("utils/reflow/reindent.py", "_IndentLine.closing_balance", "self.indent_points[-1]", 1, "INVARIANT", _LINE),
    ("utils/reflow/reindent.py", "_IndentLine.desired_indent_units", "self.indent_points[0]", 8, "INVARIANT", _LINE),
    ("utils/reflow/reindent.py", "_IndentLine.from_points", "indent_points[-1]", 1, "INVARIANT", _LINE),
    ("utils/reflow/reindent.py", "_IndentLine.from_points", "indent_points[0]", 1, "INVARIANT", _LINE),
    ("utils/reflow/reindent.py", "_IndentLine.iter_elements", "self.indent_points[-1]", 3, "INVARIANT", _LINE),
    ("utils/reflow/reindent.py", "_IndentLine.iter_elements", "self.indent_points[0]", 1, "INVARIANT", _LINE),
    ("utils/reflow/reindent.py", "_IndentLine.opening_balance", "self.indent_points[-1]", 1, "INVARIANT", _LINE),
    ("utils/reflow/reindent.py", "_IndentLine.opening_balance", "self.indent_points[0]", 1, "INVARIANT", _LINE),
    ("utils/reflow/reindent.py", "_convert_newlines_to_spaces", "elem.segments[0]", 1, "CONSTRUCTION", "under 'if fixes:' and fixes is filled only inside 'if elem.segments:'"),
    ("utils/reflow/reindent.py", "_crawl_indent_points", "elements[idx + 1].segments[0]", 2, "INVARIANT", "idx is the index of a ReflowPoint (the loop handles points only); " + _ALT),
    ("utils/reflow/reindent.py", "_deduce_line_current_indent", "elements[0]", 6, "CONTRACT", "elements is the element list of a ReflowSequence built from a non-empty file (callers pass the sequence they are linting)"),
    ("utils/reflow/reindent.py", "_fix_long_line_with_comment", "elements[last_indent_idx + 1].segments[0]", 1, "INVARIANT", "last_indent_idx is the index of the line's indent point; " + _ALT),
    ("utils/reflow/reindent.py", "_fix_long_line_with_comment", "line_buffer[-1]", 5, "CONTRACT", "lint_line_length calls it only under 'len(line_buffer) > 1 and line_buffer[-1].segments[-1].is_type(\"inline_comment\")'"),
    ("utils/reflow/reindent.py", "_fix_long_line_with_comment", "line_buffer[-1].segments[-1]", 3, "CONTRACT", "the caller has just evaluated line_buffer[-1].segments[-1].is_type('inline_comment')"),
    ("utils/reflow/reindent.py", "_fix_long_line_with_comment", "line_buffer[-2]", 2, "CONTRACT", "caller: len(line_buffer) > 1"),
    ("utils/reflow/reindent.py", "_fix_long_line_with_comment", "line_buffer[0]", 1, "CONTRACT", "caller: len(line_buffer) > 1"),
    ("utils/reflow/reindent.py", "_fix_long_line_with_comment", "line_buffer[0].segments[0]", 1, "CONTRACT", "caller (lint_line_length) asserts line_buffer[0].segments before"),
    ("utils/reflow/reindent.py", "_fix_long_line_with_fractional_targets", "elements[e_idx + 1].segments[0]", 1, "INVARIANT", "target_breaks are indices of points; " + _ALT),
    ("utils/reflow/reindent.py", "_fix_long_line_with_fractional_targets", "elements[e_idx - 1].segments[-1]", 1, "INVARIANT", "target_breaks are indices of points; " + _ALT),
    ("utils/reflow/reindent.py", "_fix_long_line_with_integer_targets", "elements[e_idx + 1].segments[0]", 3, "INVARIANT", "target_breaks are indices of points; " + _ALT),
    ("utils/reflow/reindent.py", "_fix_long_line_with_integer_targets", "elements[e_idx - 1].segments[-1]", 1, "INVARIANT", "target_breaks are indices of points; " + _ALT),
    ("utils/reflow/reindent.py", "_lint_line_buffer_indents", "elements[indent_line.indent_points[0].idx + 1].segments[0]", 2, "INVARIANT", "an indent point's idx is the index of a ReflowPoint; " + _ALT),
    ("utils/reflow/reindent.py", "_lint_line_buffer_indents", "indent_line.indent_points[-1]", 2, "INVARIANT", _LINE),
    ("utils/reflow/reindent.py", "_lint_line_buffer_indents", "indent_line.indent_points[0]", 4, "INVARIANT", _LINE),
    ("utils/reflow/reindent.py", "_lint_line_starting_indent", "elements[indent_points[0].idx].segments[0]", 1, "INVARIANT", "under 'indent_points[0].idx == 0 and not is_line_break': elements[0] is a point only when the file starts with whitespace / a whitespace placeholder, and _elements_from_raw_segments creates a leading point only from a non-empty buffer"),
    ("utils/reflow/reindent.py", "_lint_line_starting_indent", "elements[initial_point_idx + 1].segments[0]", 2, "INVARIANT", "an indent point's idx is the index of a ReflowPoint; " + _ALT),
    ("utils/reflow/reindent.py", "_lint_line_starting_indent", "indent_points[-1]", 1, "INVARIANT", _LINE),
    ("utils/reflow/reindent.py", "_lint_line_starting_indent", "indent_points[0]", 5, "INVARIANT", _LINE),
    ("utils/reflow/reindent.py", "_lint_line_starting_indent", "initial_point.segments[0]", 1, "INVARIANT", "same leading point as elements[indent_points[0].idx] (non-empty by construction of the sequence)"),
    ("utils/reflow/reindent.py", "_lint_line_untaken_negative_indents", "elements[ip.idx + 1].segments[0]", 4, "INVARIANT", "an indent point's idx is the index of a ReflowPoint; " + _ALT),
    ("utils/reflow/reindent.py", "_lint_line_untaken_positive_indents", "elements[ip.idx + 1].segments[0]", 2, "INVARIANT", "an indent point's idx is the index of a ReflowPoint; " + _ALT),
    ("utils/reflow/reindent.py", "_lint_line_untaken_positive_indents", "elements[target_point_idx + 1].segments[0]", 2, "INVARIANT", "target_point_idx is the idx of an indent point; " + _ALT),
    ("utils/reflow/reindent.py", "_lint_line_untaken_positive_indents", "indent_line.indent_points[-1]", 1, "INVARIANT", _LINE),
    ("utils/reflow/reindent.py", "_lint_line_untaken_positive_indents", "indent_points[-1]", 1, "INVARIANT", _LINE),
    ("utils/reflow/reindent.py", "_revise_templated_lines", "_element.segments[0]", 2, "INVARIANT", "else-branch of isinstance(_element, ReflowPoint): a ReflowBlock, one segment"),
    ("utils/reflow/reindent.py", "_revise_templated_lines", "elements[first_point_idx - 1].segments[0]", 1, "INVARIANT", "first_point_idx is the idx of an indent point; " + _ALT),
    ("utils/reflow/reindent.py", "_revise_templated_lines", "elements[ip.idx + 1].segments[0]", 1, "INVARIANT", "an indent point's idx is the index of a ReflowPoint; " + _ALT),
    ("utils/reflow/reindent.py", "_revise_templated_lines", "elements[line.indent_points[0].idx + 1].segments[0]", 1, "INVARIANT", "an indent point's idx is the index of a ReflowPoint; " + _ALT),
    ("utils/reflow/reindent.py", "_revise_templated_lines", "group_lines[-1]", 2, "CONSTRUCTION", "group_lines = grouped[group_uuid] for a key of the defaultdict(list) 'grouped': a key exists only after an append"),
    ("utils/reflow/reindent.py", "_revise_templated_lines", "group_lines[0]", 3, "CONSTRUCTION", "see group_lines[-1]"),
    ("utils/reflow/reindent.py", "_revise_templated_lines", "line.indent_points[-1]", 1, "INVARIANT", _LINE),
    ("utils/reflow/reindent.py", "_revise_templated_lines", "line.indent_points[0]", 3, "INVARIANT", _LINE),
    ("utils/reflow/reindent.py", "_revise_templated_lines", "lines[idx - 1].indent_points[0]", 1, "INVARIANT", _LINE),
    ("utils/reflow/reindent.py", "_revise_templated_lines", "lines[next_group_line].indent_points[0]", 1, "INVARIANT", _LINE),
    ("utils/reflow/reindent.py", "lint_line_length", "line_buffer[-1].segments[-1]", 1, "INVARIANT", "line_buffer ends with the last block of the line (the buffer is cut at a point): a ReflowBlock, one segment; 'len(line_buffer) > 1' stands to the left"),
]


R05E_CLASSES = ("PARSER", "GRAMMAR", "LEXER", "CONSTRUCTION", "CONTRACT", "CRAWLER", "INVARIANT", "NO_WITNESS")


def _r05e(chk) -> None:
    repo = chk.repo
    cx = _subs.Ctx(repo)
    table = {}
    for ent in R05E_TABLE:
        path, func, text, limit, cls, reason = ent[:6]
        if cls not in R05E_CLASSES:
            raise AnalysisError(f"R05e: table entry {path}::{func} {text} has unknown class {cls}")
        table[(path, func, text)] = ent
    used: Dict[tuple, int] = {}
    unguarded: Dict[tuple, list] = {}
    n_sites = 0
    for m, n in _subs.sites(repo):
        n_sites += 1
        idiom, why = _subs.judge(cx, n, m)
        if idiom is not None:
            kind = idiom.split(":")[0] if idiom.startswith("derived") else idiom
            chk.count(f"R05e.guarded.{kind}")
            chk.count("R05e.guarded")
            continue
        f = _subs._real_function(n)
        key = (_rel(m), qualname(f) if f is not None else "<module>", norm(n))
        unguarded.setdefault(key, []).append((n, why))
    chk.count("R05e.sites", n_sites)
    sampled = 0
    for key, occ in unguarded.items():
        n0 = occ[0][0]
        construct = f"src/sqlfluff/{key[0]}::{key[1]}"
        detail = f"{key[1]}: {key[2]}"
        ent = table.get(key)
        if ent is None:
            chk.count("R05e.unreviewed_unguarded", len(occ))
            chk.fail(
                "R05e", n0,
                f"unguarded constant-index subscript {short(n0, 90)} ({len(occ)} occurrence(s) in {key[1]}): nothing known here implies the collection is long enough "
                f"({occ[0][1]}); on a parse tree where it is shorter this raises IndexError inside the rule (reported as 'Unexpected exception'). "
                "Guard it (if not X: return / len test / .get()) or, if a shape invariant makes it safe, review it into R05E_TABLE",
                detail=detail, construct=construct,
            )
            continue
        used[key] = len(occ)
        limit, cls, reason = ent[3], ent[4], ent[5]
        if len(occ) > limit:
            chk.count("R05e.unreviewed_unguarded", len(occ) - limit)
            chk.fail(
                "R05e", occ[-1][0],
                f"{len(occ)} unguarded occurrences of {short(n0, 80)} in {key[1]}, but only {limit} were reviewed ({cls}): a new unguarded use of the same collection",
                detail=detail + f" (more than {limit} occurrences)", construct=construct,
            )
            continue
        chk.count(f"R05e.table.{cls}", len(occ))
        chk.count("R05e.table_sites", len(occ))
        if cls == "NO_WITNESS":
            chk.count("R05e.no_witness", len(occ))
            chk.note(f"R05e no witness / no invariant (listed, not claimed safe): {key[0]}::{key[1]} {key[2]} -- {reason}")
        chk.ok("R05e", construct, f"{key[2]} [{cls}]")
        if sampled < 4 and cls in ("PARSER", "GRAMMAR"):
            sampled += 1
            chk.sample({"rule": "R05e", "site": f"{n0._module.relpath}:{n0.lineno}", "subscript": short(n0, 70), "class": cls, "reason": reason[:160]})
    stale = [k for k in table if k not in used]
    chk.count("R05e.table_entries", len(table))
    chk.count("R05e.table_entries_stale", len(stale))
    if stale:
        chk.note(f"R05e: {len(stale)} reviewed-table entries matched no unguarded site (source moved on or the site is guarded now): " + "; ".join(f"{a}::{b} {c[:40]}" for a, b, c in stale[:8]))
    # what the reflow-block idiom relies on: every ReflowBlock is built with a one-element segments tuple
    n_ctor = 0
    for m, call, seg in _subs.block_constructors(repo):
        n_ctor += 1
        ok = isinstance(seg, ast.Tuple) and len(seg.elts) >= 1 and not any(isinstance(x, ast.Starred) for x in seg.elts)
        chk.require(
            ok, "R05e", call,
            f"ReflowBlock constructed with segments={short(seg, 40) if seg is not None else '<missing>'}: not a non-empty tuple display, so block.segments[0] / [-1] "
            "(used unguarded throughout utils/reflow) may raise IndexError",
            detail=f"ReflowBlock constructor: segments={short(seg, 40) if seg is not None else '<missing>'}",
        )
    chk.count("R05e.reflow_block_constructors", n_ctor)
    chk.floor("R05e.reflow_block_constructors", 2)
    chk.floor("R05e.sites", 300)
    chk.floor("R05e.guarded", 150)
    if chk.tier == "thorough" and not getattr(chk, "in_selftest", False):
        _r05e_grammar(chk)


def _r05e_grammar(chk) -> None:
    """PARSER / GRAMMAR entries name segment types that must never be carried by a raw
    segment (a raw segment has no children: ``.segments[0]`` raises).  Re-checked against
    the dialect grammar graph: no RawSegment subclass, parser (``StringParser`` ..) or
    lexer matcher of any dialect produces one of these types."""
    from ..grammar import load_grammar

    types = sorted({t for ent in R05E_TABLE if len(ent) > 6 for t in ent[6]})
    g = load_grammar(chk.repo)
    raw: Dict[str, set] = {}
    nonraw: set = set()
    for label, dg in g.items():
        for nd in dg.iter_nodes():
            fam = nd.get("family")
            if fam == "segment":
                tys = list(nd.get("class_types") or []) or [nd.get("type")]
                if "RawSegment" in (nd.get("bases") or []):
                    for t in tys:
                        raw.setdefault(t, set()).add(f"{label}:{nd.get('name')}")
                else:
                    nonraw.update(tys)
            elif fam == "parser":
                for t in [nd.get("raw_class_type")] + list(nd.get("instance_types") or []):
                    if t:
                        raw.setdefault(t, set()).add(f"{label}:{nd.get('kind')}")
        for rec, _ in dg.all_lexers():
            kw = rec.get("segment_kwargs") or {}
            for t in [rec.get("segment_type"), kw.get("type")] + list(kw.get("instance_types") or []):
                if t:
                    raw.setdefault(t, set()).add(f"{label}:lexer:{rec.get('name')}")
    for t in types:
        chk.count("R05e.never_raw_types_checked")
        chk.require(
            t not in raw, "R05e", None,
            f"segment type '{t}' (R05E_TABLE relies on nodes of this type having children) can be carried by a raw segment: {sorted(raw.get(t, ()))[:3]}",
            detail=f"never-raw type {t}", construct="dialect grammars",
        )
        if t not in nonraw:
            chk.note(f"R05e: type '{t}' named by the table is produced by no segment class of any dialect (stale)")

# ---- R05a -------------------------------------------------------------------


def _is_count_loop(n: ast.AST) -> bool:
    return (
        isinstance(n, ast.For)
        and isinstance(n.iter, ast.Call)
        and last_attr(n.iter) == "count"
        and isinstance(n.target, ast.Name)
    )


def _r05a(chk) -> None:
    repo = chk.repo
    _SAMPLED.clear()
    for scope in SCOPES:
        for m in repo.iter_modules(scope):
            for q, f in m.functions():
                loops = [n for n in walk_local(f) if isinstance(n, ast.While) or _is_count_loop(n)]
                if not loops:
                    continue
                chk.count("R05a.loops_examined", len(loops))
                cfg = cfg_of(f)
                # innermost loop first, so a site is attributed to the closest loop that advances its index
                loops.sort(key=lambda n: -n.lineno)
                done = set()
                for loop in loops:
                    body_nodes = [x for st in loop.body for x in [st] + list(walk_local(st))]
                    dirs: Dict[str, set] = {}
                    for x in body_nodes:
                        if isinstance(x, ast.stmt):
                            for v, d in _is_advance(x):
                                dirs.setdefault(v, set()).add(d)
                    if _is_count_loop(loop):
                        step = loop.iter.args[1] if len(loop.iter.args) > 1 else None
                        neg = isinstance(step, ast.UnaryOp) and isinstance(step.op, ast.USub)
                        dirs.setdefault(loop.target.id, set()).add("down" if neg else "up")
                    if not dirs:
                        continue
                    where_ = ([loop.test] if isinstance(loop, ast.While) else []) + body_nodes
                    sites = []
                    cand = {}
                    for top in where_:
                        for s in [top] + list(walk_local(top)):
                            cand[id(s)] = s
                    for s in sorted(cand.values(), key=lambda x: (getattr(x, "lineno", 0), getattr(x, "col_offset", 0))):
                        if (
                            isinstance(s, ast.Subscript)
                            and isinstance(s.ctx, ast.Load)
                            and not isinstance(s.slice, ast.Slice)
                            and not (isinstance(s.slice, ast.Tuple))
                            and id(s) not in done
                        ):
                            vs = _names(s.slice) & set(dirs)
                            if vs and not (_names(s.value) & vs):
                                sites.append((s, sorted(vs)[0]))
                    if not sites:
                        continue
                    chk.count("R05a.index_advancing_loops")
                    advs_of = {
                        v: [x for x in body_nodes if isinstance(x, ast.stmt) and _assigns_to(x, v) and not isinstance(x, (ast.For, ast.AsyncFor))]
                        for v in dirs
                    }
                    for s, v in sites:
                        done.add(id(s))
                        chk.count("R05a.subscript_sites")
                        _check_site(chk, cfg, f, loop, s, v, dirs[v], advs_of[v])
    chk.floor("R05a.loops_examined", 5)
    chk.floor("R05a.index_advancing_loops", 2)


_SAMPLED: set = set()


def _check_site(chk, cfg, f, loop, s: ast.Subscript, v: str, directions: set, advs) -> None:
    seq = norm(s.value)
    st = cfg.stmt_of(s)
    head = short(loop.test, 90) if isinstance(loop, ast.While) else f"for {norm(loop.target)} in {short(loop.iter, 60)}"
    detail = f"{short(s, 60)} in loop [{head}]"
    if _in_try_catching(s, f, {"IndexError", "LookupError", "Exception", "BaseException", "KeyError"}):
        chk.ok("R05a", construct_of(s), detail + " (inside try/except IndexError)")
        return
    # facts known at the subscript
    facts = []
    # (a) short-circuit conjuncts of the enclosing test expression
    holder = st
    test = getattr(holder, "test", None) if isinstance(holder, (ast.While, ast.If)) else None
    if test is not None and any(n is s for n in ast.walk(test)):
        facts += [(fa, None) for fa in _left_facts(test, s)]
    else:
        # boolean expression inside an ordinary statement (x = a and s[i]) / IfExp
        p = s
        while p is not None and p is not st:
            par = getattr(p, "_parent", None)
            if isinstance(par, ast.BoolOp):
                facts += [(fa, None) for fa in _left_facts(par, s)]
            if isinstance(par, ast.IfExp) and p is not par.test:
                facts += [(fa, None) for fa in atoms(par.test, p is par.body)]
            p = par
    # (b) dominating branch conditions, unless the index moved in between
    if st is not None:
        for g in cfg.guards(st):
            if isinstance(g.stmt, (ast.If, ast.While)):
                if _stale(cfg, g, st, advs):
                    continue
                facts += [(fa, g) for fa in atoms(g.stmt.test, g.polarity)]
    lin_idx = _lin(s.slice, v, seq, cfg, st)
    k = lin_idx.c if (lin_idx is not None and lin_idx.cv == 1 and lin_idx.cl == 0) else None
    problems = []
    for d in sorted(directions):
        verdicts = [x for x in (_bound_verdict(fa, v, seq, k, d, cfg, st) for fa, _ in facts) if x]
        if "ok" in verdicts:
            continue
        if verdicts:
            problems.append(f"the only {'length' if d == 'up' else 'lower'} bound known here is off by {verdicts[0].split(':')[1]}")
        elif d == "up":
            problems.append(f"no condition known here bounds '{v}' by len({seq})")
        else:
            problems.append(f"'{v}' is decreased but no condition known here keeps it >= 0")
    chk.require(
        not problems, "R05a", s,
        f"index scan without bound: {short(s, 60)} is evaluated with '{v}' advanced by the loop; " + "; ".join(problems)
        + " — on a tree where the scanned-for element is missing this raises IndexError (reported as 'Unexpected exception')",
        detail=detail,
    )
    if detail in _SAMPLED:
        return
    _SAMPLED.add(detail)
    chk.sample({"rule": "R05a", "site": f"{s._module.relpath}:{s.lineno}", "subscript": short(s, 60), "index": v,
                "facts": [short(fa[0], 50) + ("" if fa[1] else " =F") for fa, _ in facts][:6], "verdict": "unbounded" if problems else "bounded"})


# ---- R05b -------------------------------------------------------------------


def _r05b(chk) -> None:
    repo = chk.repo
    seen_keys = set()
    unreviewed = []
    for scope in SCOPES:
        for m in repo.iter_modules(scope):
            shadow = "next" in m.defs
            for n in ast.walk(m.tree):
                if not isinstance(n, ast.Call):
                    continue
                kind = None
                if isinstance(n.func, ast.Name) and n.func.id == "next" and not shadow:
                    if len(n.args) >= 2 or kwarg(n, "default") is not None:
                        chk.count("R05b.next_with_default")
                        continue
                    if len(n.args) == 1:
                        kind = "next"
                elif isinstance(n.func, ast.Attribute) and n.func.attr == "index" and len(n.args) >= 1 and not n.keywords:
                    kind = "index"
                if kind is None:
                    continue
                chk.count(f"R05b.{kind}_sites")
                f = enclosing_function(n)
                while f is not None and isinstance(f, ast.Lambda):
                    f = enclosing_function(f)
                fq = qualname(f) if f is not None else "<module>"
                key = (f"{_rel(m)}::{fq}", norm(n))
                construct = f"{m.relpath}::{fq}"
                detail = short(n, 150)
                # (i) try/except
                catch = {"next": {"StopIteration", "Exception", "BaseException"}, "index": {"ValueError", "Exception", "BaseException"}}[kind]
                h = _in_try_catching(n, f, catch) if f is not None else None
                if h is not None and not any(isinstance(x, ast.Raise) for x in ast.walk(h)):
                    chk.count("R05b.guarded_by_try")
                    chk.ok("R05b", construct, detail + " [try]")
                    continue
                conds = []
                if f is not None and isinstance(f, FuncNode):
                    cfg = cfg_of(f)
                    st = cfg.stmt_of(n)
                    conds = cfg.conditions(st) if st is not None else []
                    # conditions of an enclosing conditional expression / boolean operator
                    p = n
                    while p is not None and p is not st:
                        par = getattr(p, "_parent", None)
                        if isinstance(par, ast.IfExp) and p is not par.test:
                            conds = conds + atoms(par.test, p is par.body)
                        if isinstance(par, ast.BoolOp):
                            conds = conds + _left_facts(par, n)
                        p = par
                # (ii) membership test
                if kind == "index":
                    x, recv = norm(n.args[0]), norm(n.func.value)
                    member = False
                    for e, pol in conds:
                        if isinstance(e, ast.Compare) and len(e.ops) == 1 and norm(e.left) == x and norm(e.comparators[0]) == recv:
                            if (isinstance(e.ops[0], ast.In) and pol) or (isinstance(e.ops[0], ast.NotIn) and not pol):
                                member = True
                    if member:
                        chk.count("R05b.guarded_by_membership_test")
                        chk.ok("R05b", construct, detail + " [x in seq]")
                        continue
                # (ii-b) next(<x for v in ITER if v.ATTR == C>): a dominating `C in S` / `{.., C, ..}.issubset(S)` where S
                # is the set of v.ATTR over the SAME iterable establishes that an element passes the filter
                if kind == "next" and isinstance(n.args[0], ast.GeneratorExp) and len(n.args[0].generators) == 1 and len(n.args[0].generators[0].ifs) == 1 and f is not None and isinstance(f, FuncNode):
                    g0 = n.args[0].generators[0]
                    flt = g0.ifs[0]
                    it0 = g0.iter
                    if isinstance(it0, ast.Call) and isinstance(it0.func, ast.Name) and it0.func.id == "enumerate" and it0.args:
                        it0 = it0.args[0]
                    tgt_names = {x.id for x in ast.walk(g0.target) if isinstance(x, ast.Name)}
                    attr = cval = None
                    if isinstance(flt, ast.Compare) and len(flt.ops) == 1 and isinstance(flt.ops[0], ast.Eq) and isinstance(flt.left, ast.Attribute) \
                            and isinstance(flt.left.value, ast.Name) and flt.left.value.id in tgt_names and isinstance(flt.comparators[0], ast.Constant):
                        attr, cval = flt.left.attr, flt.comparators[0].value
                    if attr is not None:
                        def _same_domain(sexpr, at) -> bool:
                            os2 = origins(cfg, sexpr, at) if isinstance(sexpr, ast.Name) else []
                            exprs = [o.expr for o in os2 if o.kind == "expr"] if os2 else [sexpr]
                            okk = bool(exprs)
                            for e2 in exprs:
                                if not (isinstance(e2, (ast.SetComp, ast.ListComp, ast.GeneratorExp)) and len(e2.generators) == 1 and not e2.generators[0].ifs
                                        and isinstance(e2.elt, ast.Attribute) and e2.elt.attr == attr and isinstance(e2.elt.value, ast.Name)
                                        and norm(e2.generators[0].iter) == norm(it0)):
                                    okk = False
                            return okk
                        found = False
                        for e, pol in conds:
                            if not pol:
                                continue
                            if isinstance(e, ast.Compare) and len(e.ops) == 1 and isinstance(e.ops[0], ast.In) and isinstance(e.left, ast.Constant) and e.left.value == cval \
                                    and _same_domain(e.comparators[0], cfg.stmt_of(e) or st):
                                found = True
                            if isinstance(e, ast.Call) and isinstance(e.func, ast.Attribute) and e.func.attr == "issubset" and len(e.args) == 1 \
                                    and isinstance(e.func.value, (ast.Set, ast.List, ast.Tuple)) and any(isinstance(x, ast.Constant) and x.value == cval for x in e.func.value.elts) \
                                    and _same_domain(e.args[0], cfg.stmt_of(e) or st):
                                found = True
                        if found:
                            chk.count("R05b.guarded_by_membership_test")
                            chk.ok("R05b", construct, detail + " [C in {v.attr for v in the same iterable}]")
                            continue
                # (iii) frozen table
                ent = REVIEWED.get(key)
                if ent is not None:
                    seen_keys.add(key)
                    cls, reason = ent[0], ent[1]
                    if cls == "UNREVIEWED":
                        chk.count("R05b.unreviewed")
                        unreviewed.append(f"{key[0]}: {short(n, 80)} — {reason}")
                        continue
                    if cls == "TEST":
                        wit = ent[2]
                        has = any(wit in norm(e) for e, pol in conds)
                        chk.require(
                            has, "R05b", n,
                            f"{kind} site was accepted because a dominating test ({wit}) established that it cannot raise; that test no longer dominates it",
                            detail=detail, construct=construct,
                        )
                        chk.count("R05b.reviewed")
                        continue
                    chk.count("R05b.reviewed")
                    chk.ok("R05b", construct, detail + f" [{cls}]")
                    continue
                exc = "StopIteration" if kind == "next" else "ValueError"
                chk.fail(
                    "R05b", n,
                    f"new unguarded {'next(it) without default' if kind == 'next' else 'seq.index(x)'}: raises {exc} inside rule/reflow code when nothing matches "
                    f"(no try, no default, no dominating membership test, not a reviewed site)",
                    detail=detail, construct=construct,
                )
    for u in unreviewed:
        chk.note("R05b unreviewed (existing site, not judged): " + u)
    stale = [k for k in REVIEWED if k not in seen_keys]
    if stale:
        chk.note(f"R05b: {len(stale)} reviewed-table entries matched no site (source moved on): " + "; ".join(f"{a} {b[:50]}" for a, b in stale[:6]))
    chk.count("R05b.table_entries_stale", len(stale))
    chk.floor("R05b.next_sites", 8)
    chk.floor("R05b.index_sites", 25)


# ---- R05c -------------------------------------------------------------------


def _handler_names(h: ast.ExceptHandler) -> List[str]:
    if h.type is None:
        return ["<bare>"]
    ts = list(h.type.elts) if isinstance(h.type, ast.Tuple) else [h.type]
    return sorted(norm(t) for t in ts)


def _r05c(chk) -> None:
    repo = chk.repo
    crawl = repo.fn(BASE, "BaseRule.crawl")
    evals = [c for c in ast.walk(crawl) if isinstance(c, ast.Call) and call_name(c) in ("self._eval", "self._eval_rust")]
    chk.count("R05c.eval_calls_in_crawl", len(evals))
    if not any(call_name(c) == "self._eval" for c in evals):
        raise AnalysisError("R05c: BaseRule.crawl no longer calls self._eval (anchor refactored)")
    for c in evals:
        what = call_name(c)
        # innermost try whose *body* holds the call
        child, p, tr = c, getattr(c, "_parent", None), None
        while p is not None and p is not crawl:
            if isinstance(p, ast.Try) and child in p.body:
                tr = p
                break
            child, p = p, getattr(p, "_parent", None)
        if not chk.require(tr is not None, "R05c", c, f"{what}() is called outside any try in BaseRule.crawl: an exception in a rule aborts linting of the file", detail=f"{what} inside try"):
            continue
        conv = None
        for h in tr.handlers:
            names = _handler_names(h)
            reraises = any(isinstance(x, ast.Raise) for x in ast.walk(h))
            if names == ["Exception"]:
                conv = h
                continue
            # the only handlers allowed besides the converting one: debugger quit / Ctrl-C, re-raised
            ok = names == ["KeyboardInterrupt", "bdb.BdbQuit"] and reraises
            chk.require(
                ok, "R05c", h,
                f"handler for {', '.join(names)} around {what}() is not one of the two expected (re-raise of bdb.BdbQuit/KeyboardInterrupt; conversion of Exception): "
                f"{'it lets these exceptions escape the rule crawl' if reraises else 'unexpected extra handler'}",
                detail=f"{what}: handler ({', '.join(names)})",
            )
        if not chk.require(
            conv is not None, "R05c", tr,
            f"the try around {what}() has no 'except Exception' handler (narrower or missing): other exceptions raised by a rule escape instead of becoming a violation",
            detail=f"{what}: except Exception present",
        ):
            continue
        # order: the re-raise handler must stand before the conversion (otherwise dead) — structural, cheap
        chk.require(
            not any(isinstance(x, ast.Raise) for x in ast.walk(conv)), "R05c", conv,
            f"the 'except Exception' handler around {what}() raises: the internal error is not converted into a violation",
            detail=f"{what}: converting handler does not raise",
        )
        logs = [x for x in ast.walk(conv) if isinstance(x, ast.Call) and last_attr(x) in ("critical", "error", "exception")]
        chk.require(bool(logs), "R05c", conv, f"the converting handler around {what}() no longer logs the exception", detail=f"{what}: handler logs")
        # appends SQLLintError(description='Unexpected exception: ...') to the violations that are returned
        good_append = False
        for x in ast.walk(conv):
            if isinstance(x, ast.Call) and last_attr(x) == "append" and x.args and isinstance(x.args[0], ast.Call) and call_name(x.args[0]) == "SQLLintError":
                d = kwarg(x.args[0], "description")
                text = ""
                if isinstance(d, ast.JoinedStr):
                    text = "".join(v.value for v in d.values if isinstance(v, ast.Constant) and isinstance(v.value, str))
                elif isinstance(d, ast.Constant) and isinstance(d.value, str):
                    text = d.value
                fx = kwarg(x.args[0], "fixes")
                if text.startswith("Unexpected exception") and (fx is None or (isinstance(fx, ast.List) and not fx.elts)):
                    lst = norm(x.func.value)
                    rets = [r for r in ast.walk(conv) if isinstance(r, ast.Return)]
                    if rets and all(isinstance(r.value, ast.Tuple) and r.value.elts and norm(r.value.elts[0]) == lst for r in rets):
                        good_append = True
        chk.require(
            good_append, "R05c", conv,
            f"the converting handler around {what}() does not append a fix-less SQLLintError whose description starts with 'Unexpected exception' to the returned violations",
            detail=f"{what}: appends 'Unexpected exception' SQLLintError and returns it",
        )
    # the hook called inside the handler is a no-op in the shipped code
    hook = repo.fn(BASE, "BaseRule._log_critical_errors")
    chk.require(
        not any(isinstance(x, (ast.Raise, ast.Call)) for x in ast.walk(hook) if x is not hook and not isinstance(x, ast.expr_context) and not _in_decorators(hook, x)),
        "R05c", hook, "BaseRule._log_critical_errors (called inside the converting handler) is no longer a no-op", detail="_log_critical_errors is a no-op",
    )
    chk.floor("R05c.eval_calls_in_crawl", 1)


def _in_decorators(func, x) -> bool:
    return any(x is d or any(x is y for y in ast.walk(d)) for d in func.decorator_list)


# ---------------------------------------------------------------------------
from ..selftest import Variant  # noqa: E402

ST12 = "src/sqlfluff/rules/structure/ST12.py"
LT08 = "src/sqlfluff/rules/layout/LT08.py"
LT07 = "src/sqlfluff/rules/layout/LT07.py"

VARIANTS = [
    Variant(
        "lt09-moved-span-keeps-its-metas", "src/sqlfluff/rules/layout/LT09.py",
        "                    moved_segments = [\n                        seg for seg in move_after_select_clause if not seg.is_meta\n                    ]\n",
        "                    moved_segments = list(move_after_select_clause)\n",
        "R05j", "Rule_LT09._eval_single_select_target_element", "the defect fixed in 12ae6b1: the Indent after DISTINCT is re-created, 'Invalid edit found'",
    ),
    Variant(
        "st07-edit-takes-all-children-of-the-using-bracket", "src/sqlfluff/rules/structure/ST07.py",
        "        ] + _generate_join_conditions(\n            table_a.ref_str,\n            table_b.ref_str,\n            using_cols,\n        )\n",
        "        ] + _generate_join_conditions(\n            table_a.ref_str,\n            table_b.ref_str,\n            using_cols,\n        ) + list(segment.segments[2:])\n",
        "R05j", "Rule_ST07._eval", "a slice of a node's children re-created: whatever metas lie there have no raw",
    ),
    Variant(
        "quiet-lt09-moved-span-filtered-with-filter-meta", "src/sqlfluff/rules/layout/LT09.py",
        "                    moved_segments = [\n                        seg for seg in move_after_select_clause if not seg.is_meta\n                    ]\n",
        "                    moved_segments = list(self.filter_meta(move_after_select_clause))\n",
        "QUIET", None, "the same filter through BaseRule.filter_meta",
    ),
    Variant(
        "am06-array-branch-drops-the-memory", "src/sqlfluff/rules/ambiguous/AM06.py",
        "            return LintResult(memory=context.memory)\n",
        "            return LintResult()\n",
        "R05i", "Rule_AM06._eval", "seeded C05-8 (every early return): the next GROUP BY / ORDER BY clause fails on a None memory", count=3,
    ),
    Variant(
        "st02-null-gate-looks-at-every-raw-segment", "src/sqlfluff/rules/structure/ST02.py",
        "                segment.raw_upper for segment in condition_expression.segments\n",
        "                segment.raw_upper for segment in condition_expression.raw_segments\n",
        "R05b", "Rule_ST02._eval", "seeded C05-5: `CASE WHEN a = (b IS NULL) THEN a ELSE c END` -> StopIteration",
    ),
    Variant(
        "comment-mover-builds-indent-unconditionally", "src/sqlfluff/utils/reflow/reindent.py",
        "        if current_indent:\n            new_segments += (WhitespaceSegment(current_indent),)\n",
        "        new_segments += (WhitespaceSegment(current_indent),)\n",
        "R05f", "_fix_long_line_with_comment", "seeded C05-3: an unindented over-long line with a trailing comment makes LT05 raise",
    ),
    Variant(
        "st04-restores-whitespace-that-was-not-there", "src/sqlfluff/rules/structure/ST04.py",
        "                if prior_whitespace:\n                    buff.append(WhitespaceSegment(prior_whitespace))\n",
        "                buff.append(WhitespaceSegment(prior_whitespace))\n",
        "R05f", "_rebuild_spacing", "the defect repaired by f5517ce: `THEN 2/*c*/ END`",
    ),
    Variant(
        "quiet-indent-guard-in-a-conditional-expression", "src/sqlfluff/utils/reflow/reindent.py",
        "        if current_indent:\n            new_segments += (WhitespaceSegment(current_indent),)\n",
        "        new_segments += (WhitespaceSegment(current_indent),) if current_indent else ()\n",
        "QUIET", None, "R05f: the same guard as a conditional expression",
    ),
    Variant(
        "quiet-indent-guard-through-a-boolean-local", "src/sqlfluff/utils/reflow/reindent.py",
        "        if current_indent:\n            new_segments += (WhitespaceSegment(current_indent),)\n",
        "        has_indent = bool(current_indent)\n        if has_indent:\n            new_segments += (WhitespaceSegment(current_indent),)\n",
        "QUIET", None, "R05f: the truthiness test held in a boolean local",
    ),
    Variant(
        "lookup-cte-parent-never-pops", "src/sqlfluff/utils/analysis/query.py",
        "self.parent.lookup_cte(name, pop)",
        "self.parent.lookup_cte(name, pop=False)",
        "R05d", "lookup_cte", "seeded C05-1: wildcard analysis recurses forever on a self-referencing CTE reached through another CTE",
    ),
    Variant(
        "quiet-lookup-cte-flag-by-keyword", "src/sqlfluff/utils/analysis/query.py",
        "self.parent.lookup_cte(name, pop)",
        "self.parent.lookup_cte(name, pop=pop)",
        "QUIET", None, "flag forwarded by keyword",
    ),
    Variant(
        "st12-inner-bound-off-by-one", ST12,
        "while j + 1 < n and _whitespace_only_between(terms[j], terms[j + 1]):",
        "while j < n and _whitespace_only_between(terms[j], terms[j + 1]):",
        "R05a", "terms[j + 1] in loop", "bound weakened by one: terms[j + 1] can run past the end",
    ),
    Variant(
        "st12-outer-bound-dropped", ST12,
        "        while i < n - 1:\n",
        "        while terms[i + 1] is not None:\n",
        "R05a", "terms[i + 1] in loop",
    ),
    Variant(
        "lt08-bound-after-the-subscript", LT08,
        "            while seg_idx < len(forward_slice) and (\n                forward_slice[seg_idx].is_type(\"comma\")\n                or not forward_slice[seg_idx].is_code\n            ):",
        "            while (\n                forward_slice[seg_idx].is_type(\"comma\")\n                or not forward_slice[seg_idx].is_code\n            ) and seg_idx < len(forward_slice):",
        "R05a", "forward_slice[seg_idx].is_code) and", "a 'fix' that tests the bound after the subscript was already evaluated",
    ),
    Variant(
        "lt07-backward-scan-by-index", LT07,
        "            for elem in context.segment.raw_segments[idx - 1 :: -1]:\n",
        "            while True:\n                idx -= 1\n                elem = context.segment.raw_segments[idx]\n",
        "R05a", "Rule_LT07._eval", "slice iteration replaced by an unbounded decreasing index",
    ),
    Variant(
        "helpers-count-instead-of-range", "src/sqlfluff/utils/reflow/helpers.py",
        "    for idx in range(seg_idx, -1, -1):\n",
        "    for idx in itertools.count(seg_idx, -1):\n",
        "R05a", "deduce_line_indent",
    ),
    Variant(
        "rf01-next-default-dropped", "src/sqlfluff/rules/references/RF01.py",
        'table_reference = next(seg.recursive_crawl("table_reference"), None)',
        'table_reference = next(seg.recursive_crawl("table_reference"))',
        "R05b", "RF01.py",
    ),
    Variant(
        "st03-wrong-exception-caught", "src/sqlfluff/rules/structure/ST03.py",
        "        except StopIteration:\n",
        "        except KeyError:\n",
        "R05b", "_is_data_modifying_cte",
    ),
    Variant(
        "st09-membership-guard-weakened", "src/sqlfluff/rules/structure/ST09.py",
        "            if first_table not in table_aliases or second_table not in table_aliases:\n",
        "            if not table_aliases:\n",
        "R05b", "Rule_ST09._eval",
    ),
    Variant(
        "lt09-find-replaced-by-index", "src/sqlfluff/rules/layout/LT09.py",
        "        first_select_target_idx = children.find(select_targets.get())\n",
        "        first_select_target_idx = children.index(select_targets.get())\n",
        "R05b", "Rule_LT09._get_indexes", "find() returns -1, index() raises: select clause without targets",
    ),
    Variant(
        "rf03-qualified-test-dropped", "src/sqlfluff/rules/references/RF03.py",
        '        if this_ref_type == "qualified" and is_struct_dialect:\n',
        "        if is_struct_dialect:\n",
        "R05b", "_check_references",
    ),
    Variant(
        "crawl-handler-narrowed", BASE,
        "            # cause the user to get no results\n            except Exception as e:",
        "            # cause the user to get no results\n            except ValueError as e:",
        "R05c", "BaseRule.crawl",
    ),
    Variant(
        "crawl-handler-reraises", BASE,
        "                exception_line, _ = context.segment.pos_marker.source_position()\n",
        "                exception_line, _ = context.segment.pos_marker.source_position()\n                raise\n",
        "R05c", "BaseRule.crawl",
    ),
    Variant(
        "crawl-new-reraise-class", BASE,
        "            except (bdb.BdbQuit, KeyboardInterrupt):  # pragma: no cover\n                raise\n            # Any exception at this point",
        "            except (bdb.BdbQuit, KeyboardInterrupt, IndexError):  # pragma: no cover\n                raise\n            # Any exception at this point",
        "R05c", "BaseRule.crawl",
    ),
    Variant(
        "crawl-eval-outside-try", BASE,
        "            try:\n                context.memory = memory\n                res = self._eval(context=context)\n",
        "            context.memory = memory\n            res = self._eval(context=context)\n            try:\n                pass\n",
        "R05c", "BaseRule.crawl",
    ),
    Variant(
        "crawl-violation-not-reported", BASE,
        "                self._log_critical_errors(e)\n                vs.append(\n                    SQLLintError(\n                        rule=self,\n                        segment=context.segment,",
        "                self._log_critical_errors(e)\n                fixes.append(\n                    SQLLintError(\n                        rule=self,\n                        segment=context.segment,",
        "R05c", "BaseRule.crawl",
    ),

    # ---- R05e ---------------------------------------------------------------
    Variant(
        "lt09-get-replaced-by-subscript", "src/sqlfluff/rules/layout/LT09.py",
        'from_segment = siblings_post.first(sp.is_type("from_clause")).first().get()',
        'from_segment = siblings_post.first(sp.is_type("from_clause")).first()[0]',
        "R05e", "LT09.py", ".get() returns None for a select without FROM, [0] raises",
    ),
    Variant(
        "am01-truthiness-guard-dropped", "src/sqlfluff/rules/ambiguous/AM01.py",
        "            if distinct:\n                return LintResult(anchor=distinct[0])\n",
        "            return LintResult(anchor=distinct[0])\n",
        "R05e", "Rule_AM01._eval", "GROUP BY without DISTINCT: distinct is empty",
    ),
    Variant(
        "lt10-early-return-dropped", "src/sqlfluff/rules/layout/LT10.py",
        "        if not select_clause_modifier_seg:\n            return None\n",
        "",
        "R05e", "Rule_LT10._eval", "every select clause without a modifier",
    ),
    Variant(
        "cv13-emptiness-test-became-none-test", "src/sqlfluff/rules/convention/CV13.py",
        "        if not statements:\n",
        "        if statements is None:\n",
        "R05e", "Rule_CV13._eval", "get_children returns an empty list, never None: file of comments only",
    ),
    Variant(
        "cv13-short-circuit-dropped", "src/sqlfluff/rules/convention/CV13.py",
        'if queries and queries[-1].is_type("select_statement"):',
        'if queries[-1].is_type("select_statement"):',
        "R05e", "Rule_CV13._final_select", "WITH ... INSERT: no select_statement / set_expression child",
    ),
    Variant(
        "respace-length-bound-off-by-one", "src/sqlfluff/utils/reflow/respace.py",
        "align_within = alignment_config[2] if len(alignment_config) > 2 else None",
        "align_within = alignment_config[2] if len(alignment_config) > 1 else None",
        "R05e", "_extract_alignment_config", "'align:alias_expression' has two parts",
    ),
    Variant(
        "tq04-short-circuit-swapped", "src/sqlfluff/rules/tsql/TQ04.py",
        'if segments_before_expression\n            and segments_before_expression[0].is_type("whitespace", "newline")',
        'if segments_before_expression[0].is_type("whitespace", "newline")\n            and segments_before_expression',
        "R05e", "Rule_TQ04._eval", "the emptiness test now runs after the subscript",
    ),
    Variant(
        "am05-wrong-keyword-index", "src/sqlfluff/rules/ambiguous/AM05.py",
        'and join_clause_keywords[0].raw_upper == "JOIN"',
        'and join_clause_keywords[1].raw_upper == "JOIN"',
        "R05e", "join_clause_keywords[1]", "a lone JOIN has a single keyword: one more unguarded use than was reviewed",
    ),
    Variant(
        "lt09-collection-shrunk-after-the-guard", "src/sqlfluff/rules/layout/LT09.py",
        "                if to_delete:\n                    # Clean up by moving leftover select_clause segments.\n",
        "                if to_delete:\n                    to_delete = to_delete[1:]\n                    # Clean up by moving leftover select_clause segments.\n",
        "R05e", "to_delete[-1]", "the guard was evaluated on the longer list",
    ),
    Variant(
        "reflow-block-built-from-the-buffer", "src/sqlfluff/utils/reflow/sequence.py",
        "                    segments=(seg,),\n",
        "                    segments=tuple(seg_buff),\n",
        "R05e", "ReflowBlock constructor", "blocks with no segment: every block.segments[0] in utils/reflow may raise",
    ),
    Variant(
        "quiet-al07-redundant-conditional-removed", "src/sqlfluff/rules/aliasing/AL07.py",
        "base_table[0] if base_table else None,",
        "base_table[0],",
        "QUIET", None, "'if not base_table: return None' still dominates",
    ),
    Variant(
        "quiet-lt10-guard-spelled-with-len", "src/sqlfluff/rules/layout/LT10.py",
        "        if not select_clause_modifier_seg:\n",
        "        if len(select_clause_modifier_seg) == 0:\n",
        "QUIET", None, "same guard, different spelling",
    ),
    Variant(
        "quiet-jj01-guard-split-in-two", "src/sqlfluff/rules/jinja/JJ01.py",
        '            if not stripped or stripped[0] != "{" or stripped[-1] != "}":\n                continue  # pragma: no cover\n',
        '            if not stripped:\n                continue\n            if stripped[0] != "{" or stripped[-1] != "}":\n                continue  # pragma: no cover\n',
        "QUIET", None, "short circuit turned into an early continue",
    ),
    Variant(
        "quiet-cv13-guard-through-a-temp", "src/sqlfluff/rules/convention/CV13.py",
        '        statements = context.segment.get_children("statement")\n        if not statements:\n',
        '        stmts = context.segment.get_children("statement")\n        statements = stmts\n        if not stmts:\n',
        "QUIET", None, "the tested name is a plain copy of the subscripted one",
    ),
    Variant(
        "quiet-respace-bound-flipped", "src/sqlfluff/utils/reflow/respace.py",
        "align_within = alignment_config[2] if len(alignment_config) > 2 else None",
        "align_within = alignment_config[2] if 3 <= len(alignment_config) else None",
        "QUIET", None, "same bound written the other way round",
    ),
    Variant(
        "quiet-am01-early-return-form", "src/sqlfluff/rules/ambiguous/AM01.py",
        "            if distinct:\n                return LintResult(anchor=distinct[0])\n",
        "            if not distinct:\n                return None\n            return LintResult(anchor=distinct[0])\n",
        "QUIET", None, "if/else <-> early return",
    ),
    Variant(
        "quiet-st08-conjunction-nested", "src/sqlfluff/rules/structure/ST08.py",
        "            if modifier and bracketed:\n                # If there's nothing else in the expression, remove the brackets.\n                if len(expression[0].segments) == 1:",
        "            if modifier and bracketed and expression:\n                # If there's nothing else in the expression, remove the brackets.\n                if len(expression[0].segments) == 1:",
        "QUIET", None, "an additional (redundant) conjunct",
    ),
    Variant(
        "quiet-st06-membership-as-two-comparisons", "src/sqlfluff/rules/structure/ST06.py",
        "        if len(segment.segments) not in (1, 2):\n",
        "        if len(segment.segments) < 1 or len(segment.segments) > 2:\n",
        "QUIET", None, "same length test spelled with comparisons",
    ),
    # ---- R05g ---------------------------------------------------------------
    Variant(
        "lt12-empty-file-guard-dropped", "src/sqlfluff/rules/layout/LT12.py",
        "        if not segment:\n            # NOTE: Edge case. If the file is totally empty, we won't find a final\n            # segment. In this case return without error.\n            return None\n",
        "",
        "R05g", "Rule_LT12._eval", "the guard in front of `assert _trailing_segment` removed: an empty file",
    ),
    Variant(
        "al08-assert-on-an-optional-child", "src/sqlfluff/rules/aliasing/AL08.py",
        '                column_reference = clause_element.get_child("column_reference")\n',
        '                column_reference = clause_element.get_child("column_reference")\n                assert column_reference\n',
        "R05g", "assert column_reference", "a select target that is an expression has no column_reference child",
    ),
    Variant(
        "am05-crawler-widened", "src/sqlfluff/rules/ambiguous/AM05.py",
        'crawl_behaviour = SegmentSeekerCrawler({"join_clause"})',
        'crawl_behaviour = SegmentSeekerCrawler({"join_clause", "from_expression"})',
        "R05g", "Rule_AM05._eval", "the crawler now also yields segments for which the type assert fails",
    ),
    Variant(
        "am03-helper-called-with-the-parent", "src/sqlfluff/rules/ambiguous/AM03.py",
        "orderby_spec = self._get_orderby_info(context.segment)",
        "orderby_spec = self._get_orderby_info(context.parent_stack[-1])",
        "R05g", "_get_orderby_info", "the helper's type assert relied on its only caller",
    ),
    Variant(
        "al05-call-site-guard-dropped", "src/sqlfluff/rules/aliasing/AL05.py",
        "                and alias.alias_expression\n                and self._followed_by_qualify(context, alias)\n",
        "                and self._followed_by_qualify(context, alias)\n",
        "R05g", "_followed_by_qualify", "redshift, table without alias: `assert alias.alias_expression` in the helper",
    ),
    Variant(
        "query-crawl-sources-one-more-type", "src/sqlfluff/utils/analysis/query.py",
        '            "values_clause",\n            recurse_into=False,\n            allow_self=False,\n        ):\n            # Crawl efficiently',
        '            "values_clause",\n            "merge_statement",\n            recurse_into=False,\n            allow_self=False,\n        ):\n            # Crawl efficiently',
        "R05g", "Query.crawl_sources", "the else-branch assert no longer covers everything the crawl yields",
    ),
    Variant(
        "seeker-crawler-yields-every-segment", "src/sqlfluff/core/rules/crawlers.py",
        "        if self.is_self_match(context.segment):\n            self_match = True\n            yield context\n",
        "        if self.is_self_match(context.segment):\n            self_match = True\n        yield context\n",
        "R05g", "SegmentSeekerCrawler.crawl", "the guarantee behind 34 discharged type asserts",
    ),
    Variant(
        "quiet-lt12-guard-in-a-boolean-local", "src/sqlfluff/rules/layout/LT12.py",
        "        if not segment:\n            # NOTE: Edge case.",
        "        nothing_found = not segment\n        if nothing_found:\n            # NOTE: Edge case.",
        "QUIET", None, "R05g: the guard held in a boolean local",
    ),
    Variant(
        "quiet-st04-assert-operand-through-a-local", "src/sqlfluff/rules/structure/ST04.py",
        "        assert case1_last_when\n",
        "        last_when = case1_last_when\n        assert last_when\n",
        "QUIET", None, "R05g: the assert's operand read through a local",
    ),
    Variant(
        "quiet-lt12-assert-spelled-is-not-none", "src/sqlfluff/rules/layout/LT12.py",
        "        assert _trailing_segment\n",
        "        assert _trailing_segment is not None\n",
        "QUIET", None, "R05g: `assert x` <-> `assert x is not None` for an Optional[BaseSegment]",
    ),
    Variant(
        "quiet-select-info-assert-spelled-is-not-none", "src/sqlfluff/utils/analysis/select.py",
        '    assert _select_clause, "Select statement found without select clause."\n',
        '    assert _select_clause is not None, "Select statement found without select clause."\n',
        "QUIET", None, "R05g: repeated get_child(..) tested before, `is not None` spelling",
    ),
    Variant(
        "quiet-am08-segment-through-two-locals", "src/sqlfluff/rules/ambiguous/AM08.py",
        "        join_clause = context.segment\n",
        "        seg = context.segment\n        join_clause = seg\n",
        "QUIET", None, "R05g: crawler guarantee through plain copies",
    ),
    Variant(
        "quiet-am05-crawler-types-spelled-with-set", "src/sqlfluff/rules/ambiguous/AM05.py",
        'crawl_behaviour = SegmentSeekerCrawler({"join_clause"})',
        'crawl_behaviour = SegmentSeekerCrawler(set(("join_clause",)))',
        "QUIET", None, "R05g: same crawler types, different spelling",
    ),
    Variant(
        "quiet-elements-after-guard-as-early-raise", "src/sqlfluff/utils/reflow/elements.py",
        "                else:\n                    assert after  # mypy hint\n",
        "                else:\n                    if after is None:\n                        raise NotImplementedError\n                    assert after  # mypy hint\n",
        "QUIET", None, "R05g: an additional (redundant) guard",
    ),
    Variant(
        "quiet-cv01-condition-through-a-flag", "src/sqlfluff/rules/convention/CV01.py",
        '        if raw_operator_list not in [["<", ">"], ["!", "="]]:\n            return None\n',
        '        accepted = raw_operator_list in [["<", ">"], ["!", "="]]\n        if not accepted:\n            return None\n',
        "QUIET", None, "the test is held in a local flag",
    ),
    # ---- R05h ---------------------------------------------------------------
    Variant(
        "lt09-leftover-guard-tests-none-instead-of-emptiness", "src/sqlfluff/rules/layout/LT09.py",
        "                    if moved_segments or add_newline:\n",
        "                    if moved_segments is not None or add_newline:\n",
        "R05h", "Rule_LT09._eval_single_select_target_element", "select() returns an empty Segments, never None: a create_after fix with nothing to create",
    ),
    Variant(
        "cv12-rest-of-where-guard-tests-none", "src/sqlfluff/rules/convention/CV12.py",
        "        if where_clause_fix_segments:\n",
        "        if where_clause_fix_segments is not None:\n",
        "R05h", "Rule_CV12._eval_gen", "every condition moved to ON clauses: the WHERE expression is replaced with nothing (lint run aborted in get_fix_slices)",
    ),
    Variant(
        "reindent-visual-space-appended-conditionally", "src/sqlfluff/utils/reflow/reindent.py",
        '                    replacement_segs.append(WhitespaceSegment(" "))\n',
        '                    if len(elem.segments) > 1:\n                        replacement_segs.append(WhitespaceSegment(" "))\n',
        "R05h", "_convert_newlines_to_spaces", "the unconditional append that made the replacement non-empty is conditional now: a point that is a lone newline",
    ),
    Variant(
        "al07-schema-part-skipped", "src/sqlfluff/rules/aliasing/AL07.py",
        "                    for part in identifier_parts:\n",
        "                    for part in identifier_parts[1:]:\n",
        "R05h", "Rule_AL07._lint_aliases_in_join", "an unqualified table name has one part: the loop that fills the edit may not run",
    ),
    Variant(
        "lt10-modifier-move-starts-from-an-empty-list", "src/sqlfluff/rules/layout/LT10.py",
        "        edit_segments = [\n            WhitespaceSegment(),\n            select_clause_modifier,\n        ]\n        if not trailing_newline_segments:\n",
        "        edit_segments = []\n        if not trailing_newline_segments:\n",
        "R05h", "Rule_LT10._eval", "the display became an empty list that only a conditional append fills",
    ),
    Variant(
        "quiet-cv12-guard-in-a-boolean-local", "src/sqlfluff/rules/convention/CV12.py",
        "        if where_clause_fix_segments:\n",
        "        something_left = bool(where_clause_fix_segments)\n        if something_left:\n",
        "QUIET", None, "R05h: the truthiness test held in a boolean local",
    ),
    Variant(
        "quiet-cv12-star-display-as-list-call", "src/sqlfluff/rules/convention/CV12.py",
        "edit_segments=[*where_clause_fix_segments]",
        "edit_segments=list(where_clause_fix_segments)",
        "QUIET", None, "R05h: [*x] <-> list(x)",
    ),
    Variant(
        "quiet-lt09-list-call-as-star-display", "src/sqlfluff/rules/layout/LT09.py",
        "+ moved_segments,",
        "+ [*moved_segments],",
        "QUIET", None, "R05h: list(x) <-> [*x] under the disjunction",
    ),
    Variant(
        "quiet-reindent-append-spelled-as-augmented-add", "src/sqlfluff/utils/reflow/reindent.py",
        '                    replacement_segs.append(WhitespaceSegment(" "))\n',
        '                    replacement_segs += [WhitespaceSegment(" ")]\n',
        "QUIET", None, "R05h: append <-> += [x]",
    ),
    Variant(
        "quiet-lt09-disjuncts-swapped-emptiness-by-len", "src/sqlfluff/rules/layout/LT09.py",
        "                    if moved_segments or add_newline:\n",
        "                    if add_newline or len(moved_segments) > 0:\n",
        "QUIET", None, "R05h: disjuncts swapped, emptiness spelled with len",
    ),
    # R05j re-spellings: behaviour-preserving refactors: must stay quiet
    Variant(
        "quiet-r05j-st04-span-local-renamed", "src/sqlfluff/rules/structure/ST04.py",
        "case1_to_delete", "case1_gap",
        "QUIET", None, "R05j: the local holding the WHEN..ELSE gap renamed (the reviewed span is matched on what it is built from)", count=6,
    ),
    Variant(
        "quiet-r05j-st04-span-bounds-through-locals", "src/sqlfluff/rules/structure/ST04.py",
        "        case1_comments_to_restore = case1_to_delete.select(\n            stop_seg=case1_to_delete.get(after_last_comment_index)\n        )\n",
        "        restore_stop = case1_to_delete.get(after_last_comment_index)\n        gap = case1_to_delete\n        case1_comments_to_restore = gap.select(stop_seg=restore_stop)\n",
        "QUIET", None, "R05j: the stop segment and the receiver of the reviewed span each through one more local",
    ),
    Variant(
        "quiet-r05j-lt09-filter-as-explicit-loop", "src/sqlfluff/rules/layout/LT09.py",
        '                    moved_segments = [\n                        seg for seg in move_after_select_clause if not seg.is_meta\n                    ]\n',
        "                    moved_segments = []\n                    for moved in move_after_select_clause:\n                        if moved.is_meta:\n                            continue\n                        moved_segments.append(moved)\n",
        "QUIET", None, "R05j: the meta filter as a loop with an early continue",
    ),
    Variant(
        "quiet-r05j-lt09-filter-as-select-predicate", "src/sqlfluff/rules/layout/LT09.py",
        '                    moved_segments = [\n                        seg for seg in move_after_select_clause if not seg.is_meta\n                    ]\n',
        "                    moved_segments = list(\n                        move_after_select_clause.select(select_if=sp.not_(sp.is_meta()))\n                    )\n",
        "QUIET", None, "R05j: the meta filter as a Segments.select predicate",
    ),
    Variant(
        "quiet-r05j-cv07-lifted-lists-as-displays", "src/sqlfluff/rules/convention/CV07.py",
        "                    fixes.append(LintFix.create_before(parent, list(leading)))\n",
        "                    lifted_before = [*leading]\n                    fixes.append(LintFix.create_before(anchor_segment=parent, edit_segments=lifted_before))\n",
        "QUIET", None, "R05j: list(x) spelled [*x], through a local, arguments by keyword",
    ),
    # breaking twins in the same spellings
    Variant(
        "r05j-twin-st04-span-starts-at-the-first-when", "src/sqlfluff/rules/structure/ST04.py",
        "        case1_to_delete = case1_children.select(\n            start_seg=case1_last_when, stop_seg=case1_else_clause_seg\n        )\n",
        "        case1_to_delete = case1_children.select(\n            start_seg=case1_first_case, stop_seg=case1_else_clause_seg\n        )\n",
        "R05j", "Rule_ST04._eval", "the re-created span now starts at CASE: the Indent before the WHEN clauses lies inside it",
    ),
    Variant(
        "r05j-twin-lt09-explicit-loop-without-the-filter", "src/sqlfluff/rules/layout/LT09.py",
        '                    moved_segments = [\n                        seg for seg in move_after_select_clause if not seg.is_meta\n                    ]\n',
        "                    moved_segments = []\n                    for moved in move_after_select_clause:\n                        moved_segments.append(moved)\n",
        "R05j", "Rule_LT09._eval_single_select_target_element", "loop spelling, filter dropped",
    ),
    Variant(
        "r05j-twin-lt09-select-predicate-admits-metas", "src/sqlfluff/rules/layout/LT09.py",
        '                    moved_segments = [\n                        seg for seg in move_after_select_clause if not seg.is_meta\n                    ]\n',
        "                    moved_segments = list(\n                        move_after_select_clause.select(select_if=sp.or_(sp.is_meta(), sp.is_code()))\n                    )\n",
        "R05j", "Rule_LT09._eval_single_select_target_element", "select spelling, predicate lets metas through",
    ),
]
