"""C05 — no rule fails internally (decided clause: three *shapes*).

R05a  unbounded index scan.  A ``while`` loop (or ``for .. in count()``) in
      ``rules/`` or ``utils/`` that subscripts a sequence with an index variable
      which the loop itself advances, without a bound of that index against the
      sequence's length that is known at the subscript.

      Accepted idioms (each is a *fact known at the subscript*: a conjunct of the
      loop/if test standing to the left of the subscript (short circuit), or a
      branch condition that dominates the subscript's statement, provided the
      index is not advanced between the test and the subscript):

        ``i < len(s)``  ``i + k < len(s)``  ``i < n - 1`` with ``n = len(s)``
        ``len(s) > i``  ``not (i >= len(s))`` / ``if i >= len(s): break``
        (for decreasing indices) ``i >= 0``  ``i > 0``  ``0 <= i``
        the subscript standing inside ``try: .. except IndexError/LookupError/Exception``
        slices (never raise); ``for i in range(len(s))`` / ``enumerate`` are not
        index scans in the sense of this rule and are not examined.

      When both the bound and the subscript are linear in the index
      (``i + a < len(s) + b`` against ``s[i + k]``) the offsets are compared, so a
      bound that is off by one is reported too.

R05b  ``next(it)`` without default and ``seq.index(x)`` in ``rules/`` and ``utils/``.
      A site is accepted when (i) it stands in a ``try`` whose handler catches
      StopIteration / ValueError (or Exception) and does not raise, (ii) for
      ``index``: a dominating ``x in seq`` test, or (iii) it is one of the sites
      read once and frozen in ``REVIEWED`` below (keyed by function + normalised
      call text, with the reason).  TEST-class entries name the dominating
      condition they rely on; if it is gone the entry no longer applies.  A site
      in none of the three groups is a new unreviewed way to raise inside a rule.

R05c  ``BaseRule.crawl`` converts anything ``_eval`` (and the whole-rule native
      ``_eval_rust``) raises into an "Unexpected exception" ``SQLLintError``: the call
      stands in a ``try`` whose handlers are exactly ``(bdb.BdbQuit,
      KeyboardInterrupt) -> raise`` and ``Exception -> log, append SQLLintError,
      return`` (no ``raise`` in the converting handler).
"""

from __future__ import annotations

import ast
from typing import Dict, List, Optional, Tuple

from ..cfg import Branch, atoms, cfg_of, origins
from ..index import (
    AnalysisError,
    FuncNode,
    call_name,
    calls_in,
    enclosing_function,
    kwarg,
    last_attr,
    norm,
    qualname,
    short,
    walk_local,
)
from ..report import construct_of

SCOPES = ("src/sqlfluff/rules/", "src/sqlfluff/utils/")
BASE = "src/sqlfluff/core/rules/base.py"

# ---------------------------------------------------------------------------
# R05b frozen classification (read once, 2026-09; see module docstring)
#   key: ("<path below src/sqlfluff/>::<function qualname>", "<normalised call>")
#   value: (CLASS, reason[, witness])
#     CONSTRUCTION  the element was taken from that very collection / the iterable
#                   is non-empty by the way it was just built
#     TEST          a dominating test establishes membership (witness = text that
#                   must occur in a condition known at the site)
#     GRAMMAR       the parse-tree shape guaranteed by the dialect grammar
#     CONTRACT      documented precondition of a helper API (caller's duty)
#     UNREVIEWED    read, but no argument found that it cannot raise; listed in the
#                   evidence, neither accepted nor reported
# ---------------------------------------------------------------------------
R = "rules/"
U = "utils/"
REVIEWED: Dict[Tuple[str, str], tuple] = {
    # ---- next() without default -------------------------------------------
    (R + "ambiguous/AM04.py::Rule_AM04._handle_alias",
     "next(query.crawl_sources(alias_info.from_expression_element, True))"):
        ("UNREVIEWED", "crawl_sources() yields nothing if the from_expression_element has neither a table reference, a nested select nor a table_expression child; no dialect grammar found that produces that, none proven impossible"),
    (R + "ambiguous/AM07.py::Rule_AM07.__resolve_selectable_wildcard",
     "next(root_query.crawl_sources(alias_info.from_expression_element))"):
        ("UNREVIEWED", "same generator as AM04: relies on every from_expression_element having a table_expression child"),
    (R + "capitalisation/CP01.py::Rule_CP01._init_capitalisation_policy",
     "next((k for k in self.config_keywords if k.endswith('capitalisation_policy')))"):
        ("CONSTRUCTION", "config_keywords is a class constant; every CP rule class lists a *capitalisation_policy keyword"),
    (R + "convention/CV12.py::Rule_CV12._eval_gen",
     "next(join_clause.recursive_crawl('from_expression_element', no_recursive_seg_type=['select_statement']))"):
        ("UNREVIEWED", "relies on every join_clause of every dialect containing a from_expression_element outside nested selects"),
    (R + "convention/CV12.py::Rule_CV12._get_subexpression_chunks",
     "next(stop_segments_iter)"):
        ("CONSTRUCTION", "iterator over the list display [None, *..., None] built two lines above: never empty"),
    (R + "references/RF03.py::_check_references",
     "next(iter_raw_references(ref, dialect_name))"):
        ("TEST", "qualification(ref) == 'qualified' means len(list(iter_raw_references(ref))) > 1", "this_ref_type == 'qualified'"),
    (R + "structure/ST02.py::Rule_ST02._eval",
     "next((index for index, segment in enumerate(condition_expression.segments) if segment.raw_upper == 'IS'))"):
        ("TEST", "'IS' is in the set of raw_upper of the same condition_expression.segments", "issubset(condition_expression_segments_raw)"),
    (R + "structure/ST05.py::Rule_ST05._lint_query",
     "next(anchor.recursive_crawl('keyword', 'symbol'))"):
        ("GRAMMAR", "anchor is the first child of the from_expression_element of a nested select: a bracketed/table_expression (contains bracket symbols / SELECT keyword) or a keyword itself (recursive_crawl allows self)"),
    (R + "structure/ST09.py::Rule_ST09._eval",
     "next(get_from_expression_element_alias(children.recursive_crawl('from_expression_element')[0], context.dialect.name))"):
        ("UNREVIEWED", "the generator yields nothing when an alias_expression has no identifier child; not excluded for every dialect"),
    (R + "tsql/TQ01.py::Rule_TQ01._eval",
     "next((s for s in context.segment.segments if s.type == 'object_reference'))"):
        ("GRAMMAR", "tsql CreateProcedureStatementSegment has a mandatory ObjectReferenceSegment; the rule returns early for other dialects"),
    (U + "reflow/rebreak.py::first_create_anchor",
     "next((elem_buff[i].segments for i in loc_range if elem_buff[i].segments))"):
        ("UNREVIEWED", "StopIteration is caught but re-raised as NotImplementedError ('should always find something'); still an internal error if it happens"),
    # ---- seq.index(x) -----------------------------------------------------
    (R + "structure/ST05.py::_CTEBuilder.ensure_space_after_from",
     "from_clause_children.index(from_segment[0])"):
        ("CONSTRUCTION", "missing_space_after_from is only True when from_segment = from_clause_children.first(...) is non-empty"),
    (R + "convention/CV06.py::Rule_CV06._handle_preceding_inline_comments",
     "before_segment.index(same_line_comment)"):
        ("CONSTRUCTION", "same_line_comment was selected from before_segment by the generator above and is truthy here"),
    (R + "tsql/TQ03.py::Rule_TQ03._eval", "segments.index(context.segment)"):
        ("CONSTRUCTION", "crawler invariant: context.segment is a child of context.parent_stack[-1]"),
    (R + "oracle/OR01.py::Rule_OR01._eval", "segments.index(context.segment)"):
        ("CONSTRUCTION", "crawler invariant: context.segment is a child of context.parent_stack[-1]"),
    (R + "tsql/TQ04.py::Rule_TQ04._eval", "alias_expression_segments.index(alias_identifier)"):
        ("CONSTRUCTION", "alias_identifier was selected from alias_expression.segments and tested non-empty"),
    (R + "tsql/TQ04.py::Rule_TQ04._eval", "alias_expression_segments.index(alias_operator)"):
        ("CONSTRUCTION", "alias_operator = alias_expression.get_child(...) is a direct child, tested not None"),
    (R + "tsql/TQ04.py::Rule_TQ04._eval", "select_clause_segments.index(alias_expression)"):
        ("CONSTRUCTION", "crawler invariant: context.segment is a child of context.parent_stack[-1]"),
    (R + "tsql/TQ04.py::Rule_TQ04._eval", "select_clause_segments.index(expression_segment)"):
        ("CONSTRUCTION", "expression_segment was selected from select_clause_element.segments and tested non-empty"),
    (R + "layout/LT07.py::Rule_LT07._eval", "context.segment.raw_segments.index(seg)"):
        ("CONSTRUCTION", "seg is the closing bracket of a CTE found below context.segment by children()/recursive walk"),
    (R + "layout/LT03.py::Rule_LT03._check_trail_lead_shortcut", "parent.segments.index(segment)"):
        ("CONTRACT", "documented precondition 'parent must contain segment'; the only caller passes context.segment, context.parent_stack[-1]"),
    (R + "layout/LT05.py::Rule_LT05._eval", "raw_segments.index(cast(RawSegment, res.anchor))"):
        ("CONSTRUCTION", "anchors produced by break_long_lines are raw segments of the sequence built from context.segment"),
    (R + "layout/LT09.py::Rule_LT09._eval_multiple_select_target_elements", "segment.segments.index(modifier)"):
        ("CONSTRUCTION", "modifier = segment.get_child(...) is a direct child and truthy"),
    (R + "layout/LT09.py::Rule_LT09._eval_single_select_target_element", "select_children.index(modifier.get())"):
        ("CONSTRUCTION", "modifier = select_children.first(...) is non-empty at both uses (tested in the same condition / enclosing if)"),
    (R + "layout/LT09.py::Rule_LT09._eval_single_select_target_element", "select_stmt.segments.index(select_clause.get())"):
        ("CONSTRUCTION", "crawler invariant: the select_clause is a child of parent_stack[-1]"),
    (U + "reflow/helpers.py::deduce_line_indent", "root_segment.raw_segments.index(raw_segment)"):
        ("CONTRACT", "callers in rebreak pass raw segments of elements built from the same root"),
    (U + "reflow/reindent.py::_fix_long_line_with_comment", "elements.index(line_buffer[-1])"):
        ("CONTRACT", "line_buffer is a slice of elements (lint_line_length)"),
    (U + "reflow/rebreak.py::identify_rebreak_spans", "elem.depth_info.stack_hashes.index(key)"):
        ("CONSTRUCTION", "key iterates the element's own line_position_configs / keyword configs, which are keyed by its stack hashes"),
    (U + "reflow/rebreak.py::identify_keyword_rebreak_spans", "elem.depth_info.stack_hashes.index(key)"):
        ("CONSTRUCTION", "key iterates the element's own keyword_line_position_configs, keyed by its stack hashes"),
    (U + "reflow/sequence.py::ReflowSequence.from_around_target", "all_raws.index(target_raws[0])"):
        ("CONTRACT", "target_segment must be part of root_segment (documented); raw segments of a descendant are raw segments of the root"),
    (U + "reflow/sequence.py::ReflowSequence.from_around_target", "all_raws.index(target_raws[-1])"):
        ("CONTRACT", "target_segment must be part of root_segment (documented)"),
    (U + "reflow/sequence.py::ReflowSequence.replace", "current_raws.index(target_raws[0])"):
        ("CONTRACT", "target must be part of the sequence (API precondition)"),
    (U + "reflow/sequence.py::ReflowSequence.replace", "current_raws.index(target_raws[-1])"):
        ("CONTRACT", "target must be part of the sequence (API precondition)"),
    (U + "reflow/respace.py::determine_constraints", "prev_block.depth_info.stack_hashes.index(common[-1])"):
        ("CONSTRUCTION", "common = prev.common_with(next) is a prefix of prev's stack_hashes"),
    (U + "reflow/respace.py::handle_respace__inline_with_space", "segment_buffer.index(last_whitespace)"):
        ("CONTRACT", "both come from process_spacing(): last_whitespace is kept in the returned buffer"),
    (U + "reflow/elements.py::ReflowPoint.indent_to", "self.segments.index(indent_seg)"):
        ("CONSTRUCTION", "indent_seg = self._get_indent_segment() iterates self.segments"),
    (U + "reflow/elements.py::ReflowPoint.indent_to", "self.segments.index(ws_seg)"):
        ("CONSTRUCTION", "ws_seg was picked from self.segments in the loop above"),
    (U + "reflow/elements.py::ReflowPoint.respace_point", "self.segments.index(last_whitespace)"):
        ("CONSTRUCTION", "process_spacing(list(self.segments)) returns one of the segments it was given"),
    (U + "functional/segments.py::Segments.select", "self.index(start_seg)"):
        ("CONTRACT", "start_seg must be a member (API precondition)"),
    (U + "functional/segments.py::Segments.select", "self.index(stop_seg)"):
        ("CONTRACT", "stop_seg must be a member (API precondition)"),
    (U + "functional/raw_file_slices.py::RawFileSlices.select", "self.index(start_slice)"):
        ("CONTRACT", "start_slice must be a member (API precondition)"),
    (U + "functional/raw_file_slices.py::RawFileSlices.select", "self.index(stop_slice)"):
        ("CONTRACT", "stop_slice must be a member (API precondition)"),
    (U + "functional/templated_file_slices.py::TemplatedFileSlices.select", "self.index(start_slice)"):
        ("CONTRACT", "start_slice must be a member (API precondition)"),
    (U + "functional/templated_file_slices.py::TemplatedFileSlices.select", "self.index(stop_slice)"):
        ("CONTRACT", "stop_slice must be a member (API precondition)"),
}


# ---------------------------------------------------------------------------
# small helpers
# ---------------------------------------------------------------------------

def _names(e: ast.AST) -> set:
    return {n.id for n in ast.walk(e) if isinstance(n, ast.Name)}


def _is_advance(st: ast.stmt) -> List[Tuple[str, str]]:
    """(name, 'up'|'down') for statements that move an integer index."""
    out = []
    if isinstance(st, ast.AugAssign) and isinstance(st.target, ast.Name):
        if isinstance(st.op, ast.Add):
            out.append((st.target.id, "up"))
        elif isinstance(st.op, ast.Sub):
            out.append((st.target.id, "down"))
    elif isinstance(st, ast.Assign) and len(st.targets) == 1 and isinstance(st.targets[0], ast.Name):
        v = st.targets[0].id
        if isinstance(st.value, ast.BinOp) and isinstance(st.value.op, (ast.Add, ast.Sub)) and v in _names(st.value):
            down = isinstance(st.value.op, ast.Sub) and isinstance(st.value.left, ast.Name) and st.value.left.id == v
            out.append((v, "down" if down else "up"))
    return out


def _assigns_to(st: ast.AST, v: str) -> bool:
    if isinstance(st, ast.AugAssign):
        return isinstance(st.target, ast.Name) and st.target.id == v
    if isinstance(st, ast.Assign):
        return any(isinstance(t, ast.Name) and t.id == v for tg in st.targets for t in ast.walk(tg))
    if isinstance(st, (ast.For, ast.AsyncFor)):
        return any(isinstance(t, ast.Name) and t.id == v for t in ast.walk(st.target))
    return False


class Lin:
    """v*cv + c + L*cl  (v = the index variable, L = len(seq))."""

    def __init__(self, cv=0, c=0, cl=0):
        self.cv, self.c, self.cl = cv, c, cl

    def add(self, o, sign=1):
        return Lin(self.cv + sign * o.cv, self.c + sign * o.c, self.cl + sign * o.cl)


def _lin(e: ast.AST, v: str, seq: str, cfg, at, depth=0) -> Optional[Lin]:
    if isinstance(e, ast.Constant) and isinstance(e.value, int) and not isinstance(e.value, bool):
        return Lin(c=e.value)
    if isinstance(e, ast.UnaryOp) and isinstance(e.op, ast.USub):
        r = _lin(e.operand, v, seq, cfg, at, depth)
        return Lin(-r.cv, -r.c, -r.cl) if r else None
    if isinstance(e, ast.Name):
        if e.id == v:
            return Lin(cv=1)
        if depth > 2:
            return None
        # a plain local that holds len(seq) (+/- const) on every path
        os_ = origins(cfg, e, at)
        res = None
        for o in os_:
            if o.kind != "expr" or o.path:
                return None
            r = _lin(o.expr, v, seq, cfg, o.stmt, depth + 1)
            if r is None or r.cv:
                return None
            if res is not None and (res.c, res.cl) != (r.c, r.cl):
                return None
            res = r
        return res
    if isinstance(e, ast.Call) and call_name(e) == "len" and len(e.args) == 1 and norm(e.args[0]) == seq:
        return Lin(cl=1)
    if isinstance(e, ast.BinOp) and isinstance(e.op, (ast.Add, ast.Sub)):
        l = _lin(e.left, v, seq, cfg, at, depth)
        r = _lin(e.right, v, seq, cfg, at, depth)
        if l is None or r is None:
            return None
        return l.add(r, 1 if isinstance(e.op, ast.Add) else -1)
    return None


_FLIP = {ast.Lt: ast.GtE, ast.LtE: ast.Gt, ast.Gt: ast.LtE, ast.GtE: ast.Lt}


def _cmp(fact) -> Optional[Tuple[ast.AST, str, ast.AST]]:
    """Normalise (expr, truth) to (small, '<'|'<=', big)."""
    e, truth = fact
    if not (isinstance(e, ast.Compare) and len(e.ops) == 1):
        return None
    op = type(e.ops[0])
    if op not in _FLIP:
        return None
    if not truth:
        op = _FLIP[op]
    l, r = e.left, e.comparators[0]
    if op is ast.Lt:
        return l, "<", r
    if op is ast.LtE:
        return l, "<=", r
    if op is ast.Gt:
        return r, "<", l
    return r, "<=", l


def _bound_verdict(fact, v, seq, k, direction, cfg, at) -> Optional[str]:
    """'ok' / 'off:<n>' when the fact bounds the index in the needed direction."""
    c = _cmp(fact)
    if c is None:
        return None
    small, op, big = c
    strict = 1 if op == "<" else 0
    ls, lb = _lin(small, v, seq, cfg, at), _lin(big, v, seq, cfg, at)
    if direction == "up":
        # v + a (<|<=) L + b
        if ls is not None and lb is not None and ls.cv - lb.cv == 1 and lb.cl - ls.cl == 1:
            if k is None:
                return "ok"
            # v <= L + (lb.c - ls.c) - strict ; need v + k <= L - 1
            slack = (lb.c - ls.c) - strict + k + 1
            return "ok" if slack <= 0 else f"off:{slack}"
        # non-linear but of the right form: index on the small side, len(seq) on the big side
        if v in _names(small) and any(
            isinstance(n, ast.Call) and call_name(n) == "len" and n.args and norm(n.args[0]) == seq for n in ast.walk(big)
        ):
            return "ok"
        return None
    # direction down:  c (<|<=) v + a   i.e. index on the big side, constants only on the small side
    if ls is not None and lb is not None and lb.cv - ls.cv == 1 and lb.cl == ls.cl:
        if k is None:
            return "ok"
        # v >= ls.c - lb.c + strict ; need v + k >= 0
        low = ls.c - lb.c + strict + k
        return "ok" if low >= 0 else f"off:{-low}"
    return None


def _left_facts(test: ast.AST, site: ast.AST, pol=True) -> list:
    """Facts established by short-circuit evaluation before ``site`` inside ``test``."""

    def contains(x):
        return any(n is site for n in ast.walk(x))

    if isinstance(test, ast.UnaryOp) and isinstance(test.op, ast.Not):
        return _left_facts(test.operand, site, not pol)
    if isinstance(test, ast.BoolOp):
        is_and = isinstance(test.op, ast.And)
        out = []
        for val in test.values:
            if contains(val):
                return out + _left_facts(val, site, pol)
            # reaching a later operand of `and` means the earlier ones were true,
            # of `or` that they were false
            out += atoms(val, True if is_and else False)
        return out
    return []


def _in_try_catching(node: ast.AST, func: ast.AST, names: set) -> Optional[ast.ExceptHandler]:
    """Innermost handler (same function) that catches one of ``names`` for ``node``."""
    child, p = node, getattr(node, "_parent", None)
    while p is not None and p is not func:
        if isinstance(p, ast.Try) and child in p.body:
            for h in p.handlers:
                if h.type is None:
                    return h
                ts = list(h.type.elts) if isinstance(h.type, ast.Tuple) else [h.type]
                if any(norm(t).split(".")[-1] in names for t in ts):
                    return h
        if isinstance(p, FuncNode + (ast.Lambda, ast.ClassDef)):
            return None
        child, p = p, getattr(p, "_parent", None)
    return None


def _stale(cfg, guard: Branch, site_stmt, advs) -> bool:
    """Can the index be advanced after ``guard`` was evaluated and before the site?"""
    for a in advs:
        if a is site_stmt:
            continue
        if a not in cfg.succ:
            continue
        if cfg.paths_avoiding(guard, a, lambda n: n is guard) and cfg.paths_avoiding(a, site_stmt, lambda n: n is guard):
            return True
    return False


def _rel(m) -> str:
    return m.relpath[len("src/sqlfluff/"):]


# ---------------------------------------------------------------------------


def run(chk) -> None:
    chk.rule("R05a", "no while/count() loop in rules/ or utils/ subscripts a sequence with an index it advances unless a length (or >= 0) bound of that index is known at the subscript")
    chk.rule("R05b", "every next(it) without default and seq.index(x) in rules/ and utils/ is guarded (try / membership test) or is a site reviewed and frozen in the table")
    chk.rule("R05c", "BaseRule.crawl runs _eval/_eval_rust inside try: (BdbQuit, KeyboardInterrupt) re-raised, Exception logged and converted to an 'Unexpected exception' SQLLintError without re-raising")
    chk.rule("R05d", "a function in rules/ or utils/ that calls a function of its own name (recursion, or delegation to a parent/child object) forwards each of its boolean flag parameters unchanged, or the site is a reviewed table entry")
    _r05a(chk)
    _r05b(chk)
    _r05c(chk)
    _r05d(chk)


# ---- R05d -------------------------------------------------------------------

# (relative path, qualified function, flag) -> reason why the flag is deliberately not forwarded as is
R05D_REVIEWED: Dict[Tuple[str, str, str], str] = {}


def _r05d(chk) -> None:
    """Recursive / delegating calls carry the protocol of the walk in their flags: the
    flag that makes a look-up consume what it finds is what bounds the recursion of the
    wildcard analysis (AM04/AM07 follow CTE definitions until ``lookup_cte(pop=True)`` has
    removed them), a crawl's ``recurse_into`` decides what a rule sees.  A same-name call
    that pins such a flag to a constant, or drops it, changes the walk for every nested
    level only -- which no single-level test input shows."""
    repo = chk.repo
    n = 0
    for scope in SCOPES:
        for m in repo.iter_modules(scope):
            for q, f in m.functions():
                all_params = [a for a in f.args.args + f.args.kwonlyargs]
                pos_params = [a.arg for a in f.args.args]
                flags = [a.arg for a in all_params if a.annotation is not None and norm(a.annotation) == "bool"]
                if not flags:
                    continue
                for c in calls_in(f):
                    name = c.func.attr if isinstance(c.func, ast.Attribute) else (c.func.id if isinstance(c.func, ast.Name) else None)
                    if name != f.name:
                        continue
                    if isinstance(c.func, ast.Attribute) and isinstance(c.func.value, ast.Call) and call_name(c.func.value) == "super":
                        continue  # super().m(..): extension of a different method body, not a step of the walk
                    if any(k.arg is None for k in c.keywords) or any(isinstance(a, ast.Starred) for a in c.args):
                        # **kwargs / *args: cannot bind by shape; only positional-after-star is affected
                        pass
                    # bind arguments to this function's own parameter list (same signature: it is the same method)
                    bound: Dict[str, ast.expr] = {}
                    skip = 1 if pos_params and pos_params[0] in ("self", "cls") and isinstance(c.func, ast.Attribute) else 0
                    starred = False
                    for i, a in enumerate(c.args):
                        if isinstance(a, ast.Starred):
                            starred = True
                            continue
                        if not starred and i + skip < len(pos_params):
                            bound[pos_params[i + skip]] = a
                    for k in c.keywords:
                        if k.arg:
                            bound[k.arg] = k.value
                    for fl in flags:
                        n += 1
                        key = (m.relpath, q, fl)
                        v = bound.get(fl)
                        ok = isinstance(v, ast.Name) and v.id == fl
                        if not ok and key in R05D_REVIEWED:
                            chk.ok("R05d", f"{m.relpath}::{q}", f"flag {fl}: reviewed: {R05D_REVIEWED[key]}")
                            continue
                        how = "does not pass it on (the callee's default applies)" if v is None else f"passes `{norm(v)}` instead"
                        chk.require(
                            ok, "R05d", c,
                            f"{q} calls {name}() again but {how} for its flag `{fl}`: nested levels of the walk run under a different protocol than the first "
                            "(e.g. a look-up that no longer consumes what it finds never terminates on self-referencing input)",
                            detail=f"{q}: flag {fl} forwarded unchanged",
                        )
    chk.count("R05d.flag_forwarding_sites", n)
    chk.floor("R05d.flag_forwarding_sites", 4)


# ---- R05a -------------------------------------------------------------------


def _is_count_loop(n: ast.AST) -> bool:
    return (
        isinstance(n, ast.For)
        and isinstance(n.iter, ast.Call)
        and last_attr(n.iter) == "count"
        and isinstance(n.target, ast.Name)
    )


def _r05a(chk) -> None:
    repo = chk.repo
    _SAMPLED.clear()
    for scope in SCOPES:
        for m in repo.iter_modules(scope):
            for q, f in m.functions():
                loops = [n for n in walk_local(f) if isinstance(n, ast.While) or _is_count_loop(n)]
                if not loops:
                    continue
                chk.count("R05a.loops_examined", len(loops))
                cfg = cfg_of(f)
                # innermost loop first, so a site is attributed to the closest loop that advances its index
                loops.sort(key=lambda n: -n.lineno)
                done = set()
                for loop in loops:
                    body_nodes = [x for st in loop.body for x in [st] + list(walk_local(st))]
                    dirs: Dict[str, set] = {}
                    for x in body_nodes:
                        if isinstance(x, ast.stmt):
                            for v, d in _is_advance(x):
                                dirs.setdefault(v, set()).add(d)
                    if _is_count_loop(loop):
                        step = loop.iter.args[1] if len(loop.iter.args) > 1 else None
                        neg = isinstance(step, ast.UnaryOp) and isinstance(step.op, ast.USub)
                        dirs.setdefault(loop.target.id, set()).add("down" if neg else "up")
                    if not dirs:
                        continue
                    where_ = ([loop.test] if isinstance(loop, ast.While) else []) + body_nodes
                    sites = []
                    cand = {}
                    for top in where_:
                        for s in [top] + list(walk_local(top)):
                            cand[id(s)] = s
                    for s in sorted(cand.values(), key=lambda x: (getattr(x, "lineno", 0), getattr(x, "col_offset", 0))):
                        if (
                            isinstance(s, ast.Subscript)
                            and isinstance(s.ctx, ast.Load)
                            and not isinstance(s.slice, ast.Slice)
                            and not (isinstance(s.slice, ast.Tuple))
                            and id(s) not in done
                        ):
                            vs = _names(s.slice) & set(dirs)
                            if vs and not (_names(s.value) & vs):
                                sites.append((s, sorted(vs)[0]))
                    if not sites:
                        continue
                    chk.count("R05a.index_advancing_loops")
                    advs_of = {
                        v: [x for x in body_nodes if isinstance(x, ast.stmt) and _assigns_to(x, v) and not isinstance(x, (ast.For, ast.AsyncFor))]
                        for v in dirs
                    }
                    for s, v in sites:
                        done.add(id(s))
                        chk.count("R05a.subscript_sites")
                        _check_site(chk, cfg, f, loop, s, v, dirs[v], advs_of[v])
    chk.floor("R05a.loops_examined", 5)
    chk.floor("R05a.index_advancing_loops", 2)


_SAMPLED: set = set()


def _check_site(chk, cfg, f, loop, s: ast.Subscript, v: str, directions: set, advs) -> None:
    seq = norm(s.value)
    st = cfg.stmt_of(s)
    head = short(loop.test, 90) if isinstance(loop, ast.While) else f"for {norm(loop.target)} in {short(loop.iter, 60)}"
    detail = f"{short(s, 60)} in loop [{head}]"
    if _in_try_catching(s, f, {"IndexError", "LookupError", "Exception", "BaseException", "KeyError"}):
        chk.ok("R05a", construct_of(s), detail + " (inside try/except IndexError)")
        return
    # facts known at the subscript
    facts = []
    # (a) short-circuit conjuncts of the enclosing test expression
    holder = st
    test = getattr(holder, "test", None) if isinstance(holder, (ast.While, ast.If)) else None
    if test is not None and any(n is s for n in ast.walk(test)):
        facts += [(fa, None) for fa in _left_facts(test, s)]
    else:
        # boolean expression inside an ordinary statement (x = a and s[i]) / IfExp
        p = s
        while p is not None and p is not st:
            par = getattr(p, "_parent", None)
            if isinstance(par, ast.BoolOp):
                facts += [(fa, None) for fa in _left_facts(par, s)]
            if isinstance(par, ast.IfExp) and p is not par.test:
                facts += [(fa, None) for fa in atoms(par.test, p is par.body)]
            p = par
    # (b) dominating branch conditions, unless the index moved in between
    if st is not None:
        for g in cfg.guards(st):
            if isinstance(g.stmt, (ast.If, ast.While)):
                if _stale(cfg, g, st, advs):
                    continue
                facts += [(fa, g) for fa in atoms(g.stmt.test, g.polarity)]
    lin_idx = _lin(s.slice, v, seq, cfg, st)
    k = lin_idx.c if (lin_idx is not None and lin_idx.cv == 1 and lin_idx.cl == 0) else None
    problems = []
    for d in sorted(directions):
        verdicts = [x for x in (_bound_verdict(fa, v, seq, k, d, cfg, st) for fa, _ in facts) if x]
        if "ok" in verdicts:
            continue
        if verdicts:
            problems.append(f"the only {'length' if d == 'up' else 'lower'} bound known here is off by {verdicts[0].split(':')[1]}")
        elif d == "up":
            problems.append(f"no condition known here bounds '{v}' by len({seq})")
        else:
            problems.append(f"'{v}' is decreased but no condition known here keeps it >= 0")
    chk.require(
        not problems, "R05a", s,
        f"index scan without bound: {short(s, 60)} is evaluated with '{v}' advanced by the loop; " + "; ".join(problems)
        + " — on a tree where the scanned-for element is missing this raises IndexError (reported as 'Unexpected exception')",
        detail=detail,
    )
    if detail in _SAMPLED:
        return
    _SAMPLED.add(detail)
    chk.sample({"rule": "R05a", "site": f"{s._module.relpath}:{s.lineno}", "subscript": short(s, 60), "index": v,
                "facts": [short(fa[0], 50) + ("" if fa[1] else " =F") for fa, _ in facts][:6], "verdict": "unbounded" if problems else "bounded"})


# ---- R05b -------------------------------------------------------------------


def _r05b(chk) -> None:
    repo = chk.repo
    seen_keys = set()
    unreviewed = []
    for scope in SCOPES:
        for m in repo.iter_modules(scope):
            shadow = "next" in m.defs
            for n in ast.walk(m.tree):
                if not isinstance(n, ast.Call):
                    continue
                kind = None
                if isinstance(n.func, ast.Name) and n.func.id == "next" and not shadow:
                    if len(n.args) >= 2 or kwarg(n, "default") is not None:
                        chk.count("R05b.next_with_default")
                        continue
                    if len(n.args) == 1:
                        kind = "next"
                elif isinstance(n.func, ast.Attribute) and n.func.attr == "index" and len(n.args) >= 1 and not n.keywords:
                    kind = "index"
                if kind is None:
                    continue
                chk.count(f"R05b.{kind}_sites")
                f = enclosing_function(n)
                while f is not None and isinstance(f, ast.Lambda):
                    f = enclosing_function(f)
                fq = qualname(f) if f is not None else "<module>"
                key = (f"{_rel(m)}::{fq}", norm(n))
                construct = f"{m.relpath}::{fq}"
                detail = short(n, 150)
                # (i) try/except
                catch = {"next": {"StopIteration", "Exception", "BaseException"}, "index": {"ValueError", "Exception", "BaseException"}}[kind]
                h = _in_try_catching(n, f, catch) if f is not None else None
                if h is not None and not any(isinstance(x, ast.Raise) for x in ast.walk(h)):
                    chk.count("R05b.guarded_by_try")
                    chk.ok("R05b", construct, detail + " [try]")
                    continue
                conds = []
                if f is not None and isinstance(f, FuncNode):
                    cfg = cfg_of(f)
                    st = cfg.stmt_of(n)
                    conds = cfg.conditions(st) if st is not None else []
                    # conditions of an enclosing conditional expression / boolean operator
                    p = n
                    while p is not None and p is not st:
                        par = getattr(p, "_parent", None)
                        if isinstance(par, ast.IfExp) and p is not par.test:
                            conds = conds + atoms(par.test, p is par.body)
                        if isinstance(par, ast.BoolOp):
                            conds = conds + _left_facts(par, n)
                        p = par
                # (ii) membership test
                if kind == "index":
                    x, recv = norm(n.args[0]), norm(n.func.value)
                    member = False
                    for e, pol in conds:
                        if isinstance(e, ast.Compare) and len(e.ops) == 1 and norm(e.left) == x and norm(e.comparators[0]) == recv:
                            if (isinstance(e.ops[0], ast.In) and pol) or (isinstance(e.ops[0], ast.NotIn) and not pol):
                                member = True
                    if member:
                        chk.count("R05b.guarded_by_membership_test")
                        chk.ok("R05b", construct, detail + " [x in seq]")
                        continue
                # (iii) frozen table
                ent = REVIEWED.get(key)
                if ent is not None:
                    seen_keys.add(key)
                    cls, reason = ent[0], ent[1]
                    if cls == "UNREVIEWED":
                        chk.count("R05b.unreviewed")
                        unreviewed.append(f"{key[0]}: {short(n, 80)} — {reason}")
                        continue
                    if cls == "TEST":
                        wit = ent[2]
                        has = any(wit in norm(e) for e, pol in conds)
                        chk.require(
                            has, "R05b", n,
                            f"{kind} site was accepted because a dominating test ({wit}) established that it cannot raise; that test no longer dominates it",
                            detail=detail, construct=construct,
                        )
                        chk.count("R05b.reviewed")
                        continue
                    chk.count("R05b.reviewed")
                    chk.ok("R05b", construct, detail + f" [{cls}]")
                    continue
                exc = "StopIteration" if kind == "next" else "ValueError"
                chk.fail(
                    "R05b", n,
                    f"new unguarded {'next(it) without default' if kind == 'next' else 'seq.index(x)'}: raises {exc} inside rule/reflow code when nothing matches "
                    f"(no try, no default, no dominating membership test, not a reviewed site)",
                    detail=detail, construct=construct,
                )
    for u in unreviewed:
        chk.note("R05b unreviewed (existing site, not judged): " + u)
    stale = [k for k in REVIEWED if k not in seen_keys]
    if stale:
        chk.note(f"R05b: {len(stale)} reviewed-table entries matched no site (source moved on): " + "; ".join(f"{a} {b[:50]}" for a, b in stale[:6]))
    chk.count("R05b.table_entries_stale", len(stale))
    chk.floor("R05b.next_sites", 8)
    chk.floor("R05b.index_sites", 25)


# ---- R05c -------------------------------------------------------------------


def _handler_names(h: ast.ExceptHandler) -> List[str]:
    if h.type is None:
        return ["<bare>"]
    ts = list(h.type.elts) if isinstance(h.type, ast.Tuple) else [h.type]
    return sorted(norm(t) for t in ts)


def _r05c(chk) -> None:
    repo = chk.repo
    crawl = repo.fn(BASE, "BaseRule.crawl")
    evals = [c for c in ast.walk(crawl) if isinstance(c, ast.Call) and call_name(c) in ("self._eval", "self._eval_rust")]
    chk.count("R05c.eval_calls_in_crawl", len(evals))
    if not any(call_name(c) == "self._eval" for c in evals):
        raise AnalysisError("R05c: BaseRule.crawl no longer calls self._eval (anchor refactored)")
    for c in evals:
        what = call_name(c)
        # innermost try whose *body* holds the call
        child, p, tr = c, getattr(c, "_parent", None), None
        while p is not None and p is not crawl:
            if isinstance(p, ast.Try) and child in p.body:
                tr = p
                break
            child, p = p, getattr(p, "_parent", None)
        if not chk.require(tr is not None, "R05c", c, f"{what}() is called outside any try in BaseRule.crawl: an exception in a rule aborts linting of the file", detail=f"{what} inside try"):
            continue
        conv = None
        for h in tr.handlers:
            names = _handler_names(h)
            reraises = any(isinstance(x, ast.Raise) for x in ast.walk(h))
            if names == ["Exception"]:
                conv = h
                continue
            # the only handlers allowed besides the converting one: debugger quit / Ctrl-C, re-raised
            ok = names == ["KeyboardInterrupt", "bdb.BdbQuit"] and reraises
            chk.require(
                ok, "R05c", h,
                f"handler for {', '.join(names)} around {what}() is not one of the two expected (re-raise of bdb.BdbQuit/KeyboardInterrupt; conversion of Exception): "
                f"{'it lets these exceptions escape the rule crawl' if reraises else 'unexpected extra handler'}",
                detail=f"{what}: handler ({', '.join(names)})",
            )
        if not chk.require(
            conv is not None, "R05c", tr,
            f"the try around {what}() has no 'except Exception' handler (narrower or missing): other exceptions raised by a rule escape instead of becoming a violation",
            detail=f"{what}: except Exception present",
        ):
            continue
        # order: the re-raise handler must stand before the conversion (otherwise dead) — structural, cheap
        chk.require(
            not any(isinstance(x, ast.Raise) for x in ast.walk(conv)), "R05c", conv,
            f"the 'except Exception' handler around {what}() raises: the internal error is not converted into a violation",
            detail=f"{what}: converting handler does not raise",
        )
        logs = [x for x in ast.walk(conv) if isinstance(x, ast.Call) and last_attr(x) in ("critical", "error", "exception")]
        chk.require(bool(logs), "R05c", conv, f"the converting handler around {what}() no longer logs the exception", detail=f"{what}: handler logs")
        # appends SQLLintError(description='Unexpected exception: ...') to the violations that are returned
        good_append = False
        for x in ast.walk(conv):
            if isinstance(x, ast.Call) and last_attr(x) == "append" and x.args and isinstance(x.args[0], ast.Call) and call_name(x.args[0]) == "SQLLintError":
                d = kwarg(x.args[0], "description")
                text = ""
                if isinstance(d, ast.JoinedStr):
                    text = "".join(v.value for v in d.values if isinstance(v, ast.Constant) and isinstance(v.value, str))
                elif isinstance(d, ast.Constant) and isinstance(d.value, str):
                    text = d.value
                fx = kwarg(x.args[0], "fixes")
                if text.startswith("Unexpected exception") and (fx is None or (isinstance(fx, ast.List) and not fx.elts)):
                    lst = norm(x.func.value)
                    rets = [r for r in ast.walk(conv) if isinstance(r, ast.Return)]
                    if rets and all(isinstance(r.value, ast.Tuple) and r.value.elts and norm(r.value.elts[0]) == lst for r in rets):
                        good_append = True
        chk.require(
            good_append, "R05c", conv,
            f"the converting handler around {what}() does not append a fix-less SQLLintError whose description starts with 'Unexpected exception' to the returned violations",
            detail=f"{what}: appends 'Unexpected exception' SQLLintError and returns it",
        )
    # the hook called inside the handler is a no-op in the shipped code
    hook = repo.fn(BASE, "BaseRule._log_critical_errors")
    chk.require(
        not any(isinstance(x, (ast.Raise, ast.Call)) for x in ast.walk(hook) if x is not hook and not isinstance(x, ast.expr_context) and not _in_decorators(hook, x)),
        "R05c", hook, "BaseRule._log_critical_errors (called inside the converting handler) is no longer a no-op", detail="_log_critical_errors is a no-op",
    )
    chk.floor("R05c.eval_calls_in_crawl", 1)


def _in_decorators(func, x) -> bool:
    return any(x is d or any(x is y for y in ast.walk(d)) for d in func.decorator_list)


# ---------------------------------------------------------------------------
from ..selftest import Variant  # noqa: E402

ST12 = "src/sqlfluff/rules/structure/ST12.py"
LT08 = "src/sqlfluff/rules/layout/LT08.py"
LT07 = "src/sqlfluff/rules/layout/LT07.py"

VARIANTS = [
    Variant(
        "lookup-cte-parent-never-pops", "src/sqlfluff/utils/analysis/query.py",
        "self.parent.lookup_cte(name, pop)",
        "self.parent.lookup_cte(name, pop=False)",
        "R05d", "lookup_cte", "seeded C05-1: wildcard analysis recurses forever on a self-referencing CTE reached through another CTE",
    ),
    Variant(
        "quiet-lookup-cte-flag-by-keyword", "src/sqlfluff/utils/analysis/query.py",
        "self.parent.lookup_cte(name, pop)",
        "self.parent.lookup_cte(name, pop=pop)",
        "QUIET", None, "flag forwarded by keyword",
    ),
    Variant(
        "st12-inner-bound-off-by-one", ST12,
        "while j + 1 < n and _whitespace_only_between(terms[j], terms[j + 1]):",
        "while j < n and _whitespace_only_between(terms[j], terms[j + 1]):",
        "R05a", "terms[j + 1] in loop", "bound weakened by one: terms[j + 1] can run past the end",
    ),
    Variant(
        "st12-outer-bound-dropped", ST12,
        "        while i < n - 1:\n",
        "        while terms[i + 1] is not None:\n",
        "R05a", "terms[i + 1] in loop",
    ),
    Variant(
        "lt08-bound-after-the-subscript", LT08,
        "            while seg_idx < len(forward_slice) and (\n                forward_slice[seg_idx].is_type(\"comma\")\n                or not forward_slice[seg_idx].is_code\n            ):",
        "            while (\n                forward_slice[seg_idx].is_type(\"comma\")\n                or not forward_slice[seg_idx].is_code\n            ) and seg_idx < len(forward_slice):",
        "R05a", "forward_slice[seg_idx].is_code) and", "a 'fix' that tests the bound after the subscript was already evaluated",
    ),
    Variant(
        "lt07-backward-scan-by-index", LT07,
        "            for elem in context.segment.raw_segments[idx - 1 :: -1]:\n",
        "            while True:\n                idx -= 1\n                elem = context.segment.raw_segments[idx]\n",
        "R05a", "Rule_LT07._eval", "slice iteration replaced by an unbounded decreasing index",
    ),
    Variant(
        "helpers-count-instead-of-range", "src/sqlfluff/utils/reflow/helpers.py",
        "    for idx in range(seg_idx, -1, -1):\n",
        "    for idx in itertools.count(seg_idx, -1):\n",
        "R05a", "deduce_line_indent",
    ),
    Variant(
        "rf01-next-default-dropped", "src/sqlfluff/rules/references/RF01.py",
        'table_reference = next(seg.recursive_crawl("table_reference"), None)',
        'table_reference = next(seg.recursive_crawl("table_reference"))',
        "R05b", "RF01.py",
    ),
    Variant(
        "st03-wrong-exception-caught", "src/sqlfluff/rules/structure/ST03.py",
        "        except StopIteration:\n",
        "        except KeyError:\n",
        "R05b", "_is_data_modifying_cte",
    ),
    Variant(
        "st09-membership-guard-weakened", "src/sqlfluff/rules/structure/ST09.py",
        "            if first_table not in table_aliases or second_table not in table_aliases:\n",
        "            if not table_aliases:\n",
        "R05b", "Rule_ST09._eval",
    ),
    Variant(
        "lt09-find-replaced-by-index", "src/sqlfluff/rules/layout/LT09.py",
        "        first_select_target_idx = children.find(select_targets.get())\n",
        "        first_select_target_idx = children.index(select_targets.get())\n",
        "R05b", "Rule_LT09._get_indexes", "find() returns -1, index() raises: select clause without targets",
    ),
    Variant(
        "rf03-qualified-test-dropped", "src/sqlfluff/rules/references/RF03.py",
        '        if this_ref_type == "qualified" and is_struct_dialect:\n',
        "        if is_struct_dialect:\n",
        "R05b", "_check_references",
    ),
    Variant(
        "crawl-handler-narrowed", BASE,
        "            # cause the user to get no results\n            except Exception as e:",
        "            # cause the user to get no results\n            except ValueError as e:",
        "R05c", "BaseRule.crawl",
    ),
    Variant(
        "crawl-handler-reraises", BASE,
        "                exception_line, _ = context.segment.pos_marker.source_position()\n",
        "                exception_line, _ = context.segment.pos_marker.source_position()\n                raise\n",
        "R05c", "BaseRule.crawl",
    ),
    Variant(
        "crawl-new-reraise-class", BASE,
        "            except (bdb.BdbQuit, KeyboardInterrupt):  # pragma: no cover\n                raise\n            # Any exception at this point",
        "            except (bdb.BdbQuit, KeyboardInterrupt, IndexError):  # pragma: no cover\n                raise\n            # Any exception at this point",
        "R05c", "BaseRule.crawl",
    ),
    Variant(
        "crawl-eval-outside-try", BASE,
        "            try:\n                context.memory = memory\n                res = self._eval(context=context)\n",
        "            context.memory = memory\n            res = self._eval(context=context)\n            try:\n                pass\n",
        "R05c", "BaseRule.crawl",
    ),
    Variant(
        "crawl-violation-not-reported", BASE,
        "                self._log_critical_errors(e)\n                vs.append(\n                    SQLLintError(\n                        rule=self,\n                        segment=context.segment,",
        "                self._log_critical_errors(e)\n                fixes.append(\n                    SQLLintError(\n                        rule=self,\n                        segment=context.segment,",
        "R05c", "BaseRule.crawl",
    ),
]
