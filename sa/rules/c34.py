"""C34 — oversized files are skipped, never parsed or modified: the skip protocol.

R34a  every ``process`` / ``process_with_variants`` defined on a class in the
      MRO closure of ``RawTemplater`` (core + plugins) carries
      ``@large_file_check`` as its *outermost* decorator; the decorator's wrapper
      compares ``len(<in_str>)`` with the ``large_file_skip_char_limit`` config
      value, raises ``SQLFluffSkipFile`` under that comparison and only then
      calls the wrapped function; the decorator returns that wrapper.
R34b  file loader: the comparison of ``os.path.getsize(<fname>)`` (or
      ``os.stat(<fname>).st_size``) with the ``large_file_skip_byte_limit``
      value lies on every path to the ``open(<fname>)``/``read()`` except the
      "limit is falsy" branch, and its true branch cannot reach the read
      (it raises ``SQLFluffSkipFile``).
R34c  handler accounting.  (i) every ``except SQLFluffSkipFile`` handler and
      every ``isinstance(.., SQLFluffSkipFile)`` arm in the tree (minus the
      reviewed NOT_LINT_PATH table) either increments — unconditionally, at
      the top level of its body — a counter attribute that ``lint_paths``
      copies to ``LintingResult.files_skipped``, or re-raises, or ends the run
      itself with ``sys.exit(<failing status>)``.  (ii) no skip
      can escape the drivers ``Linter.lint_paths`` / ``lint_string_wrapped`` /
      ``parse_path`` (may-raise fixpoint over
      src/sqlfluff/core/linter with the loader's raise and the templater entry
      calls as sources; a call is protected by an enclosing ``try`` whose
      handler catches SQLFluffSkipFile or one of its bases).  (iii) a *broad*
      handler in core/linter that absorbs a possible skip must forward the
      exception object as a value (``return C(e, ..)`` where ``C.__init__``
      stores it in the attribute a dispatching isinstance-arm reads), count,
      or re-raise — unless the raising call sits in an arm that is statically
      dead (``isinstance(x, K)`` where ``x`` comes from a generator of the same
      class hierarchy that never yields a ``K``).  The transfer
      ``result.files_skipped = runner.<counter>`` dominates the return.
R34d  every function under src/sqlfluff/cli that calls ``lint_paths``: each
      ``sys.exit`` reachable from that call is (a) a constant failing code,
      (b) under the command's ``--nofail`` flag parameter, or (c) preceded on
      every path by ``if <result>.files_skipped and <cfg>.get("large_file_skip_fail")``
      whose body raises the exit variable to at least EXIT_FAIL.
R34e  after a skip nothing is produced for the file: from the body of a skip
      handler/arm no ``yield`` / ``return <value>`` of the same function is
      reachable without first returning to the head of the enclosing file loop
      (returning an accumulator object created before the skip is not a product).

Spellings read as the same facts (QUIET sweep): ``a > b`` / ``b < a`` / ``not (a <= b)``; the size, the
limit test, the skip counter, ``files_skipped`` and the config value through locals; the comparison nested
under ``if limit:`` or the no-config case as an early return (the "nothing to compare with" edges test the
config parameter the limit is read from, or the limit itself); ``n > 0`` / ``n != 0`` for ``n``; an
isinstance-arm whose subject was read into a local.
"""

from __future__ import annotations

import ast
from typing import Dict, List, Optional, Set, Tuple

from ..cfg import Branch, atoms, cfg_of, origins
from ..counts import zero_test
from ..idioms import atoms_at, branch_atoms, expanded
from ..index import AnalysisError, FuncNode, call_name, calls_in, const, enclosing_class, enclosing_function, kwarg, last_attr, module_of, norm, short, walk_local
from ..iohelpers import LINTER, RUNNER, ancestors, branch_node, decorator_names, fq, fq_expr, in_block, param_of, qual, returns_of
from ..report import construct_of

TEMPL_BASE = "src/sqlfluff/core/templaters/base.py"
ERRORS = "src/sqlfluff/core/errors.py"
RESULT = "src/sqlfluff/core/linter/linting_result.py"
ENTRY_METHODS = ("process", "process_with_variants")
SKIP = "SQLFluffSkipFile"
BUILTIN_BASES = {"RuntimeError": "Exception", "Exception": "BaseException", "BaseException": None}

# drivers out of which no skip may escape (ii)
DRIVERS = ("Linter.lint_paths", "Linter.lint_string_wrapped", "Linter.parse_path")

# handlers of SQLFluffSkipFile that are not on the lint/fix path: construct -> reason
NOT_LINT_PATH = {
    "src/sqlfluff/core/linter/linter.py::Linter.parse_path": "`sqlfluff parse`: yields ParsedString per file, no LintingResult / files_skipped exists; R34e still applies",
}


def _is_skip(e: Optional[ast.AST]) -> bool:
    if e is None:
        return False
    n = fq_expr(e) if not isinstance(e, ast.Call) else fq(e)
    return n == SKIP or n.endswith("." + SKIP)


def _type_names(t: Optional[ast.AST]) -> List[ast.AST]:
    if t is None:
        return []
    return list(t.elts) if isinstance(t, ast.Tuple) else [t]


def run(chk) -> None:
    repo = chk.repo
    chk.rule("R34a", "every templater entry point (process / process_with_variants on RawTemplater's hierarchy, core + plugins) is wrapped by large_file_check, which tests the character limit before calling it")
    chk.rule("R34b", "the byte-limit comparison and its raise precede the read of the same file in the loader")
    chk.rule("R34c", "a SQLFluffSkipFile raised on the lint path is counted into LintingResult.files_skipped exactly where it is caught, or propagates to someone who counts it; none escapes lint_paths; none is swallowed")
    chk.rule("R34d", "each CLI command that lints paths consults files_skipped and large_file_skip_fail on every path to its exit")
    chk.rule("R34e", "after a skip no result is yielded/returned for that file")
    bases = _skip_bases(repo)
    _r34a(chk, repo)
    _r34b(chk, repo)
    sites = _skip_dispatch_sites(repo, bases)
    _r34c(chk, repo, sites, bases)
    _r34d(chk, repo)
    _r34e(chk, repo, sites)


def _skip_bases(repo) -> Set[str]:
    c = repo.cls(ERRORS, SKIP)
    out: Set[str] = set()
    for b in c.bases:
        n = norm(b)
        while n:
            out.add(n)
            n = BUILTIN_BASES.get(n)
    if not out:
        raise AnalysisError("SQLFluffSkipFile has no recognised base class")
    return out


# ---------------------------------------------------------------------------
# R34a
# ---------------------------------------------------------------------------


def _r34a(chk, repo) -> None:
    deco = repo.fn(TEMPL_BASE, "large_file_check")
    deco_fq = "sqlfluff.core.templaters.base.large_file_check"
    classes = repo.subclasses_of("RawTemplater")
    n_cls = 0
    for m, c in classes:
        meths = [f for f in c.body if isinstance(f, FuncNode) and f.name in ENTRY_METHODS]
        if meths:
            n_cls += 1
        for f in meths:
            chk.count("R34a.entry_methods")
            names = decorator_names(f)
            res = [(n if "." in n and n.startswith("sqlfluff.") else (f"{m.dotted}.{n}" if n in m.defs else n)) for n in names]
            has = deco_fq in res
            outer = bool(res) and res[0] == deco_fq
            chk.sample({"rule": "R34a", "site": f"{m.relpath}:{f.lineno}", "method": f"{c.name}.{f.name}", "decorators": names})
            if not chk.require(has, "R34a", f, f"{c.name}.{f.name} is not decorated with large_file_check: files over large_file_skip_char_limit reach this templater", detail="decorated with large_file_check"):
                continue
            chk.require(outer, "R34a", f, f"large_file_check is not the outermost decorator of {c.name}.{f.name}: an outer wrapper runs (and may convert the skip) before the size check",
                        detail="large_file_check outermost")
    chk.count("R34a.templater_classes_with_entry", n_cls)
    chk.floor("R34a.entry_methods", 8)
    chk.floor("R34a.templater_classes_with_entry", 6)
    # the decorator itself
    inner = [f for f in deco.body if isinstance(f, FuncNode)]
    rets = [r for r in returns_of(deco) if r.value is not None]
    wrapper = None
    for r in rets:
        if isinstance(r.value, ast.Name):
            for f in inner:
                if f.name == r.value.id:
                    wrapper = f
    if not chk.require(wrapper is not None and len(rets) == 1, "R34a", deco, "large_file_check does not return its checking wrapper", detail="decorator returns wrapper"):
        return
    cfg = cfg_of(wrapper)
    fparam = deco.args.args[0].arg if deco.args.args else None
    fcalls = [c for c in calls_in(wrapper) if isinstance(c.func, ast.Name) and c.func.id == fparam]
    raises = [n for n in walk_local(wrapper) if isinstance(n, ast.Raise) and n.exc is not None and _is_skip(n.exc.func if isinstance(n.exc, ast.Call) else n.exc)]
    # the text parameter: what the wrapper forwards to the wrapped function as ``in_str=``
    text_params = {param_of(cfg, kwarg(c, "in_str"), cfg.stmt_of(c)) for c in fcalls if kwarg(c, "in_str") is not None} - {None}
    def is_text_len(x, at) -> bool:
        x = expanded(cfg, x, at)  # `n = len(in_str)` reads as the call
        return isinstance(x, ast.Call) and call_name(x) == "len" and bool(x.args) and param_of(cfg, x.args[0], at) in text_params

    ok_cmp = None  # (raise, Branch edge on which the comparison is known true)
    for r in raises:
        for g in cfg.guards(r):
            for e, pol in branch_atoms(cfg, g):
                sl = _over_limit(e, pol)
                if sl is not None and is_text_len(sl[0], cfg.stmt_of(e) or r) and _from_config(cfg, sl[1], cfg.stmt_of(e) or r, "large_file_skip_char_limit"):
                    ok_cmp = (r, g)
    chk.require(ok_cmp is not None, "R34a", wrapper, "the wrapper does not raise SQLFluffSkipFile under `len(<input>) > <large_file_skip_char_limit>`", detail="wrapper raises under the char-limit comparison")
    if ok_cmp is not None and fcalls:
        r, over = ok_cmp
        if_stmt = over.stmt
        # "nothing to compare with" edges: no config object given (a parameter is falsy) or the limit itself is
        # falsy (the check is switched off) -- every fact on the edge is of that kind
        cfg_params = {
            param_of(cfg, g_.func.value, cfg.stmt_of(g_)) for g_ in calls_in(wrapper)
            if last_attr(g_) == "get" and isinstance(g_.func, ast.Attribute) and g_.args and const(g_.args[0]) == "large_file_skip_char_limit"
        } - {None}
        off = []
        for b in cfg.nodes:
            if isinstance(b, Branch) and isinstance(b.stmt, ast.If):
                ats = branch_atoms(cfg, b)
                if ats and all(
                    not pol and ((isinstance(x, ast.Name) and param_of(cfg, x, b.stmt) in cfg_params) or _from_config(cfg, x, cfg.stmt_of(x) or b.stmt, "large_file_skip_char_limit"))
                    for x, pol in ats
                ):
                    off.append(b)
        for c in fcalls:
            st = cfg.stmt_of(c)
            chk.require(not cfg.paths_avoiding(cfg.entry, st, lambda n: n is if_stmt or n in off) and not cfg.reaches(over, st), "R34a", c,
                        "the wrapped templater can be entered without (or in spite of) the size test", detail="size test dominates the wrapped call")
    chk.require(bool(fcalls), "R34a", wrapper, "the wrapper never calls the wrapped function", detail="wrapper calls wrapped function")


def _over_limit(e, pol):
    """(size, limit) when the fact ``e is pol`` says ``size > limit`` or ``size >= limit``:
    ``a > b`` / ``b < a`` true, ``a <= b`` / ``b >= a`` false (and the ``>=`` counterparts)."""
    if not (isinstance(e, ast.Compare) and len(e.ops) == 1):
        return None
    op, a, b = type(e.ops[0]), e.left, e.comparators[0]
    if not pol:
        op = {ast.Gt: ast.LtE, ast.GtE: ast.Lt, ast.Lt: ast.GtE, ast.LtE: ast.Gt}.get(op)
    if op in (ast.Gt, ast.GtE):
        return a, b
    if op in (ast.Lt, ast.LtE):
        return b, a
    return None


def _from_config(cfg, e, at, key: str) -> bool:
    """Does ``e`` derive (through int()/names) from ``<x>.get(key)``?"""
    seen = 0
    stack = [(e, at)]
    ok = False
    while stack and seen < 20:
        x, a = stack.pop()
        seen += 1
        if isinstance(x, ast.Name):
            for o in origins(cfg, x, a):
                if o.kind == "expr":
                    stack.append((o.expr, o.stmt))
                elif o.kind == "param":
                    return False
        elif isinstance(x, ast.Call):
            if last_attr(x) == "get" and x.args and const(x.args[0]) == key:
                ok = True
            elif call_name(x) == "int" and x.args:
                stack.append((x.args[0], a))
            else:
                return False
        else:
            return False
    return ok


# ---------------------------------------------------------------------------
# R34b
# ---------------------------------------------------------------------------


def _r34b(chk, repo) -> None:
    L = repo.fn(LINTER, "Linter.load_raw_file_and_config")
    cfg = cfg_of(L)
    reads = []
    for n in walk_local(L):
        if isinstance(n, ast.With):
            for it in n.items:
                c = it.context_expr
                if isinstance(c, ast.Call) and fq(c) == "open" and c.args and param_of(cfg, c.args[0], n):
                    reads.append((n, c, param_of(cfg, c.args[0], n)))
    chk.count("R34b.reads", len(reads))
    chk.floor("R34b.reads", 1)
    # the size comparison
    cmps = []
    for n in walk_local(L):
        if isinstance(n, ast.If):
            for e, pol in atoms_at(cfg, n.test, True, n):  # also a test held in a boolean local
                sl = _over_limit(e, pol)
                if sl is not None:
                    at = cfg.stmt_of(e) or n
                    p = _size_of_param(cfg, sl[0], at)
                    if p and _from_config(cfg, sl[1], at, "large_file_skip_byte_limit"):
                        cmps.append((n, e, p))
    chk.count("R34b.size_comparisons", len(cmps))
    _r34b_limit_source(chk, L, cfg, reads)
    for wst, c, p in reads:
        mine = [(n, e) for n, e, q in cmps if q == p]
        if not chk.require(bool(mine), "R34b", c, f"no comparison of the size of `{p}` with large_file_skip_byte_limit precedes reading it", detail="byte-limit comparison exists"):
            continue
        ifs = [n for n, e in mine]
        # branches meaning "the limit is falsy/disabled"
        off = []
        for b in cfg.nodes:
            if isinstance(b, Branch) and isinstance(b.stmt, ast.If):
                for e, pol in atoms(b.stmt.test, b.polarity):
                    if not pol and isinstance(e, ast.Name) and _from_config(cfg, e, b.stmt, "large_file_skip_byte_limit"):
                        off.append(b)
        chk.require(not cfg.paths_avoiding(cfg.entry, wst, lambda n: n in ifs or n in off), "R34b", c,
                    "the file can be read without its size having been compared with the byte limit", detail="comparison on every path to the read")
        for n, e in mine:
            bt = branch_node(cfg, n, True)
            chk.require(bt is not None and not cfg.reaches(bt, wst), "R34b", n, "an over-limit file is still read: the over-limit branch does not leave the loader", detail="over-limit branch cannot reach the read")
            rs = [x for s in n.body for x in [s] + list(walk_local(s)) if isinstance(x, ast.Raise) and x.exc is not None and _is_skip(x.exc.func if isinstance(x.exc, ast.Call) else x.exc)]
            chk.require(bool(rs), "R34b", n, "the over-limit branch does not raise SQLFluffSkipFile", detail="over-limit branch raises SQLFluffSkipFile")


def _r34b_limit_source(chk, L, cfg, reads) -> None:
    """The byte limit that decides about a file must be read from that file's own config
    (the child config built for its path: nested .sqlfluff files may lower the limit), not
    from the run-wide root config the loader was handed."""
    gets = [c for c in calls_in(L) if last_attr(c) == "get" and isinstance(c.func, ast.Attribute) and c.args and const(c.args[0]) == "large_file_skip_byte_limit"]
    chk.count("R34b.limit_reads", len(gets))
    read_params = {p for _, _, p in reads}
    for g in gets:
        recv = g.func.value
        st = cfg.stmt_of(g)
        os_ = origins(cfg, recv, st) if isinstance(recv, ast.Name) else []
        ok = bool(os_) and all(
            o.kind == "expr" and not o.path and isinstance(o.expr, ast.Call) and last_attr(o.expr) == "make_child_from_path"
            and o.expr.args and param_of(cfg, o.expr.args[0], o.stmt) in read_params
            for o in os_
        )
        chk.require(
            ok, "R34b", g,
            f"the byte limit is read from `{norm(recv)}`, which is not the per-file config built by make_child_from_path(<file>): a stricter "
            "limit set in a nested config file is ignored and the over-limit file is parsed (and fixed)",
            detail="byte limit read from the file's own config",
        )


def _size_of_param(cfg, e, at) -> Optional[str]:
    for x, a in ([(o.expr, o.stmt) for o in origins(cfg, e, at) if o.kind == "expr"] if isinstance(e, ast.Name) else [(e, at)]):
        if isinstance(x, ast.Call) and fq(x) == "os.path.getsize" and x.args:
            return param_of(cfg, x.args[0], a)
        if isinstance(x, ast.Attribute) and x.attr == "st_size" and isinstance(x.value, ast.Call) and fq(x.value) == "os.stat" and x.value.args:
            return param_of(cfg, x.value.args[0], a)
    return None


# ---------------------------------------------------------------------------
# skip dispatch sites: explicit handlers and isinstance arms
# ---------------------------------------------------------------------------


class Site:
    def __init__(self, kind, node, body, func, subject=None):
        self.kind = kind  # 'handler' | 'arm'
        self.node = node  # ExceptHandler | If
        self.body = body  # statements executed for a skip
        self.func = func
        self.subject = subject  # isinstance subject expr (arm)

    @property
    def label(self) -> str:
        return f"handler {norm(self.node.type)}" if self.kind == "handler" else f"arm {short(self.node.test, 70)}"


def _skip_dispatch_sites(repo, bases) -> List[Site]:
    out: List[Site] = []
    for m in repo.modules.values():
        if SKIP not in m.text:
            continue
        for n in ast.walk(m.tree):
            if isinstance(n, ast.ExceptHandler) and any(_is_skip(t) for t in _type_names(n.type)):
                f = enclosing_function(n)
                if f is not None:
                    out.append(Site("handler", n, n.body, f))
            elif isinstance(n, ast.If):
                t, neg = n.test, False
                if isinstance(t, ast.UnaryOp) and isinstance(t.op, ast.Not):
                    t, neg = t.operand, True
                cands = [t] if not (isinstance(t, ast.BoolOp) and isinstance(t.op, ast.And) and not neg) else list(t.values)
                for c in cands:
                    if isinstance(c, ast.Call) and call_name(c) == "isinstance" and len(c.args) == 2 and any(_is_skip(x) for x in _type_names(c.args[1])):
                        f = enclosing_function(n)
                        if f is not None:
                            out.append(Site("arm", n, n.orelse if neg else n.body, f, c.args[0]))
    return out


def _top_level_effect(body: List[ast.stmt], pred) -> Optional[ast.stmt]:
    """First top-level statement of ``body`` satisfying pred, provided no
    top-level return/continue/break/raise precedes it."""
    for s in body:
        if pred(s):
            return s
        if isinstance(s, (ast.Return, ast.Continue, ast.Break, ast.Raise)):
            return None
    return None


def _is_increment(s: ast.stmt, counters: Set[str]) -> bool:
    if isinstance(s, ast.AugAssign) and isinstance(s.op, ast.Add) and isinstance(s.target, ast.Attribute) and const(s.value) == 1:
        if s.target.attr == "files_skipped":  # directly on a LintingResult
            return True
        return s.target.attr in counters and isinstance(s.target.value, ast.Name) and s.target.value.id == "self"
    if isinstance(s, ast.Assign) and len(s.targets) == 1 and isinstance(s.targets[0], ast.Attribute) and isinstance(s.value, ast.BinOp) and isinstance(s.value.op, ast.Add):
        t = s.targets[0]
        return t.attr in counters and norm(s.value.left) == norm(t) and const(s.value.right) == 1
    return False


def _exits_failing(s: ast.stmt) -> bool:
    """``sys.exit(<failing status>)``: a non-zero int or one of the CLI's EXIT_* names other than EXIT_SUCCESS."""
    if not (isinstance(s, ast.Expr) and isinstance(s.value, ast.Call) and fq(s.value) == "sys.exit" and len(s.value.args) == 1):
        return False
    a = s.value.args[0]
    if isinstance(a, ast.Constant):
        return isinstance(a.value, int) and not isinstance(a.value, bool) and a.value != 0
    return isinstance(a, ast.Name) and a.id.startswith("EXIT_") and a.id != "EXIT_SUCCESS"


def _reraises(h_name: Optional[str]):
    def pred(s):
        return isinstance(s, ast.Raise) and (s.exc is None or (isinstance(s.exc, ast.Name) and s.exc.id == h_name) or (isinstance(s.exc, ast.Call) and _is_skip(s.exc.func)))
    return pred


# ---------------------------------------------------------------------------
# R34c
# ---------------------------------------------------------------------------


def _r34c(chk, repo, sites: List[Site], bases: Set[str]) -> None:
    # counters: attributes copied into LintingResult.files_skipped
    rc = repo.cls(RESULT, "LintingResult")
    init = repo.lookup_method(repo.mod(RESULT), rc, "__init__")
    has_field = init is not None and any(
        isinstance(t, ast.Attribute) and t.attr == "files_skipped" for s in walk_local(init[1]) if isinstance(s, (ast.Assign, ast.AnnAssign)) for t in (s.targets if isinstance(s, ast.Assign) else [s.target])
    )
    if not has_field:
        raise AnalysisError("LintingResult.files_skipped not found (anchor renamed?)")
    LP = repo.fn(LINTER, "Linter.lint_paths")
    cfgLP = cfg_of(LP)
    counters: Set[str] = set()
    transfers = []
    moved: Dict[int, ast.Attribute] = {}  # transfer statement -> the counter attribute it copies (read in place or through a local)
    for s in walk_local(LP):
        if isinstance(s, ast.Assign) and len(s.targets) == 1 and isinstance(s.targets[0], ast.Attribute) and s.targets[0].attr == "files_skipped":
            v = expanded(cfgLP, s.value, s) if isinstance(s.value, ast.Name) else s.value
            if isinstance(v, ast.Attribute):
                counters.add(v.attr)
                transfers.append(s)
                moved[id(s)] = v
    chk.count("R34c.counter_transfers", len(transfers))
    rets = [r for r in returns_of(LP) if r.value is not None]
    if chk.require(bool(transfers), "R34c", LP, "lint_paths never copies the runner's skip counter into LintingResult.files_skipped: skipped files are invisible to every exit computation",
                   detail="skip counter transferred to files_skipped"):
        for t in transfers:
            run_calls = [c for c in calls_in(LP) if last_attr(c) == "run" and isinstance(c.func, ast.Attribute) and norm(c.func.value) == norm(moved[id(t)].value)]
            chk.require(bool(run_calls) and all(cfgLP.dominates(t, r) for r in rets) and isinstance(t.targets[0].value, ast.Name)
                        and all(isinstance(r.value, ast.Name) and r.value.id == t.targets[0].value.id for r in rets),
                        "R34c", t, "the skip counter is not transferred from the runner that ran, into the result that is returned, on every path", detail="transfer dominates return")
    lenient = not counters  # already reported once; do not cascade

    def counts(body):
        if lenient:
            return _top_level_effect(body, lambda s: isinstance(s, ast.AugAssign) and isinstance(s.target, ast.Attribute)) is not None
        return _top_level_effect(body, lambda s: _is_increment(s, counters)) is not None

    # (i) explicit handlers and arms
    n_i = 0
    for s in sites:
        cons = construct_of(s.node)
        if cons in NOT_LINT_PATH:
            chk.ok("R34c", cons, "not on the lint path: " + NOT_LINT_PATH[cons])
            continue
        n_i += 1
        hname = s.node.name if s.kind == "handler" else None
        ok = counts(s.body) or _top_level_effect(s.body, _reraises(hname)) is not None
        if not ok and _top_level_effect(s.body, _exits_failing) is not None:
            # third accepted idiom (single-file commands such as `render`): the handler ends the
            # run itself with a failing exit status -- the skip is visible and nothing goes on
            ok = True
        if s.kind == "arm" and not ok and isinstance(s.subject, ast.Name):
            # `raise <subject>` in an arm
            ok = _top_level_effect(s.body, lambda st: isinstance(st, ast.Raise) and isinstance(st.exc, ast.Name) and st.exc.id == s.subject.id) is not None
        chk.sample({"rule": "R34c", "site": f"{module_of(s.node).relpath}:{s.node.lineno}", "kind": s.label, "in": cons.split("::")[-1], "counts_or_reraises": ok})
        chk.require(
            ok, "R34c", s.node,
            "a SQLFluffSkipFile is swallowed here: it is neither counted into the skipped-file counter that lint_paths reports as files_skipped nor re-raised "
            "(large_file_skip_fail cannot see it; the file goes on as an empty, clean file)",
            detail=s.label,
        )
    chk.count("R34c.explicit_handlers_and_arms", n_i)
    chk.floor("R34c.explicit_handlers_and_arms", 2)
    # (ii) + (iii)
    _escape_analysis(chk, repo, sites, bases, counts)


def _catch_kind(h: ast.ExceptHandler, bases: Set[str]) -> Optional[str]:
    if h.type is None:
        return "broad"
    kinds = set()
    for t in _type_names(h.type):
        if _is_skip(t):
            kinds.add("explicit")
        elif norm(t) in bases:
            kinds.add("broad")
    if "explicit" in kinds:
        return "explicit"
    return "broad" if kinds else None


def _escape_analysis(chk, repo, sites, bases, counts) -> None:
    mods = [m for m in repo.iter_modules("src/sqlfluff/core/linter/")]
    fns: List[ast.AST] = [f for m in mods for q, f in m.functions()]
    by_name: Dict[str, List[ast.AST]] = {}
    for f in fns:
        by_name.setdefault(f.name, []).append(f)

    def related(f, g) -> bool:
        cf, cg = enclosing_class(f), enclosing_class(g)
        if cf is None or cg is None:
            return False
        mf, mg = module_of(cf), module_of(cg)
        return any(c is cg for _, c in repo.mro(mf, cf)) or any(c is cf for _, c in repo.mro(mg, cg))

    def targets(f, call: ast.Call) -> List[ast.AST]:
        fn = call.func
        # functools.partial(X.m, ...) counts as a call of m
        if fq(call) == "functools.partial" and call.args and isinstance(call.args[0], (ast.Attribute, ast.Name)):
            fn = call.args[0]
        if isinstance(fn, ast.Name):
            r = repo.resolve_name(module_of(call), fn.id)
            if r and isinstance(r[1], FuncNode):
                return [r[1]] if r[1] in fns else []
            if r and isinstance(r[1], ast.ClassDef):
                i = repo.lookup_method(r[0], r[1], "__init__")
                return [i[1]] if i and i[1] in fns else []
            return []
        if isinstance(fn, ast.Attribute):
            cands = by_name.get(fn.attr, [])
            recv = fn.value
            if isinstance(recv, ast.Name) and recv.id in ("self", "cls") or (isinstance(recv, ast.Call) and call_name(recv) == "super"):
                rel = [g for g in cands if related(f, g)]
                return rel
            return cands
        return []

    def protecting(f, node) -> Optional[Tuple[ast.Try, ast.ExceptHandler, str]]:
        """Innermost try of f whose body contains node and which catches a skip."""
        for a in ancestors(node):
            if a is f:
                break
            if isinstance(a, ast.Try) and in_block(node, a.body):
                for h in a.handlers:
                    k = _catch_kind(h, bases)
                    if k:
                        if _top_level_effect(h.body, _reraises(h.name)) is not None and k == "broad":
                            break  # re-raised unchanged: not absorbed by this try
                        return a, h, k
        return None

    # sources inside each function
    def sources(f):
        out = []
        for n in walk_local(f):
            if isinstance(n, ast.Raise) and n.exc is not None and _is_skip(n.exc.func if isinstance(n.exc, ast.Call) else n.exc):
                out.append((n, "raise SQLFluffSkipFile"))
            elif isinstance(n, ast.Call) and isinstance(n.func, ast.Attribute) and n.func.attr in ENTRY_METHODS:
                out.append((n, f"templater entry .{n.func.attr}()"))
        return out

    may: Dict[ast.AST, Tuple[ast.AST, str]] = {}  # function -> (witness node, description)
    absorbed: Dict[ast.ExceptHandler, List[Tuple[ast.AST, str]]] = {}
    dead_cache: Dict[int, bool] = {}

    def note_site(f, node, desc) -> bool:
        """Returns True if the raise escapes f."""
        p = protecting(f, node)
        if p is None:
            return True
        tr, h, k = p
        lst = absorbed.setdefault(h, [])
        if all(x[0] is not node for x in lst):
            lst.append((node, desc))
        if k == "explicit":
            # explicit handlers that re-raise let it escape (judged by (i) otherwise)
            if _top_level_effect(h.body, _reraises(h.name)) is not None:
                return note_site_outer(f, tr, desc)
        return False

    def note_site_outer(f, tr, desc) -> bool:
        return protecting(f, tr) is None

    changed = True
    rounds = 0
    while changed and rounds < 30:
        changed = False
        rounds += 1
        for f in fns:
            if f in may:
                continue
            for node, desc in sources(f):
                if note_site(f, node, desc):
                    may[f] = (node, desc)
                    changed = True
                    break
            if f in may:
                continue
            for c in calls_in(f):
                for g in targets(f, c):
                    if g in may and g is not f:
                        d = f"{getattr(g, '_qualname', g.name)}()"
                        if note_site(f, c, d):
                            may[f] = (c, d)
                            changed = True
                            break
                if f in may:
                    break
    chk.count("R34c.may_raise_functions", len(may))
    chk.count("R34c.functions_analysed", len(fns))
    chk.count("R34c.skip_sources", sum(len(sources(f)) for f in fns))
    chk.floor("R34c.functions_analysed", 60)
    chk.floor("R34c.skip_sources", 1)
    def chain(f, depth=0) -> str:
        node, desc = may[f]
        nxt = None
        if isinstance(node, ast.Call):
            for g in targets(f, node):
                if g in may and g is not f:
                    nxt = g
                    break
        s = getattr(f, "_qualname", f.name)
        return s + (" -> " + chain(nxt, depth + 1) if nxt is not None and depth < 8 else f" -> {desc}")

    # public drivers of the linter: files (lint/fix), stdin (lint/fix), parse
    for rq in DRIVERS:
        R = repo.fn(LINTER, rq)
        chk.count("R34c.driver_roots")
        if R in may:
            chk.fail("R34c", may[R][0],
                     f"a SQLFluffSkipFile can escape {rq} uncaught and uncounted (the run crashes instead of skipping): {chain(R)}",
                     detail=f"skip escapes {rq.split('.')[-1]}: " + chain(R))
        else:
            chk.ok("R34c", qual(R), f"no skip escapes {rq}")
    # (iii) broad absorbers in core/linter
    arms_attrs = set()
    for s in sites:
        if s.kind != "arm":
            continue
        subj = s.subject
        if isinstance(subj, ast.Name):  # `err = result.ee; if isinstance(err, SQLFluffSkipFile)`
            subj = expanded(cfg_of(s.func), subj, s.node)
        if isinstance(subj, ast.Attribute):
            arms_attrs.add(subj.attr)
    n_b = 0
    for h, lst in absorbed.items():
        if _catch_kind(h, bases) != "broad":
            continue
        f = enclosing_function(h)
        live = [(n, d) for n, d in lst if not _dead_arm(repo, f, n, dead_cache)]
        if not live:
            chk.note(f"{qual(f)}: broad handler absorbs a skip only from a statically dead arm ({', '.join(d for _, d in lst)})")
            continue
        n_b += 1
        ok = counts(h.body) or _top_level_effect(h.body, _reraises(h.name)) is not None or _forwards(repo, h, arms_attrs)
        chk.sample({"rule": "R34c", "site": f"{module_of(h).relpath}:{h.lineno}", "kind": f"broad handler {norm(h.type) if h.type else 'bare'}", "absorbs": [d for _, d in live], "forwards_or_counts": ok})
        chk.require(ok, "R34c", h,
                    f"`except {norm(h.type) if h.type else ''}` absorbs a possible SQLFluffSkipFile from {', '.join(sorted({d for _, d in live}))} without counting it, re-raising it, or forwarding the "
                    "exception object to the dispatching isinstance-arm: the skipped file is reported as an internal error / lost",
                    detail=f"broad handler {norm(h.type) if h.type else 'bare'} absorbs skip")
    chk.count("R34c.broad_absorbers_live", n_b)


def _forwards(repo, h: ast.ExceptHandler, arm_attrs: Set[str]) -> bool:
    """``except X as e: return C(e, ...)`` with C.__init__ storing it in an attribute an isinstance-arm reads."""
    if not h.name:
        return False
    st = _top_level_effect(h.body, lambda s: isinstance(s, ast.Return) and isinstance(s.value, ast.Call))
    if st is None:
        return False
    c = st.value
    if not (c.args and isinstance(c.args[0], ast.Name) and c.args[0].id == h.name and isinstance(c.func, ast.Name)):
        return False
    r = repo.resolve_name(module_of(h), c.func.id)
    if not r or not isinstance(r[1], ast.ClassDef):
        return False
    init = repo.lookup_method(r[0], r[1], "__init__")
    if not init:
        return False
    ps = [a.arg for a in init[1].args.args]
    if len(ps) < 2:
        return False
    p0 = ps[1]
    for s in walk_local(init[1]):
        if isinstance(s, ast.Assign) and len(s.targets) == 1 and isinstance(s.targets[0], ast.Attribute) and isinstance(s.value, ast.Name) and s.value.id == p0:
            if s.targets[0].attr in arm_attrs:
                return True
    return False


def _dead_arm(repo, f, node, cache) -> bool:
    """Is node inside an ``if isinstance(x, K)`` arm where x comes from a generator
    method of f's class hierarchy that never yields a K at that tuple position?"""
    cfg = cfg_of(f)
    for a in ancestors(node):
        if a is f:
            break
        if isinstance(a, ast.If) and in_block(node, a.body):
            t = a.test
            if isinstance(t, ast.Call) and call_name(t) == "isinstance" and len(t.args) == 2 and isinstance(t.args[0], ast.Name) and isinstance(t.args[1], ast.Name):
                key = id(a)
                if key not in cache:
                    cache[key] = _never_yields(repo, f, cfg, t.args[0], a, t.args[1].id)
                if cache[key]:
                    return True
    return False


def _never_yields(repo, f, cfg, name: ast.Name, at, klass: str) -> bool:
    cls = enclosing_class(f)
    if cls is None:
        return False
    os_ = origins(cfg, name, at)
    if not os_:
        return False
    for o in os_:
        if not (o.kind == "for" and isinstance(o.expr, ast.Call) and isinstance(o.expr.func, ast.Attribute) and isinstance(o.expr.func.value, ast.Name)
                and o.expr.func.value.id == "self" and len(o.path) == 1 and isinstance(o.path[0], int)):
            return False
        kinds = _yield_kinds(repo, module_of(cls), cls, o.expr.func.attr, o.path[0], 0)
        if kinds is None or klass in kinds:
            return False
    return True


def _yield_kinds(repo, m, cls, meth: str, pos: int, depth: int, after=None) -> Optional[Set[str]]:
    """Constructor names that can appear at tuple position ``pos`` of what ``cls.meth`` yields (None = unknown)."""
    if depth > 4:
        return None
    mro = repo.mro(m, cls)
    if after is not None:
        idx = [i for i, (_, c) in enumerate(mro) if c is after]
        mro = mro[idx[0] + 1:] if idx else []
    gen = owner = None
    for mm, cc in mro:
        for it in cc.body:
            if isinstance(it, FuncNode) and it.name == meth:
                gen, owner = it, (mm, cc)
                break
        if gen is not None:
            break
    if gen is None:
        return None
    kinds: Set[str] = set()
    found = False
    for n in walk_local(gen):
        if isinstance(n, ast.Yield):
            found = True
            v = n.value
            if not (isinstance(v, ast.Tuple) and pos < len(v.elts) and isinstance(v.elts[pos], ast.Call)):
                return None
            kinds.add(call_name(v.elts[pos]).split(".")[-1])
        elif isinstance(n, ast.YieldFrom):
            found = True
            v = n.value
            if isinstance(v, ast.Call) and isinstance(v.func, ast.Attribute) and isinstance(v.func.value, ast.Call) and call_name(v.func.value) == "super" and v.func.attr == meth:
                sub = _yield_kinds(repo, m, cls, meth, pos, depth + 1, after=owner[1])
                if sub is None:
                    return None
                kinds |= sub
            else:
                return None
    return kinds if found else None


# ---------------------------------------------------------------------------
# R34d
# ---------------------------------------------------------------------------


def _r34d(chk, repo) -> None:
    exit_vals = {}
    cli_init = repo.mod("src/sqlfluff/cli/__init__.py")
    for s in cli_init.tree.body:
        if isinstance(s, ast.Assign) and len(s.targets) == 1 and isinstance(s.targets[0], ast.Name) and isinstance(const(s.value), int):
            exit_vals[s.targets[0].id] = const(s.value)

    def code(e) -> Optional[int]:
        if isinstance(e, ast.Constant) and isinstance(e.value, int):
            return e.value
        if isinstance(e, ast.Name) and e.id in exit_vals:
            return exit_vals[e.id]
        return None

    n_cmd = 0
    for m in repo.iter_modules("src/sqlfluff/cli/"):
        for q, f in m.functions():
            lcalls = [c for c in calls_in(f) if last_attr(c) == "lint_paths" and isinstance(c.func, ast.Attribute)]
            if not lcalls:
                continue
            n_cmd += 1
            cfg = cfg_of(f)
            exits = [c for c in calls_in(f) if fq(c) == "sys.exit"]
            chk.count("R34d.exit_sites", len(exits))
            flags = _flag_params(f, "--nofail")
            # Statements that raise the exit code for skipped files: an assignment of a failing
            # value (constant, or max(.., failing)) whose guards -- beyond those it shares with
            # the exit itself -- are exactly positive tests of `<lint_paths result>.files_skipped`
            # and `<config>.get("large_file_skip_fail")`, spelled in one `if`, nested `if`s or
            # through a local holding the conjunction.
            def expand(e, pol, at, depth=0):
                """Atoms ``(expr, truth, statement where it is evaluated)`` of a test: through not/bool(),
                and/or, ``n > 0`` / ``n != 0`` / ``n == 0`` for the count ``n``, and locals holding one expression."""
                if isinstance(e, ast.UnaryOp) and isinstance(e.op, ast.Not):
                    return expand(e.operand, not pol, at, depth)
                if isinstance(e, ast.Call) and call_name(e) == "bool" and len(e.args) == 1:
                    return expand(e.args[0], pol, at, depth)
                if isinstance(e, ast.BoolOp) and ((isinstance(e.op, ast.And) and pol) or (isinstance(e.op, ast.Or) and not pol)):
                    return [a for v in e.values for a in expand(v, pol, at, depth)]
                zt = zero_test(e)
                if zt is not None:
                    return expand(zt[0], (not pol) if zt[1] else pol, at, depth)
                if isinstance(e, ast.Name) and depth < 4:
                    os_ = origins(cfg, e, at)
                    if len(os_) == 1 and os_[0].kind == "expr" and not os_[0].path and not isinstance(os_[0].expr, ast.Name) and os_[0].stmt is not None:
                        return expand(os_[0].expr, pol, os_[0].stmt, depth + 1)
                return [(e, pol, at)]

            def is_skip_atom(e, at) -> bool:
                return (
                    isinstance(e, ast.Attribute) and e.attr == "files_skipped" and isinstance(e.value, ast.Name)
                    and any(isinstance(o.expr, ast.Call) and o.expr in lcalls for o in origins(cfg, e.value, at))
                )

            def is_cfg_atom(e) -> bool:
                return isinstance(e, ast.Call) and last_attr(e) == "get" and bool(e.args) and const(e.args[0]) == "large_file_skip_fail"

            def failing(v) -> bool:
                if code(v) not in (None, 0):
                    return True
                return isinstance(v, ast.Call) and call_name(v) == "max" and any(code(a) not in (None, 0) for a in v.args)

            def raisers(xs, var: str):
                """[(assignment, outermost guard Branch of the skip test)]"""
                shared = {(norm(e), pol) for e, pol in cfg.conditions(xs)}
                out = []
                for n in walk_local(f):
                    if not (isinstance(n, ast.Assign) and any(isinstance(t, ast.Name) and t.id == var for t in n.targets) and failing(n.value)):
                        continue
                    own = [g for g in cfg.guards(n) if isinstance(g.stmt, (ast.If, ast.While))]
                    skip = cfgatom = False
                    other = False
                    tested = []  # statements of the guards that test one of the two atoms
                    for g in own:
                        for e0, p0 in atoms(g.stmt.test, g.polarity):
                            if (norm(e0), p0) in shared:
                                continue
                            for e, pol, e_at in expand(e0, p0, g.stmt):
                                if pol and is_skip_atom(e, e_at):
                                    skip = True
                                elif pol and is_cfg_atom(e):
                                    cfgatom = True
                                else:
                                    other = True
                                    continue
                                if g.stmt not in tested:
                                    tested.append(g.stmt)
                    # the outermost of them (guards() gives no order): the one dominating the others
                    first = next((t for t in tested if all(t is u or cfg.dominates(t, u) for u in tested)), None)
                    if skip and cfgatom and not other and first is not None:
                        out.append((n, first))
                return out

            n_tests = 0
            for lc in lcalls:
                ls = cfg.stmt_of(lc)
                for x in exits:
                    xs = cfg.stmt_of(x)
                    if not cfg.reaches(ls, xs):
                        continue
                    arg = x.args[0] if x.args else None
                    label = f"sys.exit({short(arg, 50) if arg is not None else ''})"
                    c0 = code(arg) if arg is not None else 0
                    if c0 is not None and c0 != 0:
                        chk.ok("R34d", qual(f), label + " constant failure")
                        continue
                    if any(pol and isinstance(e, ast.Name) and param_of(cfg, e, xs) in flags for e, pol in cfg.conditions(xs)):
                        chk.ok("R34d", qual(f), label + " under --nofail")
                        continue
                    good = False
                    if isinstance(arg, ast.Name):
                        rs = raisers(xs, arg.id)
                        n_tests += len(rs)
                        tests = [t for _, t in rs]
                        # the skip test is consulted on every path from the lint call to the exit ...
                        passed = bool(tests) and not cfg.paths_avoiding(ls, xs, lambda n: n in tests)
                        # ... and the raised value is what the exit reads
                        raised = any(o.stmt is a for a, _ in rs for o in origins(cfg, arg, xs))
                        good = passed and raised
                    chk.require(
                        good, "R34d", x,
                        f"{f.name}: this exit is reachable after lint_paths without `files_skipped and large_file_skip_fail` raising the exit code: "
                        "a run that skipped files exits as if it had checked them",
                        detail=label + " consults files_skipped and large_file_skip_fail",
                    )
            chk.count("R34d.skip_tests", n_tests)
    chk.count("R34d.commands_calling_lint_paths", n_cmd)
    chk.floor("R34d.commands_calling_lint_paths", 2)
    chk.floor("R34d.exit_sites", 3)


def _flag_params(f, flag: str) -> Set[str]:
    out = set()
    ps = {a.arg for a in f.args.args + f.args.kwonlyargs}
    for d in f.decorator_list:
        if isinstance(d, ast.Call) and fq(d) in ("click.option",):
            strs = [const(a) for a in d.args if isinstance(const(a), str)]
            if flag in strs and const(kwarg(d, "is_flag")) is True:
                for s in strs:
                    p = s.lstrip("-").replace("-", "_").lower()
                    if p in ps:
                        out.add(p)
    return out


# ---------------------------------------------------------------------------
# R34e
# ---------------------------------------------------------------------------


def _r34e(chk, repo, sites: List[Site]) -> None:
    n = 0
    for s in sites:
        f = s.func
        cfg = cfg_of(f)
        n += 1
        if not s.body:
            continue
        start = s.body[0]
        loop = None
        for a in ancestors(s.node):
            if a is f:
                break
            if isinstance(a, (ast.For, ast.While, ast.AsyncFor)):
                loop = a
                break
        produced = []
        for x in walk_local(f):
            st = None
            if isinstance(x, (ast.Yield, ast.YieldFrom)):
                st = cfg.stmt_of(x)
            elif isinstance(x, ast.Return) and x.value is not None and not (isinstance(x.value, ast.Constant) and x.value.value is None):
                st = x
                # returning an accumulator that already existed before the skip is not a product of the skipped file
                if isinstance(x.value, ast.Name):
                    os_ = origins(cfg, x.value, x)
                    if os_ and all(o.stmt is not None and o.kind == "expr" and cfg.dominates(o.stmt, start) for o in os_):
                        st = None
            if st is None:
                continue
            if st is start or in_block(st, s.body):
                produced.append(st)
            elif cfg.paths_avoiding(start, st, lambda n_: n_ is loop):
                produced.append(st)
        lbl = s.label
        chk.require(
            not produced, "R34e", s.node,
            f"after a skip is caught here the function still produces a result for the file ({'; '.join(sorted({short(p, 50) for p in produced}))}): the skipped file goes on to be linted/reported",
            detail=lbl + " produces no result",
        )
    chk.count("R34e.sites", n)
    chk.floor("R34e.sites", 3)


from ..selftest import Variant  # noqa: E402

PLACEHOLDER = "src/sqlfluff/core/templaters/placeholder.py"
JINJA = "src/sqlfluff/core/templaters/jinja.py"
DBT = "plugins/sqlfluff-templater-dbt/sqlfluff_templater_dbt/templater.py"
SQLMESH = "plugins/sqlfluff-templater-sqlmesh/sqlfluff_templater_sqlmesh/templater.py"
CMD = "src/sqlfluff/cli/commands.py"

VARIANTS = [
    Variant(
        "byte-limit-from-root-config", LINTER,
        "        limit = file_config.get(\"large_file_skip_byte_limit\")\n",
        "        limit = root_config.get(\"large_file_skip_byte_limit\")\n",
        "R34b", "load_raw_file_and_config", "seeded C34-1: nested config limit ignored",
    ),
    Variant(
        "quiet-byte-limit-config-renamed", LINTER,
        "        limit = file_config.get(\"large_file_skip_byte_limit\")\n",
        "        cfg_for_this_file = file_config\n        limit = cfg_for_this_file.get(\"large_file_skip_byte_limit\")\n",
        "QUIET", None, "per-file config read through an alias",
    ),
    Variant(
        "render-skip-handler-exits-success", CMD,
        "                click.echo(formatter.colorize(str(skip_file_err), Color.red), err=True)\n                sys.exit(EXIT_FAIL)\n",
        "                click.echo(formatter.colorize(str(skip_file_err), Color.red), err=True)\n                sys.exit(EXIT_SUCCESS)\n",
        "R34c", "render", "a skip that ends the run with status 0 is invisible",
    ),
    # behaviour-preserving refactors: must stay quiet
    Variant(
        "quiet-lint-skip-fail-through-local", CMD,
        "        if result.files_skipped and config.get(\"large_file_skip_fail\"):\n            exit_code = max(exit_code, EXIT_FAIL)\n        sys.exit(exit_code)\n",
        "        skip_fails = bool(result.files_skipped) and config.get(\"large_file_skip_fail\")\n        if skip_fails:\n            exit_code = max(exit_code, EXIT_FAIL)\n        sys.exit(exit_code)\n",
        "QUIET", None, "skip-fail condition computed into a local",
    ),
    Variant(
        "quiet-paths-fix-skip-fail-nested-if", CMD,
        "    if result.files_skipped and linter.config.get(\"large_file_skip_fail\"):\n        exit_code = max(exit_code, EXIT_FAIL)\n\n    sys.exit(exit_code)\n",
        "    if result.files_skipped:\n        if linter.config.get(\"large_file_skip_fail\"):\n            exit_code = max(exit_code, EXIT_FAIL)\n\n    sys.exit(exit_code)\n",
        "QUIET", None, "conjunction spelled as nested ifs",
    ),
    # behaviour-preserving refactors: must stay quiet (sweep)
    Variant(
        'quiet-char-limit-test-nested-under-limit', TEMPL_BASE,
        '        if config:\n            limit = config.get("large_file_skip_char_limit")\n            if limit:\n                templater_logger.warning(\n                    "The config value large_file_skip_char_limit was found set. "\n                    "This feature will be removed in a future release, please "\n                    "use the more efficient \'large_file_skip_byte_limit\' instead."\n                )\n            if limit and len(in_str) > limit:\n                raise SQLFluffSkipFile(\n                    f"Length of file {fname!r} is over {limit} characters. "\n                    "Skipping to avoid parser lock. Users can increase this limit "\n                    "in their config by setting the \'large_file_skip_char_limit\' "\n                    "value, or disable by setting it to zero."\n                )\n        return func(\n            self, in_str=in_str, fname=fname, config=config, formatter=formatter\n        )\n',
        '        if config:\n            limit = config.get("large_file_skip_char_limit")\n            if limit:\n                templater_logger.warning(\n                    "The config value large_file_skip_char_limit was found set. "\n                    "This feature will be removed in a future release, please "\n                    "use the more efficient \'large_file_skip_byte_limit\' instead."\n                )\n                if len(in_str) > limit:\n                    raise SQLFluffSkipFile(\n                        f"Length of file {fname!r} is over {limit} characters. "\n                        "Skipping to avoid parser lock. Users can increase this limit "\n                        "in their config by setting the \'large_file_skip_char_limit\' "\n                        "value, or disable by setting it to zero."\n                    )\n        return func(\n            self, in_str=in_str, fname=fname, config=config, formatter=formatter\n        )\n',
        "QUIET", None, 'the comparison nested under the `if limit:` that is already there',
    ),
    Variant(
        'quiet-char-limit-no-config-early-return', TEMPL_BASE,
        '        if config:\n            limit = config.get("large_file_skip_char_limit")\n            if limit:\n                templater_logger.warning(\n                    "The config value large_file_skip_char_limit was found set. "\n                    "This feature will be removed in a future release, please "\n                    "use the more efficient \'large_file_skip_byte_limit\' instead."\n                )\n            if limit and len(in_str) > limit:\n                raise SQLFluffSkipFile(\n                    f"Length of file {fname!r} is over {limit} characters. "\n                    "Skipping to avoid parser lock. Users can increase this limit "\n                    "in their config by setting the \'large_file_skip_char_limit\' "\n                    "value, or disable by setting it to zero."\n                )\n        return func(\n            self, in_str=in_str, fname=fname, config=config, formatter=formatter\n        )\n',
        '        if not config:\n            return func(\n                self, in_str=in_str, fname=fname, config=config, formatter=formatter\n            )\n        limit = config.get("large_file_skip_char_limit")\n        if limit:\n            templater_logger.warning(\n                "The config value large_file_skip_char_limit was found set. "\n                "This feature will be removed in a future release, please "\n                "use the more efficient \'large_file_skip_byte_limit\' instead."\n            )\n        if limit and len(in_str) > limit:\n            raise SQLFluffSkipFile(\n                f"Length of file {fname!r} is over {limit} characters. "\n                "Skipping to avoid parser lock. Users can increase this limit "\n                "in their config by setting the \'large_file_skip_char_limit\' "\n                "value, or disable by setting it to zero."\n            )\n        return func(\n            self, in_str=in_str, fname=fname, config=config, formatter=formatter\n        )\n',
        "QUIET", None, '`if config:` turned into an early return for the no-config case',
    ),
    Variant(
        'quiet-char-limit-test-in-boolean-local', TEMPL_BASE,
        '            if limit and len(in_str) > limit:\n',
        '            too_long = bool(limit) and len(in_str) > limit\n            if too_long:\n',
        "QUIET", None, 'over-limit test held in a boolean local',
    ),
    Variant(
        'quiet-char-limit-length-through-local', TEMPL_BASE,
        '            if limit and len(in_str) > limit:\n',
        '            n_chars = len(in_str)\n            if limit and n_chars > limit:\n',
        "QUIET", None, 'len(in_str) through a local',
    ),
    Variant(
        'quiet-char-limit-comparison-reversed', TEMPL_BASE,
        '            if limit and len(in_str) > limit:\n',
        '            if limit and limit < len(in_str):\n',
        "QUIET", None, 'a > b written b < a',
    ),
    Variant(
        'quiet-byte-limit-size-via-os-stat', LINTER,
        '            file_size = os.path.getsize(fname)\n            if file_size > limit:\n',
        '            file_size = os.stat(fname).st_size\n            if file_size > limit:\n',
        "QUIET", None, 'os.path.getsize spelled os.stat(..).st_size',
    ),
    Variant(
        'quiet-byte-limit-comparison-reversed', LINTER,
        '            file_size = os.path.getsize(fname)\n            if file_size > limit:\n',
        '            file_size = os.path.getsize(fname)\n            if limit < file_size:\n',
        "QUIET", None, 'a > b written b < a',
    ),
    Variant(
        'quiet-byte-limit-test-in-boolean-local', LINTER,
        '            file_size = os.path.getsize(fname)\n            if file_size > limit:\n',
        '            file_size = os.path.getsize(fname)\n            over_limit = file_size > limit\n            if over_limit:\n',
        "QUIET", None, 'over-limit test held in a boolean local',
    ),
    Variant(
        'quiet-serial-skip-count-before-log', RUNNER,
        '                linter_logger.warning(str(s))\n                self.skipped_file_count += 1\n',
        '                self.skipped_file_count = self.skipped_file_count + 1\n                linter_logger.warning(str(s))\n',
        "QUIET", None, 'independent statements reordered; += 1 as x = x + 1',
    ),
    Variant(
        'quiet-serial-yield-after-try', RUNNER,
        '            try:\n                yield fname, self.linter.render_file(fname, self.config)\n            except SQLFluffSkipFile as s:\n                linter_logger.warning(str(s))\n                self.skipped_file_count += 1\n',
        '            try:\n                rendered = self.linter.render_file(fname, self.config)\n            except SQLFluffSkipFile as s:\n                linter_logger.warning(str(s))\n                self.skipped_file_count += 1\n                continue\n            yield fname, rendered\n',
        "QUIET", None, 'yield moved behind the try, handler continues',
    ),
    Variant(
        'quiet-parallel-arm-subject-through-local', RUNNER,
        '                if isinstance(lint_result, DelayedException):\n                    if isinstance(lint_result.ee, SQLFluffSkipFile):\n',
        '                if isinstance(lint_result, DelayedException):\n                    carried = lint_result.ee\n                    if isinstance(carried, SQLFluffSkipFile):\n',
        "QUIET", None, 'carried exception read into a local before the isinstance test',
    ),
    Variant(
        'quiet-parallel-arm-negated', RUNNER,
        '                    if isinstance(lint_result.ee, SQLFluffSkipFile):\n                        # A file was skipped (e.g. exceeded\n                        # large_file_skip_byte_limit). Log a plain warning,\n                        # not the "please report as bug" message.\n                        linter_logger.warning(str(lint_result.ee))\n                        self.skipped_file_count += 1\n                    else:\n                        try:\n                            lint_result.reraise()\n                        except Exception as e:\n                            self._handle_lint_path_exception(lint_result.fname, e)\n',
        '                    if not isinstance(lint_result.ee, SQLFluffSkipFile):\n                        try:\n                            lint_result.reraise()\n                        except Exception as e:\n                            self._handle_lint_path_exception(lint_result.fname, e)\n                    else:\n                        # A file was skipped (e.g. exceeded\n                        # large_file_skip_byte_limit). Log a plain warning,\n                        # not the "please report as bug" message.\n                        linter_logger.warning(str(lint_result.ee))\n                        self.skipped_file_count += 1\n',
        "QUIET", None, 'arms swapped under a negated test',
    ),
    Variant(
        'quiet-counter-transfer-through-local', LINTER,
        '        result.files_skipped = runner.skipped_file_count\n        result.stop_timer()\n',
        '        n_skipped = runner.skipped_file_count\n        result.stop_timer()\n        result.files_skipped = n_skipped\n',
        "QUIET", None, 'skip counter through a local',
    ),
    Variant(
        'quiet-counter-transfer-after-stop-timer', LINTER,
        '        result.files_skipped = runner.skipped_file_count\n        result.stop_timer()\n',
        '        result.stop_timer()\n        result.files_skipped = runner.skipped_file_count\n',
        "QUIET", None, 'two independent statements reordered',
    ),
    Variant(
        'quiet-lint-skip-fail-compare-and-constant', CMD,
        '        if result.files_skipped and config.get("large_file_skip_fail"):\n            exit_code = max(exit_code, EXIT_FAIL)\n        sys.exit(exit_code)\n',
        '        if config.get("large_file_skip_fail") and result.files_skipped > 0:\n            exit_code = EXIT_FAIL\n        sys.exit(exit_code)\n',
        "QUIET", None, '> 0 for truthiness, operands swapped, the failing constant instead of max()',
    ),
    Variant(
        'quiet-lint-skip-fail-both-through-locals', CMD,
        '        if result.files_skipped and config.get("large_file_skip_fail"):\n            exit_code = max(exit_code, EXIT_FAIL)\n        sys.exit(exit_code)\n',
        '        n_skipped = result.files_skipped\n        fail_on_skip = config.get("large_file_skip_fail")\n        if n_skipped and fail_on_skip:\n            exit_code = max(exit_code, EXIT_FAIL)\n        sys.exit(exit_code)\n',
        "QUIET", None, 'both operands read into locals first',
    ),
    Variant(
        'quiet-lint-nofail-early-exit', CMD,
        '    if not nofail:\n        if not non_human_output:\n            formatter.completion_message()\n        exit_code = result.stats(EXIT_FAIL, EXIT_SUCCESS)["exit code"]\n        assert isinstance(exit_code, int), "result.stats error code must be integer."\n        # If large_file_skip_fail is set and files were skipped, fail.\n        if result.files_skipped and config.get("large_file_skip_fail"):\n            exit_code = max(exit_code, EXIT_FAIL)\n        sys.exit(exit_code)\n    else:\n        sys.exit(EXIT_SUCCESS)\n',
        '    if nofail:\n        sys.exit(EXIT_SUCCESS)\n    if not non_human_output:\n        formatter.completion_message()\n    exit_code = result.stats(EXIT_FAIL, EXIT_SUCCESS)["exit code"]\n    assert isinstance(exit_code, int), "result.stats error code must be integer."\n    # If large_file_skip_fail is set and files were skipped, fail.\n    if result.files_skipped and config.get("large_file_skip_fail"):\n        exit_code = max(exit_code, EXIT_FAIL)\n    sys.exit(exit_code)\n',
        "QUIET", None, 'if/else turned into an early exit for --nofail',
    ),
    Variant(
        'quiet-paths-fix-skip-fail-not-equal-zero', CMD,
        '    if result.files_skipped and linter.config.get("large_file_skip_fail"):\n        exit_code = max(exit_code, EXIT_FAIL)\n\n    sys.exit(exit_code)\n',
        '    if result.files_skipped != 0 and linter.config.get("large_file_skip_fail"):\n        exit_code = max(exit_code, EXIT_FAIL)\n\n    sys.exit(exit_code)\n',
        "QUIET", None, '!= 0 for truthiness',
    ),
    Variant(
        'quiet-parse-path-yield-in-try-else', LINTER,
        '            except SQLFluffSkipFile as s:\n                linter_logger.warning(str(s))\n                continue\n            yield self.parse_string(\n                raw_file,\n                fname=fname,\n                config=config,\n                encoding=encoding,\n                parse_statistics=parse_statistics,\n            )\n',
        '            except SQLFluffSkipFile as s:\n                linter_logger.warning(str(s))\n            else:\n                yield self.parse_string(\n                    raw_file,\n                    fname=fname,\n                    config=config,\n                    encoding=encoding,\n                    parse_statistics=parse_statistics,\n                )\n',
        "QUIET", None, 'continue turned into try/else',
    ),
    # breaking twins of the spellings accepted above
    Variant(
        'char-limit-skipped-when-no-formatter', TEMPL_BASE,
        '        if config:\n            limit = config.get("large_file_skip_char_limit")\n',
        '        if not formatter:\n            return func(\n                self, in_str=in_str, fname=fname, config=config, formatter=formatter\n            )\n        if config:\n            limit = config.get("large_file_skip_char_limit")\n',
        'R34a', None, 'breaking twin of the early-return spelling: the parameter tested is not the config',
    ),
    Variant(
        'char-limit-comparison-reversed-wrongly', TEMPL_BASE,
        '            if limit and len(in_str) > limit:\n',
        '            if limit and limit > len(in_str):\n',
        'R34a', None, 'breaking twin of the reversed-comparison spelling',
    ),
    Variant(
        'char-limit-boolean-local-measures-name', TEMPL_BASE,
        '            if limit and len(in_str) > limit:\n',
        '            too_long = bool(limit) and len(fname) > limit\n            if too_long:\n',
        'R34a', None, 'breaking twin of the boolean-local spelling',
    ),
    Variant(
        'byte-limit-comparison-reversed-wrongly', LINTER,
        '            file_size = os.path.getsize(fname)\n            if file_size > limit:\n',
        '            file_size = os.path.getsize(fname)\n            if limit > file_size:\n',
        'R34b', None, 'breaking twin of the reversed-comparison spelling',
    ),
    Variant(
        'byte-limit-boolean-local-negated', LINTER,
        '            file_size = os.path.getsize(fname)\n            if file_size > limit:\n',
        '            file_size = os.path.getsize(fname)\n            over_limit = file_size > limit\n            if not over_limit:\n',
        'R34b', None, 'breaking twin of the boolean-local spelling',
    ),
    Variant(
        'parallel-arm-local-reads-another-attribute', RUNNER,
        '                if isinstance(lint_result, DelayedException):\n                    if isinstance(lint_result.ee, SQLFluffSkipFile):\n',
        '                if isinstance(lint_result, DelayedException):\n                    carried = lint_result.fname\n                    if isinstance(carried, SQLFluffSkipFile):\n',
        'R34c', None, 'breaking twin of the subject-in-a-local spelling: the arm no longer reads the forwarded exception',
    ),
    Variant(
        'counter-transfer-local-holds-something-else', LINTER,
        '        result.files_skipped = runner.skipped_file_count\n        result.stop_timer()\n',
        '        n_skipped = len(expanded_paths) - len(result.paths)\n        result.stop_timer()\n        result.files_skipped = n_skipped\n',
        'R34c', None, 'breaking twin of the counter-in-a-local spelling',
    ),
    Variant(
        'lint-skip-fail-when-nothing-skipped', CMD,
        '        if result.files_skipped and config.get("large_file_skip_fail"):\n            exit_code = max(exit_code, EXIT_FAIL)\n        sys.exit(exit_code)\n',
        '        if result.files_skipped == 0 and config.get("large_file_skip_fail"):\n            exit_code = max(exit_code, EXIT_FAIL)\n        sys.exit(exit_code)\n',
        'R34d', None, 'breaking twin of the compare-with-zero spelling',
    ),
    Variant("placeholder-process-undecorated", PLACEHOLDER, "    @large_file_check\n    def process(", "    def process(", "R34a", "PlaceholderTemplater.process"),
    Variant("jinja-variants-undecorated", JINJA, "    @large_file_check\n    def process_with_variants(", "    def process_with_variants(", "R34a", "JinjaTemplater.process_with_variants"),
    Variant("dbt-check-inside-error-wrapper", DBT,
            "    @large_file_check\n    @handle_dbt_errors(\n        SQLTemplaterError, \"Error received from dbt during project compilation. \"\n    )\n    def process(",
            "    @handle_dbt_errors(\n        SQLTemplaterError, \"Error received from dbt during project compilation. \"\n    )\n    @large_file_check\n    def process(",
            "R34a", "DbtTemplater.process"),
    Variant("sqlmesh-process-undecorated", SQLMESH, "    @large_file_check\n    @handle_sqlmesh_errors(SQLTemplaterError, ERROR_PREAMBLE)\n", "    @handle_sqlmesh_errors(SQLTemplaterError, ERROR_PREAMBLE)\n", "R34a", "SQLMeshTemplater.process"),
    Variant("char-limit-compares-fname", TEMPL_BASE, "if limit and len(in_str) > limit:", "if limit and len(fname) > limit:", "R34a", "large_file_check"),
    Variant("char-limit-only-warns", TEMPL_BASE, "                raise SQLFluffSkipFile(\n                    f\"Length of file {fname!r} is over {limit} characters. \"", "                templater_logger.warning(\n                    f\"Length of file {fname!r} is over {limit} characters. \"", "R34a", "large_file_check"),
    Variant("byte-limit-only-warns", LINTER, "                raise SQLFluffSkipFile(\n                    f\"Length of file {fname!r} is {file_size} bytes which is over \"", "                linter_logger.warning(\n                    f\"Length of file {fname!r} is {file_size} bytes which is over \"", "R34b", "load_raw_file_and_config"),
    Variant("byte-limit-measures-name", LINTER, "file_size = os.path.getsize(fname)", "file_size = len(fname)", "R34b", "load_raw_file_and_config"),
    Variant("byte-limit-inverted", LINTER, "            if file_size > limit:\n", "            if file_size < limit:\n", "R34b", "load_raw_file_and_config"),
    Variant("serial-skip-not-counted", RUNNER, "                linter_logger.warning(str(s))\n                self.skipped_file_count += 1\n", "                linter_logger.warning(str(s))\n", "R34c", "iter_rendered"),
    Variant("parallel-skip-not-counted", RUNNER, "                        linter_logger.warning(str(lint_result.ee))\n                        self.skipped_file_count += 1\n", "                        linter_logger.warning(str(lint_result.ee))\n", "R34c", "ParallelRunner.run"),
    Variant("counter-not-transferred", LINTER, "        result.files_skipped = runner.skipped_file_count\n", "", "R34c", "lint_paths"),
    Variant(
        "serial-handler-removed", RUNNER,
        "            try:\n                yield fname, self.linter.render_file(fname, self.config)\n            except SQLFluffSkipFile as s:\n                linter_logger.warning(str(s))\n                self.skipped_file_count += 1\n",
        "            yield fname, self.linter.render_file(fname, self.config)\n",
        "R34c", "lint_paths",
    ),
    Variant("worker-swallows-skip", RUNNER, "        except Exception as e:\n            return DelayedException(e, fname=fname)\n", "        except Exception as e:\n            return DelayedException(RuntimeError(str(e)), fname=fname)\n", "R34c", "_apply"),
    Variant("counted-only-when-verbose", RUNNER, "                linter_logger.warning(str(s))\n                self.skipped_file_count += 1\n", "                linter_logger.warning(str(s))\n                if self.linter.formatter:\n                    self.skipped_file_count += 1\n", "R34c", "iter_rendered"),
    Variant("lint-exit-ignores-skips", CMD, "        if result.files_skipped and config.get(\"large_file_skip_fail\"):\n            exit_code = max(exit_code, EXIT_FAIL)\n", "", "R34d", "lint"),
    Variant("fix-exit-wrong-key", CMD, "linter.config.get(\"large_file_skip_fail\")", "linter.config.get(\"large_file_skip\")", "R34d", "_paths_fix"),
    Variant("fix-exit-or-instead-of-and", CMD, "    if result.files_skipped and linter.config.get(\"large_file_skip_fail\"):", "    if result.files_skipped or linter.config.get(\"large_file_skip_fail\"):", "R34d", "_paths_fix"),
    Variant("fix-early-exit-before-test", CMD, "    if persist_timing:\n        result.persist_timing_records(persist_timing)\n\n    # If large_file_skip_fail is set", "    if persist_timing:\n        result.persist_timing_records(persist_timing)\n        sys.exit(exit_code)\n\n    # If large_file_skip_fail is set", "R34d", "_paths_fix"),
    Variant("skip-yields-placeholder", RUNNER, "                linter_logger.warning(str(s))\n                self.skipped_file_count += 1\n", "                linter_logger.warning(str(s))\n                self.skipped_file_count += 1\n                yield fname, None\n", "R34e", "iter_rendered"),
    Variant("parallel-arm-falls-to-yield", RUNNER,
            "                        self.skipped_file_count += 1\n                    else:\n                        try:\n                            lint_result.reraise()\n                        except Exception as e:\n                            self._handle_lint_path_exception(lint_result.fname, e)\n                else:\n",
            "                        self.skipped_file_count += 1\n                    else:\n                        try:\n                            lint_result.reraise()\n                        except Exception as e:\n                            self._handle_lint_path_exception(lint_result.fname, e)\n                if True:\n",
            "R34e", "ParallelRunner.run"),
]
